"""C10 -- results depend only on arguments and seed (translator route, DESIGN.md 3b / 6 C10).

static : harness/skeleton_c10.py regenerates coq/Gen/SkelC10.v from the working tree; Gen/SkelC10Ok.v holds the closed
         obligations `api_deterministic : check_all universe api exemptions fuel = true` and `api_names_unique` (vm_compute);
         Proofs/EffectsP.v proves that the checker is sound for the semantics of Model/Effects.v (noninterference);
         Properties/C10.v states the theorem and its corollaries for the regenerated api.
dynamic: every exported seeded function (enumerated from the source) is run under different global generator states and
         call histories and compared bitwise; generator-object mode; unseeded functions; default dictionaries.  The
         observed effects must agree with what the skeleton predicts (correspondence) and double as the failing-input search.
"""
import ast
import contextlib
import copy
import io
import json
import os
import random as pyrandom
import re
import subprocess
import sys
import traceback
import warnings

import numpy as np

from harness import common as C
from harness import skeleton_c10 as SK

THEOREMS = 'Properties/C10.v'
TIME_LIMIT = {'quick': 900, 'thorough': 3600}
CLAIM = dict(
    text='C10_noninterference (Coq, proved for every skeleton set, every two worlds, every fuel, every generator algorithm '
         'and numeric code): if the boolean checker accepts (check_all = true), then for every entry context of an exported '
         'function -- integer seeds or generator objects, callbacks supplied by the user or left at their defaults, optional '
         'dictionaries left at their defaults -- two runs in worlds that agree only on what is handed to the call (and differ '
         'arbitrarily in the global NumPy stream, OS entropy, clock, other generator objects and contents of the default '
         'dictionaries) end with the same flag and the same observation history (every draw, every read of a default '
         'dictionary, every decision, every callback call; the result is a function of arguments and history); neither run '
         'touches the global stream, OS entropy or any generator object that was not handed over; handed-over generator '
         'objects end in the same state. Corollaries for the functions of the working tree, with the premise discharged by '
         'the per-run closed obligations C10_api_deterministic / C10_api_names_unique (vm_compute over the skeleton '
         'regenerated from the source by a fail-closed ast translator): C10_api_integer_seed (same integer seed and '
         'arguments => same history; global stream, entropy and EVERY generator object untouched), '
         'C10_api_generator_object (only the given objects advance; a second object in the same state reproduces history and '
         'end state), C10_api_unseeded (functions without a seed parameter draw from no generator of the world and their '
         'history does not depend on the world, in particular not on what the default dictionaries held). '
         'rand_custom (no seed parameter, default f=np.random.randn) is a named exemption in the Coq data: it is covered with f '
         'supplied by the user only. Non-vacuity Examples: accepted / rejected skeletons (global draw two levels down, read '
         'before reset, seed=None, np.empty storage read before it is written = event Uninit) and concrete two-world runs showing equal histories for the accepted and different ones '
         'for the rejected skeletons.',
    note='What is proved is a property of the effect skeleton; that the skeleton describes the Python source is trusted '
         '(ast translator, rules listed in the evidence) and validated numerically on every run by the dynamic harness '
         '(bitwise comparison under >= 4 global generator states x call histories, generator-object mode, default '
         'dictionaries, pollution of the default dictionaries, re-import under different global states, fresh / first / second / '
         'after-other-inputs / after-raising-calls / after-importlib.reload call histories, degenerate shapes and power-of-two '
         'rescalings, allocator poisoning for np.empty storage, seed forms (int 0 / 1 / large, bool, NumPy integers, 0-d array, '
         'Generator, Generator subclass, one object reused vs two equal-state objects, positional seed + explicit defaults), '
         'argument forms (tuple / int32 / int64 arrays, NumPy scalars, F-ordered / non-contiguous cores, flags as 1 / np.bool_), '
         'three calls on the same argument objects, and OPTION COVERAGE: every optional parameter of every exported function set to '
         'a non-default value one at a time (booleans flipped, numeric options changed, optional arrays / callbacks / dictionaries '
         'supplied) in the history / shared-arguments / poison streams; the shared-arguments stream is repeated for three memory '
         'layouts of the inputs (C-ordered, Fortran-ordered, all TT-ranks 1) and for list / exact-dtype ndarray / single-item forms of '
         'index, point and grid-option arguments (quick tier: all recipes on the C layout, a round-robin third on the other layouts and of '
         'the option-coverage recipes under poisoning; thorough tier: everything); a LARGE-size regime with small explicit caps (mode '
         'sizes 12..16, ranks 11..13, r = 1 / 2) repeated three times; a recording Generator (copies included): every draw through the '
         'object passed, replay of all recorded blocks on ONE twin generator and final bit_generator.state; history with DIFFERENT data (f(x1) then f(x2) against f(x2) first in a fresh import); a result-mutation stream (call, overwrite the returned '
         'objects in place, call again, compare bytes with a snapshot); the pairs not exercised are listed in the evidence '
         '(coverage.options_not_exercised)) -- that part is '
         'validation, not proof. For np.empty the translator only checks that a store is executed on every path; that the '
         'stores cover every element is validated by the allocator-poisoning stream only. Trusted: NumPy '
         'contract default_rng(int) deterministic / a Generator draws from its own state only; user callbacks do not draw '
         'from global generators nor store new keys in info. Not modelled: iteration order of dictionaries, implicit '
         'exceptions outside try blocks, info["t"] (timing, excluded from "result"), out-of-fuel runs (excluded explicitly: '
         'the theorems speak about runs that return). Observation (not a C10 violation, decided by the lead): NumPy-integer seeds '
         '(np.int64(5)) are not recognised by utils._rand and make every seeded function raise AttributeError, loudly and '
         'identically on every call; the dynamic rule is: a non-canonical seed / argument form gives the canonical answer or '
         'raises, never another answer silently.',
    technique='Coq soundness proof (two-run simulation, induction on fuel and command) of an effect checker + per-run closed '
              'boolean obligation over a regenerated skeleton + dynamic bitwise determinism harness')
TRUSTED = ['Coq 8.16.1 kernel + vm_compute (closed obligation api_deterministic)',
           'harness/skeleton_c10.py: Python ast -> skeleton translator (rules in evidence coverage.translator_rules)',
           'NumPy: default_rng(int) is a function of the integer; a Generator draws from its own state only',
           'user callbacks (f, cb, func, fh) are functions of their arguments: no global draws, no new keys stored into info',
           'timing key info["t"] is excluded from "result" (documented timing); dictionary iteration order not modelled']
ASSUMPTIONS = ['A seed given as None (OS entropy) is outside the property; the checker rejects any library-internal use of it.',
               'Object fields other than generators (ANOVA caches) count as data.']

GEN_V = os.path.join(C.GEN, 'SkelC10.v')
GEN_OK = os.path.join(C.GEN, 'SkelC10Ok.v')
GEN_JSON = os.path.join(C.GEN, 'SkelC10.json')
FUEL = 20000
OK_SRC = f'''(* GENERATED -- the per-run obligation of C10: the checker accepts every function of the working tree *)
From Coq Require Import String List.
From TV Require Import Model.Effects Gen.SkelC10.
Definition fuel_c10 : nat := {FUEL}.
Lemma api_deterministic : check_all universe api exemptions fuel_c10 = true.
Proof. vm_compute; reflexivity. Qed.
Lemma api_names_unique : names_unique api = true.
Proof. vm_compute; reflexivity. Qed.
(* non-vacuity on the working tree: at least 5 exported seeded functions have a model run (seed 7, concrete world, one of six decision oracles) that
   returns and draws from the generator made from the seed *)
Lemma api_runs_and_draws : Nat.leb 5 (List.length (List.filter (runs_and_draws universe api) api)) = true.
Proof. vm_compute; reflexivity. Qed.
'''
_STATE = {}


def pregen(R, ctx):
    rep = SK.generate(C.REPO, GEN_V, GEN_JSON)
    old = open(GEN_OK).read() if os.path.exists(GEN_OK) else None
    if old != OK_SRC:
        open(GEN_OK, 'w').write(OK_SRC)
    _STATE['report'] = rep
    return rep


# ----------------------------------------------------------------------------------------------------------------------
# static diagnostics: which contexts fail, and why (only needed when api_deterministic does not hold)
# ----------------------------------------------------------------------------------------------------------------------

def _coq_strings(txt):
    """parse `[("a", [("k", "d"); ...]); ...]` (Coq strings, "" escapes a quote) into python"""
    out, i, n = [], 0, len(txt)
    buf = ''
    while i < n:
        ch = txt[i]
        if ch == '"':
            j = i + 1
            s = ''
            while j < n:
                if txt[j] == '"':
                    if j + 1 < n and txt[j + 1] == '"':
                        s += '"'
                        j += 2
                        continue
                    break
                s += txt[j]
                j += 1
            buf += json.dumps(s)
            i = j + 1
        elif ch == ';':
            buf += ','
            i += 1
        else:
            buf += ch
            i += 1
    return ast.literal_eval(buf.strip())


def static_failing():
    d = os.path.join(C.GEN, f'tmp_C10_{os.getpid()}')
    os.makedirs(d, exist_ok=True)
    try:
        f = os.path.join(d, 'Diag.v')
        open(f, 'w').write('From Coq Require Import String List.\nFrom TV Require Import Model.Effects Gen.SkelC10.\n'
                           'Import ListNotations. Open Scope string_scope. Open Scope list_scope.\n'
                           'Set Printing Width 2000000000. Set Printing Depth 2000000000.\n'
                           'Goal True. idtac "@@RES". exact I. Qed.\n'
                           f'Eval vm_compute in (failing universe api exemptions {FUEL}).\n')
        r = subprocess.run(['timeout', '600', 'coqc', '-Q', C.COQ, 'TV', f], capture_output=True, text=True, cwd=d)
        if r.returncode != 0:
            return [('<diagnostics failed>', [('coqc', (r.stdout + r.stderr)[-1500:])])]
        body = r.stdout.split('@@RES', 1)[1]
        m = re.search(r'=\s*(.*)\n\s*:\s*list', body, flags=re.S)
        return _coq_strings(m.group(1))
    finally:
        import shutil
        shutil.rmtree(d, ignore_errors=True)


def static_report():
    """human readable: which function, which event, file:line"""
    rep = _STATE.get('report') or pregen(None, None)
    sites = rep['sites']
    out = []
    seen = set()
    for fn, errs in static_failing():
        for kind, det in errs:
            where = ''
            if kind in ('GlobalDraw', 'Uninit') and det.isdigit() and int(det) < len(sites):
                s = sites[int(det)]
                where = f"{s['file']}:{s['line']} ({s['what']})"
            key = (fn, kind, det)
            if key in seen:
                continue
            seen.add(key)
            out.append(dict(function=fn, event=kind, detail=det, where=where))
    return out


# ----------------------------------------------------------------------------------------------------------------------
# dynamic harness
# ----------------------------------------------------------------------------------------------------------------------

def canon(x):
    """exact, hashable image of a result (bitwise for arrays and floats)"""
    if isinstance(x, np.ndarray):
        if x.dtype == object:
            return ('objarr', x.shape, tuple(canon(y) for y in x.ravel().tolist()))
        return ('arr', str(x.dtype), x.shape, np.ascontiguousarray(x).tobytes())
    if isinstance(x, (list, tuple)):
        return (type(x).__name__,) + tuple(canon(y) for y in x)
    if isinstance(x, dict):
        return ('dict',) + tuple(sorted((repr(k), canon(v)) for k, v in x.items()))
    if isinstance(x, (float, np.floating)):
        return ('f', float(x).hex())
    if isinstance(x, (bool, np.bool_)):
        return ('b', bool(x))
    if isinstance(x, (int, np.integer)):
        return ('i', int(x))
    if isinstance(x, np.random.Generator):
        return ('gen', repr(x.bit_generator.state))
    if x is None or isinstance(x, str):
        return x
    if isinstance(x, BaseException):
        return ('exc', type(x).__name__, str(x)[:200])
    if callable(x):
        return ('callable',)
    return ('obj', type(x).__name__)


def gstate():
    s = np.random.get_state()
    return (s[0], s[1].tobytes(), s[2], s[3], s[4]), pyrandom.getstate()


def short(c, n=160):
    r = repr(c)
    return r if len(r) <= n else r[:n] + '...'


class Env:
    """inputs shared by the recipes (built once from the check's PRNG; small so that every call is fast)"""

    def __init__(self, tn, rng, layout='C'):
        self.tn = tn
        self.layout = layout
        g = np.random.default_rng(rng.randrange(2 ** 31))
        self.n = [4, 5, 3]
        self.n4 = [4, 4, 4]
        self.Y = [g.uniform(-1, 1, (1, 4, 2)), g.uniform(-1, 1, (2, 5, 3)), g.uniform(-1, 1, (3, 3, 1))]
        self.Y2 = [g.uniform(-1, 1, (1, 4, 2)), g.uniform(-1, 1, (2, 5, 2)), g.uniform(-1, 1, (2, 3, 1))]
        self.Yp = [np.abs(G) + 0.05 for G in self.Y]
        self.A = [g.uniform(-1, 1, (1, 4, 2)), g.uniform(-1, 1, (2, 4, 2)), g.uniform(-1, 1, (2, 4, 1))]
        self.G = g.uniform(-1, 1, (2, 4, 3))
        self.I = np.vstack([g.integers(0, 4, (90, 3)), np.arange(4)[:, None].repeat(3, axis=1)])
        self.y = np.sin(self.I.sum(axis=1) * 0.7) + 0.1 * self.I[:, 0]
        self.X = g.uniform(-1, 1, (80, 3))
        self.yx = np.sin(self.X.sum(axis=1))
        self.Y0 = [g.uniform(-1, 1, (1, 4, 2)), g.uniform(-1, 1, (2, 4, 2)), g.uniform(-1, 1, (2, 4, 1))]
        self.Y1 = [g.uniform(-1, 1, (1, 4, 1)), g.uniform(-1, 1, (1, 5, 1)), g.uniform(-1, 1, (1, 3, 1))]
        self.M = g.uniform(-1, 1, (8, 3))
        # degenerate inputs: a mode of size 1; a constant index column; sparse training data (index pairs without a sample)
        self.Yp1 = [np.abs(g.uniform(-1, 1, (1, 4, 2))) + 0.05, np.abs(g.uniform(-1, 1, (2, 1, 3))) + 0.05,
                    np.abs(g.uniform(-1, 1, (3, 3, 1))) + 0.05]
        self.A1 = [g.uniform(-1, 1, (1, 4, 2)), g.uniform(-1, 1, (2, 1, 2)), g.uniform(-1, 1, (2, 3, 1))]
        self.I1 = self.I.copy()
        self.I1[:, 1] = 0
        self.Iy = self.I % np.array([4, 5, 3])
        self.I44 = np.vstack([g.integers(0, 4, (60, 3))])
        self.R22 = g.uniform(-1, 1, (2, 2))
        self.R33 = g.uniform(-1, 1, (3, 3)) + 2 * np.eye(3)
        self.M44 = g.uniform(-1, 1, (4, 4))
        self.Yq = [g.uniform(-1, 1, (1, 2, 2)), g.uniform(-1, 1, (2, 2, 2)), g.uniform(-1, 1, (2, 2, 2)), g.uniform(-1, 1, (2, 2, 1))]
        self.Iq = g.integers(0, 2, (5, 4))
        self.Ymat = [g.uniform(-1, 1, (1, 2, 2, 2)), g.uniform(-1, 1, (2, 2, 2, 1))]
        self.Ybig = [self.Yp[0].copy(), self.Yp[1] * 2. ** 200, self.Yp[2].copy()]
        self.Ytiny = [G * 2. ** -150 for G in self.Yp]
        self.Isp = np.array([[0, 0, 0], [1, 1, 1], [2, 2, 2], [3, 3, 3], [0, 1, 2], [1, 2, 3]])
        self.ysp = np.arange(6.) + 1
        self.Xg = [np.cos(np.pi * np.arange(4) / 3) for _ in range(3)]
        nL = [12, 14, 13]
        IL = np.vstack([g.integers(0, k, 900) for k in nL]).T
        self.large = dict(
            M=g.uniform(-1, 1, (60, 25)), M16=g.uniform(-1, 1, (16, 16)),
            Y=[g.uniform(-1, 1, (1, 12, 12)), g.uniform(-1, 1, (12, 14, 13)), g.uniform(-1, 1, (13, 13, 1))],
            Y2=[g.uniform(-1, 1, (1, 12, 2)), g.uniform(-1, 1, (2, 14, 2)), g.uniform(-1, 1, (2, 13, 1))],
            Y1=[g.uniform(-1, 1, (1, 12, 1)), g.uniform(-1, 1, (1, 14, 1)), g.uniform(-1, 1, (1, 13, 1))],
            Y16=[g.uniform(-1, 1, (1, 16, 11)), g.uniform(-1, 1, (11, 16, 11)), g.uniform(-1, 1, (11, 16, 1))],
            T=g.uniform(-1, 1, (12, 14, 13)), I=IL, y=np.sin(IL.sum(axis=1) * 0.2) + 0.05 * IL[:, 0])
        # memory layouts of the same inputs: C-ordered (as built above / by teneva.copy), Fortran-ordered (as built by
        # teneva.rand), all TT-ranks equal to 1 (every unfolding of a core is a view)
        tts = ['Y', 'Y2', 'Yp', 'A', 'Y0', 'Y1', 'Yp1', 'A1', 'Yq', 'Ybig', 'Ytiny']
        if layout == 'rank1':
            for a in tts:
                setattr(self, a, [np.ascontiguousarray(G[:1, :, :1]) for G in getattr(self, a)])
            self.G = np.ascontiguousarray(self.G[:1, :, :1])
            self.R22, self.R33 = self.R22[:1, :1].copy(), self.R33[:1, :1].copy()
        if layout == 'F':
            for a in tts + ['Ymat']:
                setattr(self, a, [np.asfortranarray(G) for G in getattr(self, a)])
            for a in ['G', 'M', 'M44', 'X', 'I', 'Iy', 'I44', 'R22', 'R33']:
                setattr(self, a, np.asfortranarray(getattr(self, a)))

    @staticmethod
    def f_cross(I):
        I = np.asarray(I, dtype=float)
        return np.sin(I.sum(axis=1) * 0.3) + I[:, 0] * 0.25

    @staticmethod
    def f_act(X):
        return X[:, 0] * X[:, 1] + 1.0


_SHARE = [False]


def cp(x):
    """fresh copy of an input (default); in shared mode the recipes get the SAME argument objects on every call"""
    return x if _SHARE[0] else copy.deepcopy(x)


def seeded_recipes(E):
    """exported name -> list of (label, call(seed)) ; every call builds fresh copies of its arguments"""
    tn = E.tn
    R = {}
    R['rand'] = [('n=[4,5,3] r=2', lambda s: tn.rand(cp(E.n), 2, seed=s)),
                 ('r list a,b', lambda s: tn.rand([3, 2, 4, 2], [1, 2, 3, 2, 1], -2., 3., seed=s))]
    R['rand'].append(('optional arguments at their defaults', lambda s: tn.rand(cp(E.n), 2, seed=s)))
    R['rand_norm'] = [('n=[4,5,3] r=3', lambda s: tn.rand_norm(cp(E.n), 3, 0.5, 2., seed=s)),
                      ('optional arguments at their defaults', lambda s: tn.rand_norm(cp(E.n), 3, seed=s))]
    R['rand_stab'] = [('n=[4,5,3] r=2', lambda s: tn.rand_stab(cp(E.n), 2, 1e-3, seed=s)),
                      ('optional arguments at their defaults', lambda s: tn.rand_stab(cp(E.n), 2, seed=s))]
    R['sample'] = [('m=6', lambda s: tn.sample(cp(E.Yp), 6, seed=s))]
    R['sample_lhs'] = [('n=[4,5,3] m=7', lambda s: tn.sample_lhs(cp(E.n), 7, seed=s)),
                       ('m<k', lambda s: tn.sample_lhs([6, 7], 3, seed=s))]
    R['sample_rand'] = [('n=[4,5,3] m=7', lambda s: tn.sample_rand(cp(E.n), 7, seed=s))]
    R['sample_rand_poi'] = [('d=3 m=5', lambda s: tn.sample_rand_poi([-1., 0., 2.], [1., 3., 5.], 5, seed=s))]
    R['sample_tt'] = [('n=[4,5,3] r=2', lambda s: tn.sample_tt(cp(E.n), 2, seed=s)),
                      ('optional arguments at their defaults', lambda s: tn.sample_tt(cp(E.n), seed=s))]
    R['sample_square'] = [('unique m=5', lambda s: tn.sample_square(cp(E.Yp), 5, seed=s)),
                          ('unique m=40 (restarts)', lambda s: tn.sample_square(cp(E.Yp), 40, True, s, 1, 100)),
                          ('not unique m=9', lambda s: tn.sample_square(cp(E.Yp), 9, unique=False, seed=s))]
    R['sample_func'] = [('A 4x4x4', lambda s: tn.sample_func(cp(E.A), seed=s))]
    R['core_qr_rand'] = [('optional arguments at their defaults', lambda s: tn.core_qr_rand(cp(E.G), 2, seed=s)),
                         ('ltr', lambda s: tn.core_qr_rand(cp(E.G), 2, True, seed=s)),
                         ('rtl', lambda s: tn.core_qr_rand(cp(E.G), 1, False, seed=s))]
    R['cross_act'] = [('dr=2 dr2=1', lambda s: tn.cross_act(E.f_act, [cp(E.Y), cp(E.Y2)], cp(E.Y1), e=1e-8, nswp=2, r=4,
                                                            dr=2, dr2=1, seed=s))]
    R['anova'] = [('optional arguments at their defaults', lambda s: tn.anova(cp(E.I), cp(E.y), seed=s)),
                  ('order 1', lambda s: tn.anova(cp(E.I), cp(E.y), 2, 1, 1e-3, seed=s)),
                  ('order 2', lambda s: tn.anova(cp(E.I), cp(E.y), 3, 2, 1e-3, seed=s))]

    def anova_cls(s):
        A = tn.ANOVA(cp(E.I), cp(E.y), 2, seed=s)
        return [A.cores(2, 1e-3), A.sample(), A.sample()]
    R['ANOVA'] = [('cores + sample', anova_cls)]
    R['_rand'] = [('generator state', lambda s: tn._rand(s))]
    # exact power-of-two rescalings (one core / all values): the same pipeline must stay world independent
    R['sample'].append(('one core * 2^200', lambda s: tn.sample(cp(E.Ybig), 6, seed=s)))
    R['sample'].append(('all cores * 2^-150', lambda s: tn.sample(cp(E.Ytiny), 6, seed=s)))
    R['sample_square'].append(('one core * 2^200, unique', lambda s: tn.sample_square(cp(E.Ybig), 5, seed=s)))
    R['sample_square'].append(('all cores * 2^-150, not unique', lambda s: tn.sample_square(cp(E.Ytiny), 7, unique=False, seed=s)))
    R['rand'].append(('a, b = -+2^-1000', lambda s: tn.rand(cp(E.n), 2, -2. ** -1000, 2. ** -1000, seed=s)))
    R['rand_norm'].append(('m = 0, s = 2^-600', lambda s: tn.rand_norm(cp(E.n), 2, 0., 2. ** -600, seed=s)))
    R['rand_norm'].append(('m = s = 2^500', lambda s: tn.rand_norm(cp(E.n), 2, 2. ** 500, 2. ** 500, seed=s)))
    R['rand_stab'].append(('noise = 2^-1000', lambda s: tn.rand_stab(cp(E.n), 2, 2. ** -1000, seed=s)))
    R['core_qr_rand'].append(('core * 2^300', lambda s: tn.core_qr_rand(cp(E.G) * 2. ** 300, 2, seed=s)))
    return R


def argform_recipes(E):
    """name -> (canonical call(seed), [(form label, call(seed))]): other documented forms of the NON-seed arguments (list /
    tuple / ndarray of int64 / int32, NumPy integer scalars, flags as 1 / np.bool_, F-ordered and non-contiguous cores)
    must give the canonical answer bit for bit, or raise -- never another answer silently"""
    tn = E.tn
    n = list(E.n)

    def forms_n():
        return [('n tuple', tuple(n)), ('n int64 array', np.array(n, dtype=np.int64)), ('n int32 array', np.array(n, dtype=np.int32)),
                ('n list of np.int64', [np.int64(k) for k in n])]

    def fo(Y):
        return [np.asfortranarray(G) for G in Y]

    def nc(Y):
        out = []
        for G in Y:
            B = np.zeros((G.shape[0], 2 * G.shape[1], G.shape[2]))
            B[:, ::2, :] = G
            out.append(B[:, ::2, :])
        return out
    R = {}
    R['rand'] = (lambda s: tn.rand(n, 2, seed=s),
                 [(l, (lambda s, v=v: tn.rand(v, 2, seed=s))) for l, v in forms_n()] +
                 [('r np.int64', lambda s: tn.rand(n, np.int64(2), seed=s)), ('r list', lambda s: tn.rand(n, [1, 2, 2, 1], seed=s)),
                  ('r int32 array', lambda s: tn.rand(n, np.array([1, 2, 2, 1], dtype=np.int32), seed=s)),
                  ('a, b as np.float64', lambda s: tn.rand(n, 2, np.float64(-1.), np.float64(1.), seed=s)),
                  ('a, b as int', lambda s: tn.rand(n, 2, -1, 1, seed=s))])
    R['rand_norm'] = (lambda s: tn.rand_norm(n, 2, seed=s),
                      [(l, (lambda s, v=v: tn.rand_norm(v, 2, seed=s))) for l, v in forms_n()] +
                      [('m, s as int', lambda s: tn.rand_norm(n, 2, 0, 1, seed=s))])
    R['rand_stab'] = (lambda s: tn.rand_stab(n, 2, seed=s), [(l, (lambda s, v=v: tn.rand_stab(v, 2, seed=s))) for l, v in forms_n()])
    R['sample_lhs'] = (lambda s: tn.sample_lhs(n, 7, seed=s),
                       [(l, (lambda s, v=v: tn.sample_lhs(v, 7, seed=s))) for l, v in forms_n()] +
                       [('m np.int64', lambda s: tn.sample_lhs(n, np.int64(7), seed=s)), ('m float 7.0', lambda s: tn.sample_lhs(n, 7.0, seed=s))])
    R['sample_rand'] = (lambda s: tn.sample_rand(n, 7, seed=s),
                        [(l, (lambda s, v=v: tn.sample_rand(v, 7, seed=s))) for l, v in forms_n()] +
                        [('m np.int32', lambda s: tn.sample_rand(n, np.int32(7), seed=s))])
    R['sample_tt'] = (lambda s: tn.sample_tt(n, 2, seed=s),
                      [(l, (lambda s, v=v: tn.sample_tt(v, 2, seed=s))) for l, v in forms_n()] +
                      [('r np.int64', lambda s: tn.sample_tt(n, np.int64(2), seed=s))])
    R['sample_rand_poi'] = (lambda s: tn.sample_rand_poi([-1., 0., 2.], [1., 3., 5.], 5, seed=s),
                            [('a, b arrays', lambda s: tn.sample_rand_poi(np.array([-1., 0., 2.]), np.array([1., 3., 5.]), 5, seed=s)),
                             ('a, b tuples of int', lambda s: tn.sample_rand_poi((-1, 0, 2), (1, 3, 5), 5, seed=s)),
                             ('m np.int64', lambda s: tn.sample_rand_poi([-1., 0., 2.], [1., 3., 5.], np.int64(5), seed=s))])
    R['sample'] = (lambda s: tn.sample(cp(E.Yp), 6, seed=s),
                   [('F-ordered cores', lambda s: tn.sample(fo(E.Yp), 6, seed=s)), ('non-contiguous cores', lambda s: tn.sample(nc(E.Yp), 6, seed=s)),
                    ('m np.int64', lambda s: tn.sample(cp(E.Yp), np.int64(6), seed=s)), ('cores in a tuple', lambda s: tn.sample(tuple(cp(E.Yp)), 6, seed=s))])
    R['sample_square'] = (lambda s: tn.sample_square(cp(E.Yp), 5, seed=s),
                          [('F-ordered cores', lambda s: tn.sample_square(fo(E.Yp), 5, seed=s)),
                           ('non-contiguous cores', lambda s: tn.sample_square(nc(E.Yp), 5, seed=s)),
                           ('unique=1', lambda s: tn.sample_square(cp(E.Yp), 5, 1, seed=s)),
                           ('unique=np.bool_(True)', lambda s: tn.sample_square(cp(E.Yp), 5, np.bool_(True), seed=s)),
                           ('unique passed explicitly', lambda s: tn.sample_square(cp(E.Yp), 5, True, seed=s)),
                           ('m np.int64', lambda s: tn.sample_square(cp(E.Yp), np.int64(5), seed=s))])
    R['sample_func'] = (lambda s: tn.sample_func(cp(E.A), seed=s),
                        [('F-ordered cores', lambda s: tn.sample_func(fo(E.A), seed=s)), ('non-contiguous cores', lambda s: tn.sample_func(nc(E.A), seed=s)),
                         ('cores_are_prepared=0', lambda s: tn.sample_func(cp(E.A), s, 0))])
    R['core_qr_rand'] = (lambda s: tn.core_qr_rand(cp(E.G), 2, seed=s),
                         [('F-ordered core', lambda s: tn.core_qr_rand(np.asfortranarray(E.G), 2, seed=s)), ('m np.int64', lambda s: tn.core_qr_rand(cp(E.G), np.int64(2), seed=s)),
                          ('ltr=1', lambda s: tn.core_qr_rand(cp(E.G), 2, 1, seed=s)), ('ltr=np.bool_(True)', lambda s: tn.core_qr_rand(cp(E.G), 2, np.bool_(True), seed=s))])
    R['anova'] = (lambda s: tn.anova(cp(E.I), cp(E.y), 2, 1, 1e-3, seed=s),
                  [('I int32', lambda s: tn.anova(E.I.astype(np.int32), cp(E.y), 2, 1, 1e-3, seed=s)),
                   ('I, y lists', lambda s: tn.anova(E.I.tolist(), E.y.tolist(), 2, 1, 1e-3, seed=s)),
                   ('I F-ordered', lambda s: tn.anova(np.asfortranarray(E.I), cp(E.y), 2, 1, 1e-3, seed=s)),
                   ('r, order np.int64', lambda s: tn.anova(cp(E.I), cp(E.y), np.int64(2), np.int64(1), 1e-3, seed=s))])
    return R


def check_argforms(E, seed, fails, stats, only=None):
    for name, (canon_call, forms) in argform_recipes(E).items():
        if only and name not in only and 'argform' not in only:
            continue
        np.random.seed(1)
        ref, _ = run_call(lambda: canon_call(seed))
        stats['evals'] += 1
        for i, (label, call) in enumerate(forms):
            np.random.seed(2 + i)
            r, touched = run_call(lambda: call(seed))
            stats['evals'] += 1
            stats['keys'].append(('argform', name, label))
            raised = isinstance(r, tuple) and bool(r) and r[0] == 'exc'
            if raised and r != ref:
                stats.setdefault('argform_raises', []).append((name, label, r[1]))
            if touched or (r != ref and not raised):
                fails.append(dict(what=f'{name}: argument form "{label}" with the same integer seed ' +
                                       ('changes the global generator state' if touched else 'silently gives another result than the canonical form'),
                                  input=dict(recipe=['argform', name, label], seed=seed, mode='argument-form'), got=short(r), expected=short(ref)))


def scribble(x, depth=0):
    """overwrite in place everything writable that is reachable from a result"""
    if depth > 6:
        return
    if isinstance(x, np.ndarray):
        if x.dtype == object:
            for y in x.ravel().tolist():
                scribble(y, depth + 1)
        elif x.flags.writeable and x.size:
            try:
                x[...] = (x * 0 + 7) if x.dtype != bool else ~x
            except Exception:
                pass
    elif isinstance(x, (list, tuple)):
        for y in x:
            scribble(y, depth + 1)
        if isinstance(x, list):
            x.append('scribbled')
    elif isinstance(x, dict):
        for y in list(x.values()):
            scribble(y, depth + 1)
        x['scribbled'] = 1


def check_result_mutation(E, seeds, fails, stats, only=None):
    """call, overwrite the returned objects in place (what a caller is free to do with a result), call again with equal
    arguments: the second result must be bit-identical to a snapshot of the first (no result object is kept by the library)"""
    for key, t in all_thunks(E, seeds, degenerate=False):
        if only and 'mutate' not in only and key[0] not in only:
            continue
        np.random.seed(6)
        try:
            with contextlib.redirect_stdout(io.StringIO()), warnings.catch_warnings():
                warnings.simplefilter('ignore')
                r1 = t()
        except Exception:
            continue                      # an exception returns nothing that could be mutated
        snap = canon(r1)
        scribble(r1)
        r2 = run_call(t)[0]
        stats['evals'] += 2
        stats['keys'].append(('mutate',) + key)
        if r2 != snap:
            fails.append(dict(what=f'{key[0]}: call, overwrite the returned arrays in place, call again with equal arguments: the second '
                                   f'result is not bit-identical to the first (the library keeps / hands out again an object it returned)',
                              input=dict(recipe=['mutate', key[0], key[1]], seed=key[2], layout=E.layout, mode='result-mutation'),
                              got=short(r2), expected=short(snap)))


def check_shared_args(E, seeds, fails, stats, only=None, sample=None):
    """every recipe called three times on the SAME argument objects (no copies), interleaved with the other recipes that use
    them: every call must give the reference result (computed on saved copies) and the argument objects must be bit-identical
    afterwards"""
    attrs = [a for a in vars(E) if isinstance(getattr(E, a), (list, np.ndarray))]
    ths = [(k, t) for k, t in all_thunks(E, seeds, degenerate=False) if (not only or 'shared' in only or k[0] in only)
           and '[documented in-place]' not in k[0]]
    if sample:       # quick tier: a round-robin third of the recipes (the offset changes with VERIF_SEED)
        ths = [kt for j, kt in enumerate(ths) if j % sample[0] == sample[1]]
    refs = {}
    for key, t in ths:
        np.random.seed(4)
        refs[key] = run_call(t)[0]
    before = {a: canon(getattr(E, a)) for a in attrs}
    store = E.__dict__.get('_form_store', {})
    sbefore = {k: canon([v[0], sorted(v[1].items(), key=lambda kv: kv[0])]) for k, v in store.items()}
    import zlib

    def collect(x, arrs, lists, depth=0):
        if isinstance(x, np.ndarray) and x.dtype != object:
            arrs.append(x)
        elif isinstance(x, (list, tuple)) and depth < 5:
            if isinstance(x, list):
                lists.append(x)
            for y_ in x:
                collect(y_, arrs, lists, depth + 1)
        elif isinstance(x, dict) and depth < 5:
            lists.append(x)
            for y_ in x.values():
                collect(y_, arrs, lists, depth + 1)
    arrs, lists = [], []
    for a in attrs:
        collect(getattr(E, a), arrs, lists)
    for v in store.values():
        collect(v[0], arrs, lists)
        collect(v[1], arrs, lists)

    def fingerprint():
        h = 0
        for x in arrs:
            h = zlib.crc32(x.tobytes() if not x.flags.c_contiguous else memoryview(x).cast('B'), h)
        return h, tuple(len(x) for x in lists)
    fp = fingerprint()
    _SHARE[0] = True
    try:
        for rnd in range(3):
            for key, t in (ths if rnd != 1 else ths[::-1]):
                np.random.seed(10 + rnd)
                r = run_call(t)[0]
                stats['evals'] += 1
                if r != refs[key]:
                    fails.append(dict(what=f'{key[0]}: call number {rnd + 1} on the SAME argument objects (interleaved with the other '
                                           f'routines that use them) differs from the result on fresh copies',
                                      input=dict(recipe=['shared', key[0], key[1]], seed=key[2], round=rnd, layout=E.layout, mode='shared-arguments'),
                                      got=short(r), expected=short(refs[key])))
                    refs[key] = r
                fp2 = fingerprint()
                if fp2 == fp:
                    continue
                fp = fp2
                bad = [a for a in attrs if canon(getattr(E, a)) != before[a]]
                for k, v in store.items():
                    c = canon([v[0], sorted(v[1].items(), key=lambda kv: kv[0])])
                    if c != sbefore[k]:
                        bad.append(f'arguments of {k[0]} [form {k[1]}: {k[2]}{", single item" if k[3] else ""}]')
                        sbefore[k] = c
                if bad:
                    fails.append(dict(what=f'{key[0]}: the argument objects {bad} were modified by the call (later calls on the same objects '
                                           f'see other data)', input=dict(recipe=['shared', key[0], key[1]], seed=key[2], layout=E.layout, mode='shared-arguments')))
                    for a in bad:
                        if a in before:
                            before[a] = canon(getattr(E, a))
    finally:
        _SHARE[0] = False


def unseeded_recipes(E):
    """representative functions without randomness: name -> call()"""
    tn = E.tn
    R = {}
    R['add'] = lambda: tn.add(cp(E.Y), cp(E.Y2))
    R['mul'] = lambda: tn.mul(cp(E.Y), cp(E.Y2))
    R['sub'] = lambda: tn.sub(cp(E.Y), 2.5)
    R['truncate'] = lambda: tn.truncate(tn.add(cp(E.Y), cp(E.Y2)), 1e-3)
    R['orthogonalize'] = lambda: tn.orthogonalize(cp(E.Y), 1)
    R['full'] = lambda: tn.full(cp(E.Y))
    R['get_many'] = lambda: tn.get_many(cp(E.Y), cp(E.I[:10] % np.array([4, 5, 3])))
    R['sum/mean/norm'] = lambda: [tn.sum(cp(E.Y)), tn.mean(cp(E.Y)), tn.norm(cp(E.Y)), tn.erank(cp(E.Y))]
    R['accuracy'] = lambda: tn.accuracy(cp(E.Y), cp(E.Y2))
    R['svd'] = lambda: tn.svd(tn.full(cp(E.Y)), 1e-6)
    R['matrix_skeleton'] = lambda: tn.matrix_skeleton(cp(E.M), 1e-2)
    R['maxvol'] = lambda: tn.maxvol(cp(E.M))
    R['maxvol_rect'] = lambda: tn.maxvol_rect(cp(E.M), 1.1, 1, 2)
    R['const/delta/poly'] = lambda: [tn.const(cp(E.n), 2.), tn.delta(cp(E.n), [1, 2, 0], 3.)]
    R['optima_tt'] = lambda: tn.optima_tt(cp(E.Y))
    R['func_int/func_get'] = lambda: tn.func_get(cp(E.X[:5]), tn.func_int(cp(E.Y0)), -1., 1.)
    R['grid'] = lambda: [tn.ind_to_poi(cp(E.I[:5]), -1., 1., 4), tn.grid_flat([2, 3])]
    R['anova_func'] = lambda: tn.anova_func(cp(E.X), cp(E.yx), 4)
    R['cross'] = lambda: tn.cross(E.f_cross, cp(E.Y0), m=300, e=1e-10, nswp=3)
    R['cross+cache'] = lambda: tn.cross(E.f_cross, cp(E.Y0), e=1e-10, nswp=2, cache={})
    R['als'] = lambda: tn.als(cp(E.I), cp(E.y), cp(E.Y0), nswp=3)
    R['als adaptive'] = lambda: tn.als(cp(E.I), cp(E.y), cp(E.Y0), nswp=2, r=3)
    R['als_func'] = lambda: tn.als_func(cp(E.X), cp(E.yx), cp(E.Y0), nswp=2)
    R['cache_to_data'] = lambda: tn.cache_to_data()
    R['accuracy_on_data'] = lambda: tn.accuracy_on_data(cp(E.Y0), cp(E.I), cp(E.y))
    return R


def flag_recipes(E):
    """unseeded functions called with a non-default flag that returns more data / takes another code path"""
    tn = E.tn
    R = {}
    R['optima_func_tt_beam ret_all'] = lambda: tn.optima_func_tt_beam(cp(E.Y0), 3, ret_all=True)
    R['optima_func_tt_beam ret_all k=25'] = lambda: tn.optima_func_tt_beam(cp(E.Y0), 25, ret_all=True)
    R['optima_func_tt_beam ret_all k=25 other tensor'] = lambda: tn.optima_func_tt_beam(cp(E.A), 25, ret_all=True)
    R['optima_func_tt_beam k_loc'] = lambda: tn.optima_func_tt_beam(cp(E.Y0), 4, 2, ret_all=True)
    R['optima_func_tt_beam'] = lambda: tn.optima_func_tt_beam(cp(E.Y0), 3)
    R['optima_tt_beam ret_all'] = lambda: tn.optima_tt_beam(cp(E.Y), 3, ret_all=True)
    R['optima_tt_beam r2l ret_all'] = lambda: tn.optima_tt_beam(cp(E.Y), 2, l2r=False, ret_all=True)
    R['optima_tt_max'] = lambda: tn.optima_tt_max(cp(E.Y), 3)
    R['truncate orth=False'] = lambda: tn.truncate(tn.add(cp(E.Y), cp(E.Y2)), 1e-3, orth=False)
    R['truncate is_eigh=False use_stab'] = lambda: tn.truncate(tn.add(cp(E.Y), cp(E.Y2)), 1e-3, is_eigh=False, use_stab=True)
    R['norm use_stab'] = lambda: [tn.norm(cp(E.Y), use_stab=True), tn.mul_scalar(cp(E.Y), cp(E.Y), use_stab=True)]
    R['cross info+cache passed'] = lambda: (lambda info, cache: [tn.cross(E.f_cross, cp(E.Y0), m=200, e=1e-10, info=info, cache=cache),
                                                                {k: v for k, v in info.items() if k != 't'}, len(cache)])({}, {})
    R['als info passed'] = lambda: (lambda info: [tn.als(cp(E.I), cp(E.y), cp(E.Y0), nswp=2, info=info),
                                                  {k: v for k, v in info.items() if k != 't'}])({})
    R['als adaptive sparse data'] = lambda: tn.als(cp(E.Isp), cp(E.ysp), cp(E.Y0), nswp=2, r=3, e=1e-8)
    R['als_func info passed'] = lambda: (lambda info: [tn.als_func(cp(E.X), cp(E.yx), cp(E.Y0), nswp=2, info=info),
                                                       {k: v for k, v in info.items() if k != 't'}])({})
    R['func_get z skip_out'] = lambda: tn.func_get(cp(E.X[:5]) * 1.5, tn.func_int(cp(E.Y0)), -1., 1., z=-7.)
    R['svd_incomplete'] = lambda: tn.svd_incomplete(cp(E.I[:40] % np.array([4, 4, 4])), cp(E.y[:40]), [4, 4, 4])
    R['matrix_svd/skeleton rel'] = lambda: [tn.matrix_svd(cp(E.M), 1e-2), tn.matrix_skeleton(cp(E.M), 1e-2, rel=True, give_to='r')]
    R['tt_to_qtt/qtt_to_tt'] = lambda: tn.qtt_to_tt(tn.tt_to_qtt(cp(E.A)), 2)
    return R


def degenerate_seeded_recipes(E):
    """mode size 1, d = 1, m = 1 (an exception is a result too: it must be the same one)"""
    tn = E.tn
    R = {}
    R['rand'] = [('n=[4,1,3]', lambda s: tn.rand([4, 1, 3], 2, seed=s)), ('d=1', lambda s: tn.rand([3], 1, seed=s))]
    R['rand_norm'] = [('n=[1,1]', lambda s: tn.rand_norm([1, 1], 1, seed=s))]
    R['rand_stab'] = [('n=[4,1,3]', lambda s: tn.rand_stab([4, 1, 3], 2, seed=s))]
    R['sample_lhs'] = [('n=[4,1,3] m=5', lambda s: tn.sample_lhs([4, 1, 3], 5, seed=s)),
                       ('n=[1,1] m=3', lambda s: tn.sample_lhs([1, 1], 3, seed=s)),
                       ('d=1 m=1', lambda s: tn.sample_lhs([4], 1, seed=s)),
                       ('n=[3,1] m=1', lambda s: tn.sample_lhs([3, 1], 1, seed=s))]
    R['sample_rand'] = [('n=[4,1,3] m=1', lambda s: tn.sample_rand([4, 1, 3], 1, seed=s)),
                        ('d=1', lambda s: tn.sample_rand([5], 4, seed=s))]
    R['sample_rand_poi'] = [('d=1 m=1', lambda s: tn.sample_rand_poi([0.], [1.], 1, seed=s))]
    R['sample_tt'] = [('n=[4,1,3]', lambda s: tn.sample_tt([4, 1, 3], 2, seed=s)), ('d=2 n=[1,1]', lambda s: tn.sample_tt([1, 1], 1, seed=s))]
    R['sample'] = [('mode size 1, m=1', lambda s: tn.sample(cp(E.Yp1), 1, seed=s)), ('mode size 1, m=4', lambda s: tn.sample(cp(E.Yp1), 4, seed=s))]
    R['sample_square'] = [('mode size 1, m=1', lambda s: tn.sample_square(cp(E.Yp1), 1, seed=s)),
                          ('mode size 1, not unique m=3', lambda s: tn.sample_square(cp(E.Yp1), 3, unique=False, seed=s))]
    R['sample_func'] = [('mode size 1', lambda s: tn.sample_func(cp(E.A1), seed=s))]
    R['core_qr_rand'] = [('1x1x1 core', lambda s: tn.core_qr_rand(np.ones((1, 1, 1)), 1, seed=s))]
    R['anova'] = [('constant column', lambda s: tn.anova(cp(E.I1), cp(E.y), 2, 1, seed=s)),
                  ('one sample', lambda s: tn.anova(cp(E.I[:1]), cp(E.y[:1]), 1, 1, seed=s))]
    return R


def degenerate_unseeded_recipes(E):
    tn = E.tn
    R = {}
    R['deg add/mul/truncate n=1'] = lambda: tn.truncate(tn.add(cp(E.Yp1), tn.mul(cp(E.Yp1), cp(E.Yp1))), 1e-6)
    R['deg d=1 full/sum/norm'] = lambda: [tn.full([np.ones((1, 3, 1))]), tn.sum([np.ones((1, 3, 1))]), tn.norm([np.ones((1, 3, 1))])]
    R['deg orthogonalize n=1'] = lambda: tn.orthogonalize(cp(E.Yp1), 0)
    R['deg svd 1x1x1 / 4x1x3'] = lambda: [tn.svd(np.ones((1, 1, 1)) * 2.), tn.svd(tn.full(cp(E.Yp1)), 1e-8)]
    R['deg cross n=1 mode'] = lambda: tn.cross(E.f_cross, cp(E.Yp1), m=100, e=1e-10, nswp=2)
    R['deg als one sample'] = lambda: tn.als(cp(E.I[:1]), cp(E.y[:1]), cp(E.Y0), nswp=1)
    R['deg als adaptive one sample'] = lambda: tn.als(cp(E.I[:1]), cp(E.y[:1]), cp(E.Y0), nswp=1, r=2)
    R['deg optima_tt n=1'] = lambda: tn.optima_tt(cp(E.Yp1), 2)
    R['deg optima_func_tt_beam k=1'] = lambda: tn.optima_func_tt_beam(cp(E.A1), 1, ret_all=True)
    R['deg maxvol square'] = lambda: tn.maxvol(np.eye(3) + 0.1)
    R['deg get_many m=1'] = lambda: tn.get_many(cp(E.Yp1), np.array([[1, 0, 2]]))
    R['deg anova_func'] = lambda: tn.anova_func(cp(E.X[:3]), cp(E.yx[:3]), 2)
    R['deg ind maps'] = lambda: [tn.ind_to_poi(np.array([[0, 0]]), -1., 1., [1, 1]), tn.poi_to_ind(np.array([[0.3]]), 0., 1., 4)]
    return R


POISON_VALUES = [2 ** 62 + 12345, -7, 1e300, -3.25]


def poison(val, light=False):
    """fill the allocator's free lists with blocks that hold `val`: arrays of every size class up to 128 KB are created and
    freed just before the call, so np.empty storage that is read before it is written shows up as a different result"""
    keep = []
    dt = np.int64 if isinstance(val, int) else np.float64
    if light:      # the small size classes only (NumPy's block cache and malloc's thread cache are 16-byte granular up to 1 KB)
        sizes = [(nb, 2) for nb in range(16, 2049, 16)] + [(nb, 1) for nb in range(4096, 1 << 16, 4096)]
    else:
        sizes = [(nb, 3) for nb in list(range(8, 4097, 8)) + list(range(4096, 1 << 17, 512))]
    for nb, rep in sizes:
        for _ in range(rep):
            keep.append(np.full(nb // 8, val, dtype=dt))
    del keep


def churn(E, k):
    """blocks of other library calls that churn the allocator"""
    tn = E.tn
    try:
        with contextlib.redirect_stdout(io.StringIO()):
            if k % 3 == 0:
                tn.truncate(tn.add(cp(E.Y), cp(E.Y2)), 1e-3)
                tn.full(cp(E.Y))
            elif k % 3 == 1:
                tn.cross(E.f_cross, cp(E.Y0), m=60)
                tn.sample_lhs([5, 4, 3], 9, seed=k)
            else:
                tn.als(cp(E.I), cp(E.y), cp(E.Y0), nswp=1)
                tn.optima_tt(cp(E.Y))
    except Exception:
        pass


# ----------------------------------------------------------------------------------------------------------------------
# systematic option coverage: every optional parameter of every exported function, one at a time
# ----------------------------------------------------------------------------------------------------------------------

def sys_base(E):
    """exported function -> (positional arguments, base keyword arguments); each call builds (copies of) its inputs"""
    tn = E.tn
    Y, Y2, Yp, A, Y0, I, y, X, yx, M, G, n = E.Y, E.Y2, E.Yp, E.A, E.Y0, E.I, E.y, E.X, E.yx, E.M, E.G, E.n
    Iy = lambda: cp(E.Iy)
    B = {}
    B['ANOVA'] = lambda: ([cp(I), cp(y)], dict(seed=7))
    B['ANOVA_func'] = lambda: ([cp(X), cp(yx), 4], {})
    B['accuracy'] = lambda: ([cp(Y), cp(Y2)], {})
    B['accuracy_on_data'] = lambda: ([cp(Y0), cp(I), cp(y)], {})
    B['add'] = lambda: ([cp(Y), cp(Y2)], {})
    B['add_many'] = lambda: ([[cp(Y), cp(Y2), cp(Y)]], {})
    B['als'] = lambda: ([cp(I), cp(y), cp(Y0)], dict(nswp=2))
    B['als_func'] = lambda: ([cp(X), cp(yx), cp(Y0)], dict(nswp=2))
    B['anova'] = lambda: ([cp(I), cp(y)], dict(seed=7))
    B['anova_func'] = lambda: ([cp(X), cp(yx), 4], {})
    B['cache_to_data'] = lambda: ([], {})
    B['cdf_confidence'] = lambda: ([cp(yx)], {})
    B['cdf_getter'] = lambda: ([cp(yx)], {})
    B['const'] = lambda: ([cp(n)], {})
    B['copy'] = lambda: ([cp(Y)], {})
    B['core_dot'] = lambda: ([cp(G), cp(E.R33)], {})
    B['core_dot_inv'] = lambda: ([cp(G), cp(E.R33)], {})
    B['core_dot_maxvol'] = lambda: ([cp(G), cp(E.R33)], {})
    B['core_qr_rand'] = lambda: ([cp(G), 2], dict(seed=7))
    B['core_qtt_to_tt'] = lambda: ([[cp(E.Yq[1]), cp(E.Yq[2])]], {})
    B['core_stab'] = lambda: ([cp(G)], {})
    B['core_tt_to_qtt'] = lambda: ([cp(G)], {})
    B['cross'] = lambda: ([E.f_cross, cp(Y0)], dict(m=300, e=1e-10))
    B['cross_act'] = lambda: ([E.f_act, [cp(Y), cp(Y2)], cp(E.Y1)], dict(nswp=2, r=4, dr=2, seed=7))
    B['delta'] = lambda: ([cp(n), [1, 2, 0]], {})
    B['erank'] = lambda: ([cp(Y)], {})
    B['full'] = lambda: ([cp(Y)], {})
    B['full_matrix'] = lambda: ([cp(E.Ymat)], {})
    B['func_basis'] = lambda: ([cp(X[:5])], {})
    B['func_diff_matrix'] = lambda: ([-1., 1., 5], {})
    B['func_diff_matrix_apply'] = lambda: ([cp(A), tn.func_diff_matrix(-1., 1., 4)], {})
    B['func_get'] = lambda: ([cp(X[:5]), tn.func_int(cp(Y0)), -1., 1.], {})
    B['func_get_full'] = lambda: ([cp(X[:5]), tn.full(tn.func_int(cp(Y0))), -1., 1.], {})
    B['func_gets'] = lambda: ([cp(A)], {})
    B['func_gets_full'] = lambda: ([tn.full(cp(A)), -1., 1.], {})
    B['func_int'] = lambda: ([cp(Y0)], {})
    B['func_int_full'] = lambda: ([tn.full(cp(Y0))], {})
    B['func_int_general'] = lambda: ([cp(E.Y0), cp(E.Xg), lambda x: tn.func_basis(np.asarray(x, dtype=float), 3)], {})
    B['func_sum'] = lambda: ([cp(A), -1., 1.], {})
    B['func_sum_full'] = lambda: ([tn.full(cp(A)), -1., 1.], {})
    B['get'] = lambda: ([cp(Y), [1, 2, 0]], {})
    B['get_and_grad'] = lambda: ([cp(Y), [1, 2, 0]], {})
    B['get_many'] = lambda: ([cp(Y), Iy()[:10]], {})
    B['grid_flat'] = lambda: ([[2, 3]], {})
    B['grid_prep_opt'] = lambda: ([2.], dict(d=3))
    B['grid_prep_opts'] = lambda: ([], dict(a=-1., b=1., n=4, d=3))
    B['ind_qtt_to_tt'] = lambda: ([cp(E.Iq), 2], {})
    B['ind_to_poi'] = lambda: ([cp(I[:5]), -1., 1., 4], {})
    B['ind_tt_to_qtt'] = lambda: ([cp(I[:5]), 4], {})
    B['interface'] = lambda: ([cp(Y)], {})
    B['matrix_skeleton'] = lambda: ([cp(M)], {})
    B['matrix_svd'] = lambda: ([cp(M)], {})
    B['maxvol'] = lambda: ([cp(M)], {})
    B['maxvol_rect'] = lambda: ([cp(M)], {})
    B['mean'] = lambda: ([cp(Y)], {})
    B['mul'] = lambda: ([cp(Y), cp(Y2)], {})
    B['mul_scalar'] = lambda: ([cp(Y), cp(Y2)], {})
    B['norm'] = lambda: ([cp(Y)], {})
    B['optima_func_tt_beam'] = lambda: ([cp(Y0)], {})
    B['optima_qtt'] = lambda: ([cp(E.Yq)], {})
    B['optima_tt'] = lambda: ([cp(Y)], {})
    B['optima_tt_beam'] = lambda: ([cp(Y)], {})
    B['optima_tt_max'] = lambda: ([cp(Y)], {})
    B['orthogonalize'] = lambda: ([cp(Y)], {})
    B['orthogonalize_left'] = lambda: ([cp(Y), 1], {})
    B['orthogonalize_right'] = lambda: ([cp(Y), 1], {})
    B['outer'] = lambda: ([cp(Y), cp(Y2)], {})
    B['outer_many'] = lambda: ([[cp(Y), cp(Y2)]], {})
    B['poi_scale'] = lambda: ([cp(X[:5]), -1., 1.], {})
    B['poi_to_ind'] = lambda: ([cp(X[:5]), -1., 1., 4], {})
    B['poly'] = lambda: ([cp(n)], {})
    B['qtt_to_tt'] = lambda: ([cp(E.Yq), 2], {})
    B['rand'] = lambda: ([cp(n), 2], dict(seed=7))
    B['rand_custom'] = lambda: ([cp(n), 2, lambda sz: np.random.default_rng(5).normal(size=sz)], {})
    B['rand_norm'] = lambda: ([cp(n), 2], dict(seed=7))
    B['rand_stab'] = lambda: ([cp(n), 2], dict(seed=7))
    B['ranks'] = lambda: ([cp(Y)], {})
    B['sample'] = lambda: ([cp(Yp)], dict(seed=7))
    B['sample_func'] = lambda: ([cp(A)], dict(seed=7))
    B['sample_lhs'] = lambda: ([cp(n), 7], dict(seed=7))
    B['sample_rand'] = lambda: ([cp(n), 7], dict(seed=7))
    B['sample_rand_poi'] = lambda: ([[-1., 0., 2.], [1., 3., 5.], 5], dict(seed=7))
    B['sample_square'] = lambda: ([cp(Yp)], dict(seed=7))
    B['sample_tt'] = lambda: ([cp(n)], dict(seed=7))
    B['shape'] = lambda: ([cp(Y)], {})
    B['show'] = lambda: ([cp(Y)], {})
    B['size'] = lambda: ([cp(Y)], {})
    B['sub'] = lambda: ([cp(Y), cp(Y2)], {})
    B['sum'] = lambda: ([cp(Y)], {})
    B['svd'] = lambda: ([tn.full(cp(Y))], {})
    B['svd_matrix'] = lambda: ([cp(E.M44)], {})
    B['vector_delta'] = lambda: ([3, 5], {})
    B['matrix_delta'] = lambda: ([3, 5, 2], {})
    B['svd_incomplete'] = lambda: ((lambda smp: [smp[0], Env.f_cross(smp[0]), smp[1], smp[2]])(tn.sample_tt([4, 4, 4], 2, seed=3)), {})
    B['optima_tt_maxvol'] = lambda: ([cp(Y)], {})
    B['truncate'] = lambda: ([tn.add(cp(Y), cp(Y2))], {})
    B['tt_to_qtt'] = lambda: ([cp(A)], {})
    return B


def sys_alternatives(E, fname, pname, default):
    """-> list of keyword dictionaries that set parameter `pname` of `fname` to a non-default documented value (possibly
    together with the parameters it needs), or None if no value is known"""
    tn = E.tn
    I, y, X, yx = E.I, E.y, E.X, E.yx

    def cb(Y, info, opts):
        return None
    spec = {
        ('als', 'I_vld'): [dict(I_vld=cp(I[:20]), y_vld=cp(y[:20]))], ('als', 'y_vld'): [dict(I_vld=cp(I[20:40]), y_vld=cp(y[20:40]))],
        ('als', 'e_vld'): [dict(I_vld=cp(I[:20]), y_vld=cp(y[:20]), e_vld=1e-1)],
        ('als', 'r'): [dict(r=3)], ('als', 'r_add'): [dict(r=3, r_add=1)], ('als', 'e_adap'): [dict(r=3, e_adap=1e-1)],
        ('als', 'w'): [dict(w=np.linspace(0.5, 1.5, len(y)))], ('als', 'cb'): [dict(cb=cb)],
        ('als', 'swap_tol'): [dict(r=3, allow_swap=True, swap_tol=1, I_vld=cp(I[:20]), y_vld=cp(y[:20]))],
        ('als', 'allow_swap'): [dict(r=3, allow_swap=True, I_vld=cp(I[:20]), y_vld=cp(y[:20]))],
        ('als', 'update_sol'): [dict(update_sol=True)], ('als', 'lamb'): [dict(lamb=1e-1), dict(lamb=None), dict(lamb=None, w=np.linspace(0.5, 1.5, len(y)))], ('als', 'info'): [dict(info={})],
        ('als_func', 'X_vld'): [dict(X_vld=cp(X[:20]), y_vld=cp(yx[:20]))], ('als_func', 'y_vld'): [dict(X_vld=cp(X[20:40]), y_vld=cp(yx[20:40]))],
        ('als_func', 'e_vld'): [dict(X_vld=cp(X[:20]), y_vld=cp(yx[:20]), e_vld=1e-1)],
        ('als_func', 'fh'): [dict(fh=lambda x: tn.func_basis(x, 4))], ('als_func', 'n_max'): [dict(n_max=6)],
        ('als_func', 'update_sol'): [dict(update_sol=True)], ('als_func', 'a'): [dict(a=-2.)], ('als_func', 'b'): [dict(b=2.)],
        ('als_func', 'lamb'): [dict(lamb=1e-1), dict(lamb=None)], ('als_func', 'thr_pow'): [dict(n_max=6, thr_pow=1e-2)], ('als_func', 'info'): [dict(info={})],
        ('cross', 'm'): [dict(m=100)], ('cross', 'e'): [dict(e=1e-3)], ('cross', 'nswp'): [dict(nswp=1)],
        ('cross', 'I_vld'): [dict(I_vld=cp(E.I44[:20]), y_vld=Env.f_cross(E.I44[:20]))], ('cross', 'y_vld'): [dict(I_vld=cp(E.I44[20:40]), y_vld=Env.f_cross(E.I44[20:40]))],
        ('cross', 'e_vld'): [dict(I_vld=cp(E.I44[:20]), y_vld=Env.f_cross(E.I44[:20]), e_vld=1e-2)],
        ('cross', 'cb'): [dict(cb=cb)], ('cross', 'cache'): [dict(cache={})], ('cross', 'info'): [dict(info={})],
        ('cross', 'm_cache_scale'): [dict(cache={}, m_cache_scale=1)], ('cross', 'dr_min'): [dict(dr_min=2, dr_max=2)], ('cross', 'dr_max'): [dict(dr_max=2)],
        ('cross', 'func'): [dict(func=lambda f, Ig, Ir, Ic, info, cache: sys.modules['teneva.cross']._func(f, Ig, Ir, Ic, info, cache))],
        ('cross_act', 'e'): [dict(e=1e-2)], ('cross_act', 'nswp'): [dict(nswp=1)], ('cross_act', 'r'): [dict(r=2)], ('cross_act', 'dr'): [dict(dr=1)],
        ('cross_act', 'dr2'): [dict(dr2=1)],
        ('const', 'I_zero'): [dict(I_zero=[[0, 0, 0], [1, 2, 1]])], ('const', 'i_non_zero'): [dict(I_zero=[[0, 0, 0]], i_non_zero=[1, 1, 1])],
        ('accuracy_on_data', 'e_trunc'): [dict(e_trunc=1e-2)], ('add_many', 'trunc_freq'): [dict(trunc_freq=1)],
        ('core_dot', 'ltr'): [dict(ltr=False, _args=lambda: [cp(E.G), cp(E.R22)])], ('core_dot_inv', 'ltr'): [dict(ltr=False, _args=lambda: [cp(E.G), cp(E.R22)])],
        ('core_dot_maxvol', 'ltr'): [dict(ltr=False, _args=lambda: [cp(E.G), cp(E.R22)])], ('core_dot_maxvol', 'ind'): [dict(ind=[0, 1])],
        ('matrix_skeleton', 'hermitian'): [dict(hermitian=True, _args=lambda: [E.M.T @ E.M])],
        ('grid_prep_opt', 'd'): [dict(d=2)], ('grid_prep_opt', 'kind'): [dict(kind=int)], ('grid_prep_opt', 'reps'): [dict(reps=2)],
        ('grid_prep_opts', 'a'): [dict(a=-2.)], ('grid_prep_opts', 'b'): [dict(b=2.)], ('grid_prep_opts', 'n'): [dict(n=5)],
        ('grid_prep_opts', 'd'): [dict(d=2)], ('grid_prep_opts', 'reps'): [dict(reps=2)],
        ('cache_to_data', 'cache'): [dict(_args=lambda: [{(0, 1, 2): 1.5, (3, 0, 1): -2.}])],
        ('cross', 'tau'): [dict(tau=1.5, dr_max=2)], ('cross', 'tau0'): [dict(tau0=1.3)], ('cross', 'k0'): [dict(k0=2)],
        ('vector_delta', 'v'): [dict(v=-2.5)], ('matrix_delta', 'v'): [dict(v=-2.5)],
        ('svd_incomplete', 'e'): [dict(e=1e-2)], ('svd_incomplete', 'r'): [dict(r=1)],
        ('optima_tt_maxvol', 'k'): [dict(k=3)], ('optima_tt_maxvol', 'how'): [dict(how='l2r'), dict(how='r2l'), dict(how='both')],
        ('optima_tt_maxvol', 'use'): None,
        ('core_stab', 'p0'): [dict(p0=3)], ('core_stab', 'thr'): [dict(thr=1e100)],
        ('func_basis', 'ones_func'): [dict(ones_func=lambda sh: np.ones(sh))], ('func_basis', 'm'): [dict(m=4)],
        ('func_get', 'a'): None, ('func_get', 'b'): None, ('func_get', 'funcs'): [dict(funcs=lambda x: tn.func_basis(x, 4))],
        ('func_get', 'skip_out'): [dict(skip_out=True)], ('func_get', 'z'): [dict(z=-7.)], ('func_get_full', 'z'): [dict(z=-7., skip_out=True)],
        ('func_gets', 'm'): [dict(m=6)], ('func_gets_full', 'm'): [dict(m=6)],
        ('interface', 'P'): [dict(P=[np.ones(4) / 4, np.ones(5) / 5, np.ones(3) / 3])], ('interface', 'i'): [dict(i=[1, 2, 0])],
        ('interface', 'norm'): [dict(norm='natural'), dict(norm=None)], ('mean', 'P'): [dict(P=[np.ones(4) / 4, np.ones(5) / 5, np.ones(3) / 3])],
        ('matrix_skeleton', 'give_to'): [dict(give_to='l'), dict(give_to='r')], ('matrix_skeleton', 'r'): [dict(r=2)], ('matrix_skeleton', 'e'): [dict(e=1e-1)],
        ('matrix_svd', 'r'): [dict(r=2)], ('matrix_svd', 'e'): [dict(e=1e-1)],
        ('maxvol', 'e'): [dict(e=1.5)], ('maxvol', 'k'): [dict(k=1)],
        ('maxvol_rect', 'dr_max'): [dict(dr_max=2)], ('maxvol_rect', 'dr_min'): [dict(dr_min=1)], ('maxvol_rect', 'e'): [dict(e=1.01, dr_max=2)],
        ('maxvol_rect', 'e0'): [dict(e0=1.5)], ('maxvol_rect', 'k0'): [dict(k0=1)],
        ('optima_func_tt_beam', 'k'): [dict(k=3)], ('optima_func_tt_beam', 'k_loc'): [dict(k=4, k_loc=2)],
        ('optima_tt_beam', 'p'): None, ('optima_tt_beam', 'k'): [dict(k=3)], ('optima_tt', 'k'): [dict(k=3)], ('optima_tt_max', 'k'): [dict(k=3)],
        ('optima_qtt', 'k'): [dict(k=2)], ('optima_qtt', 'e'): [dict(e=1e-2)], ('optima_qtt', 'r'): [dict(r=1)],
        ('orthogonalize', 'k'): [dict(k=1), dict(k=0)],
        ('poly', 'shift'): [dict(shift=0.5)], ('poly', 'power'): [dict(power=3)], ('poly', 'scale'): [dict(scale=2.)],
        ('sample', 'm'): [dict(m=5)], ('sample', 'unsert'): [dict(unsert=1e-2)],
        ('sample_square', 'm'): [dict(m=5)], ('sample_square', 'm_fact'): [dict(m=5, m_fact=2)], ('sample_square', 'max_rep'): [dict(m=40, max_rep=3)],
        ('sample_square', 'float_cf'): [dict(m=5, float_cf=2)], ('sample_square', 'unique'): [dict(m=5, unique=False)],
        ('sample_tt', 'r'): [dict(r=2)],
        ('ANOVA', 'fpath'): None, ('anova', 'fpath'): None, ('ANOVA', 'order'): [dict(order=2)], ('anova', 'order'): [dict(order=2, r=3)],
        ('anova', 'r'): [dict(r=3)], ('anova', 'noise'): [dict(noise=1e-3)], ('anova_func', 'lamb'): [dict(lamb=1e-2)], ('anova_func', 'e'): [dict(e=1e-2)],
        ('ANOVA_func', 'lamb'): [dict(lamb=1e-2)],
        ('truncate', 'e'): [dict(e=1e-1)], ('truncate', 'r'): [dict(r=2)], ('svd', 'e'): [dict(e=1e-1)], ('svd', 'r'): [dict(r=2)],
        ('svd_matrix', 'e'): [dict(e=1e-1)], ('svd_matrix', 'r'): [dict(r=2)], ('tt_to_qtt', 'e'): [dict(e=1e-2)], ('tt_to_qtt', 'r'): [dict(r=2)],
        ('core_tt_to_qtt', 'e'): [dict(e=1e-2)], ('core_tt_to_qtt', 'r'): [dict(r=1)], ('add_many', 'e'): [dict(e=1e-1)], ('add_many', 'r'): [dict(r=2)],
        ('cdf_confidence', 'alpha'): [dict(alpha=0.2)], ('delta', 'v'): [dict(v=-2.5)], ('const', 'v'): [dict(v=-2.5)],
        ('rand', 'a'): [dict(a=-3.)], ('rand', 'b'): [dict(b=3.)], ('rand_norm', 'm'): [dict(m=2.)], ('rand_norm', 's'): [dict(s=0.25)],
        ('rand_stab', 'noise'): [dict(noise=1e-3)],
        ('get', '_to_item'): [dict(_to_item=False)], ('get_many', '_to_item'): [dict(_to_item=False)],
        ('func_diff_matrix', 'm'): [dict(m=2)], ('func_int_general', 'rcond'): [dict(rcond=1e-2)],
    }
    if pname == 'seed':
        return []                                  # the seed has its own streams
    if (fname, pname) in spec:
        return spec[(fname, pname)]
    if isinstance(default, (bool, np.bool_)):
        return [{pname: not default}]
    if pname == 'kind' and default in ('uni', 'cheb'):
        if fname.startswith('func_'):
            return [{pname: 'sin'}]
        return [{pname: 'cheb' if default == 'uni' else 'uni'}]
    if pname == 'order' and default == 'F':
        return [{pname: 'C'}]
    if pname == 'nswp':
        return [{pname: 3}]
    if pname == 'e' and isinstance(default, float):
        return [{pname: 1e-2}]
    if pname == 'log':
        return [{pname: True}]
    if pname == 'a' and isinstance(default, float):
        return [{pname: default - 1.}]
    if pname == 'b' and isinstance(default, float):
        return [{pname: default + 1.}]
    return None


def sys_extra_bases(E):
    """further base calls: vector-valued grid options and index / point arguments in LIST form (their ndarray forms of the exact
    dtype the function converts to, and their single-item forms, are derived automatically)"""
    X3 = [[-0.3, 0.7, 0.1], [0.95, -0.9, 0.49], [0., 0., 0.], [-1.2, 1.3, 0.5]]
    I3 = [[0, 1, 2], [3, 4, 1], [2, 0, 0]]
    a3, b3, n3 = [-1., -2., -1.], [1., 3., 1.], [4, 5, 6]
    L = {
        'poi_to_ind': [(lambda: [cp(X3), list(a3), list(b3), list(n3)], {}), (lambda: [cp(X3), list(a3), list(b3), list(n3)], dict(kind='cheb'))],
        'ind_to_poi': [(lambda: [cp(I3), list(a3), list(b3), list(n3)], {}), (lambda: [cp(I3), list(a3), list(b3), list(n3)], dict(kind='cheb'))],
        'poi_scale': [(lambda: [cp(X3), list(a3), list(b3)], {}), (lambda: [cp(X3), list(a3), list(b3)], dict(kind='cheb'))],
        'grid_prep_opt': [(lambda: [list(n3)], dict(kind=int)), (lambda: [list(a3)], {}), (lambda: [list(n3)], dict(kind=int, reps=2))],
        'grid_prep_opts': [(lambda: [list(a3), list(b3), list(n3)], {}), (lambda: [list(a3), list(b3), list(n3)], dict(reps=2))],
        'grid_flat': [(lambda: [list(n3)], {})],
        'ind_tt_to_qtt': [(lambda: [[[0, 1, 3], [2, 3, 1]], 4], {})],
        'ind_qtt_to_tt': [(lambda: [[[0, 1, 1, 0], [1, 1, 0, 0]], 2], {})],
        'get': [(lambda: [cp(E.Y), [1, 2, 0]], {})], 'get_many': [(lambda: [cp(E.Y), [[1, 2, 0], [3, 4, 2]]], {})],
        'get_and_grad': [(lambda: [cp(E.Y), [1, 2, 0]], {})],
        'delta': [(lambda: [list(E.n), [1, 2, 0]], {})], 'const': [(lambda: [list(E.n)], dict(I_zero=[[0, 0, 0], [1, 2, 1]], i_non_zero=[1, 1, 1]))],
        'poly': [(lambda: [list(E.n)], dict(shift=[0.5, 0., -0.5]))],
        'sample_rand_poi': [(lambda: [list(a3), list(b3), 5], dict(seed=7))],
        'func_get': [(lambda: [cp(X3), E.tn.func_int(cp(E.Y0)), list(a3), list(b3)], {})],
        'func_gets': [(lambda: [cp(E.A)], dict(m=[5, 6, 4]))],
        'func_sum': [(lambda: [cp(E.A), list(a3), list(b3)], {})],
        'interface': [(lambda: [cp(E.Y)], dict(i=[1, 2, 0])), (lambda: [cp(E.Y)], dict(P=[[.25] * 4, [.2] * 5, [1 / 3] * 3]))],
        'mean': [(lambda: [cp(E.Y)], dict(P=[[.25] * 4, [.2] * 5, [1 / 3] * 3]))],
        'rand': [(lambda: [list(E.n), [1, 2, 3, 1]], dict(seed=7))], 'sample_lhs': [(lambda: [list(E.n), 7], dict(seed=7))],
        'sample_rand': [(lambda: [list(E.n), 7], dict(seed=7))], 'sample_tt': [(lambda: [list(E.n)], dict(r=2, seed=7))],
        'accuracy_on_data': [(lambda: [cp(E.Y0), E.I.tolist(), E.y.tolist()], {})],
        'als': [(lambda: [E.I.tolist(), E.y.tolist(), cp(E.Y0)], dict(nswp=2))],
        'als_func': [(lambda: [E.X.tolist(), E.yx.tolist(), cp(E.Y0)], dict(nswp=2)), (lambda: [E.X.tolist(), E.yx.tolist(), cp(E.Y0)], dict(nswp=2, update_sol=True))],
        'anova': [(lambda: [E.I.tolist(), E.y.tolist()], dict(seed=7))], 'anova_func': [(lambda: [E.X.tolist(), E.yx.tolist(), 4], {})],
        'maxvol': [(lambda: [E.M.tolist()], {})], 'matrix_skeleton': [(lambda: [E.M.tolist()], {})],
        'optima_tt_beam': [(lambda: [cp(E.Y)], dict(k=3))],
    }
    return L


def exact_arrays(x, depth=0):
    """lists / tuples of numbers -> ndarray of the exact dtype the library converts to (int64 for integers, float64 for
    floats); lists of arrays (TT-tensors) and everything else unchanged"""
    if isinstance(x, (list, tuple)) and x and depth < 3:
        flat = np.asarray(x, dtype=object).ravel().tolist() if all(not isinstance(y, np.ndarray) for y in x) else None
        if flat is not None and flat and all(isinstance(y, (int, float, np.integer, np.floating)) and not isinstance(y, bool) for y in flat):
            try:
                return np.array(x, dtype=np.int64 if all(isinstance(y, (int, np.integer)) for y in flat) else np.float64)
            except ValueError:
                return x
    return x


def systematic_recipes(E):
    """-> (dict label -> thunk, list of (function, parameter, reason) that could not be exercised).  One recipe per exported
    function with all options at their defaults and one per (function, optional parameter, non-default value)."""
    import inspect
    tn = E.tn
    B = sys_base(E)
    R, missing = {}, []
    documented_inplace = {('orthogonalize_left', 'inplace'), ('orthogonalize_right', 'inplace')}
    known_outside = {('optima_tt_beam', 'to_orth'): 'undocumented parameter; to_orth=False orthogonalises the argument in place (known, DESIGN 6 C09): '
                                                    'outside the documented interface'}
    names = [nm for nm in sorted(dir(tn)) if not nm.startswith('_') and callable(getattr(tn, nm)) and
             getattr(getattr(tn, nm), '__module__', '').startswith('teneva')]
    for nm in names:
        f = getattr(tn, nm)
        try:
            sig = inspect.signature(f)
        except (TypeError, ValueError):
            missing.append((nm, '*', 'no signature'))
            continue
        opt = [(p.name, p.default) for p in sig.parameters.values() if p.default is not inspect.Parameter.empty]
        if nm not in B:
            missing += [(nm, pn, 'no base recipe for this function') for pn, _ in opt if pn != 'seed'] or [(nm, '-', 'no base recipe for this function')]
            continue

        def mk(nm=nm, kw=None):
            def th():
                a, k = B[nm]()
                k = dict(k)
                k.update({x: (v if callable(v) else cp(v)) for x, v in (kw or {}).items() if x != '_args'})
                if kw and '_args' in kw:
                    a = kw['_args']()
                r = getattr(E.tn, nm)(*a, **k)
                for key in ('info', 'cache'):
                    if kw and key in kw:               # a dictionary supplied by the caller is an output too
                        kk = k[key]
                        r = [r, {x: v for x, v in kk.items() if x != 't'} if key == 'info' else len(kk)]
                        kw[key].clear()
                return r
            return th
        R[f'{nm}()'] = mk()
        try:
            given = set(sig.bind_partial(*B[nm]()[0]).arguments)
        except TypeError:
            given = set()
        for pn, dflt in opt:
            if pn == 'seed':
                continue
            if (nm, pn) in known_outside:
                missing.append((nm, pn, known_outside[(nm, pn)]))
                continue
            alts = sys_alternatives(E, nm, pn, dflt)
            if alts is None and pn in given:
                continue                                   # supplied positionally by the base recipe
            if alts is None:
                missing.append((nm, pn, 'no non-default value known to the harness'))
                continue
            for kw in alts:
                lab = f'{nm}({", ".join(f"{k}={short(v, 24) if not callable(v) else "<callable>"}" for k, v in kw.items() if k != "_args")}{" [other positional arguments]" if "_args" in kw else ""})'
                if (nm, pn) in documented_inplace:
                    lab += ' [documented in-place]'
                R[lab] = mk(kw=kw)
                R[lab].param = (nm, pn)
    # argument FORMS of the base calls: lists as given, ndarrays of the exact dtype (built ONCE, so that the shared-arguments
    # stream hands the very same array objects to every call), single item / single point forms of both
    single = {'poi_to_ind', 'ind_to_poi', 'poi_scale', 'ind_tt_to_qtt', 'ind_qtt_to_tt', 'get_many', 'func_get'}
    store = E.__dict__.setdefault('_form_store', {})
    for nm, lst in sys_extra_bases(E).items():
        if not hasattr(tn, nm):
            continue
        for j, (mk_args, kw) in enumerate(lst):
            variants = [('lists', lambda a: a, lambda k: k), ('exact-dtype ndarrays', lambda a: [exact_arrays(x) for x in a],
                                                             lambda k: {x: exact_arrays(v) for x, v in k.items()})]
            for vname, fa, fk in variants:
                for one in ([False, True] if nm in single else [False]):
                    key = (nm, j, vname, one)
                    if key not in store:
                        a = fa(mk_args())
                        if one:
                            pos = 1 if nm in ('get_many',) else 0
                            a = list(a)
                            a[pos] = a[pos][0]
                        store[key] = (a, fk(dict(kw)))

                    def th(key=key, nm=nm):
                        a, k = store[key]
                        return getattr(E.tn, nm)(*[x if callable(x) else cp(x) for x in a], **{x: cp(v) for x, v in k.items()})
                    kws = ', '.join(f'{x}={short(v, 20)}' for x, v in kw.items())
                    R[f'{nm}[form {j}: {vname}{", single item" if one else ""}{"; " + kws if kws else ""}]'] = th
    return R, missing


def all_thunks(E, seeds, degenerate=True):
    """(key, thunk, finding_key) for every recipe: seeded with integer seeds, unseeded, flagged, degenerate"""
    out = []
    S = [seeded_recipes(E)] + ([degenerate_seeded_recipes(E)] if degenerate else [])
    for R in S:
        for name, lst in R.items():
            if name == '_rand':
                continue
            for label, call in lst:
                for sd in seeds:
                    out.append(((name, label, sd), (lambda c=call, sd=sd: c(sd))))
    U = [unseeded_recipes(E), flag_recipes(E)] + ([degenerate_unseeded_recipes(E)] if degenerate else [])
    for R in U:
        for name, call in R.items():
            out.append(((name, '', None), call))
    SR_, missing = systematic_recipes(E)
    _STATE['sys_missing'] = missing
    for name, call in SR_.items():
        out.append(((name, 'option coverage', None), call))
    return out


def finding_key_of(name):
    return None


def poison_probe(E, seeds, fails, stats, only=None, sample=None):
    """every recipe under differently poisoned allocators (after a block of other library calls): bitwise equal results"""
    for j, (key, th) in enumerate(all_thunks(E, seeds)):
        if only and key[0] not in only and 'poison' not in only:
            continue
        light = key[1] == 'option coverage'
        if light and sample and j % sample[0] != sample[1]:
            continue
        ref = None
        for i, val in enumerate(POISON_VALUES[:1] + (POISON_VALUES[:2] if light else POISON_VALUES)):
            if not light or i == 1:
                churn(E, i + j)
            np.random.seed(3)
            poison(val, light)
            r, _ = run_call(th)
            stats['evals'] += 1
            stats['keys'].append(('poison',) + key + (i,))
            if ref is None:
                ref = r
            elif r != ref and i == 1:
                # same poison value, different result: this is dependence on earlier calls, not on freed memory
                f = dict(what=f'{key[0]}: same arguments{" and integer seed" if key[2] is not None else ""}, but the second call '
                              f'(after a block of other library calls) differs from the first (the result depends on earlier calls)',
                         input=dict(recipe=['poison', key[0], key[1]], seed=key[2], mode='call-history'), got=short(r), expected=short(ref))
                if finding_key_of(key[0]):
                    f['finding_key'] = finding_key_of(key[0])
                fails.append(f)
                break
            elif r != ref:
                f = dict(what=f'{key[0]}: same arguments{" and integer seed" if key[2] is not None else ""}, different results '
                              f'when freed memory holds different values (storage from np.empty is read before it is written: the '
                              f'result depends on allocator history)',
                         input=dict(recipe=['poison', key[0], key[1]], seed=key[2], poison=[repr(POISON_VALUES[0]), repr(val)],
                                    mode='allocator-poison'), got=short(r), expected=short(ref))
                if finding_key_of(key[0]):
                    f['finding_key'] = finding_key_of(key[0])
                fails.append(f)
                break


def raising_block(E):
    """calls that raise (some after they have started to fill the default dictionaries / drawn from a generator): an
    exception must not leave anything behind that a later call can see"""
    tn = E.tn
    cnt = [0]

    def f_boom(I):
        cnt[0] += 1
        if cnt[0] >= 3:
            raise RuntimeError('target function failed')
        return Env.f_cross(I)

    def cb_boom(Y, info, opts):
        raise KeyError('callback failed')
    return [lambda: tn.cross(E.f_cross, cp(E.Y0)),                                   # ValueError: no m / e / nswp
            lambda: tn.cross(f_boom, cp(E.Y0), m=500, e=1e-10),                       # raises in the middle, default info half filled
            lambda: tn.cross(E.f_cross, cp(E.Y0), nswp=2, cb=cb_boom),
            lambda: tn.als(cp(E.I), cp(E.y)[:-3], cp(E.Y0), nswp=1),                  # shape mismatch
            lambda: tn.als(cp(E.I), cp(E.y), cp(E.Y0), nswp=1, r=2, cb=cb_boom),
            lambda: tn.als_func(cp(E.X), cp(E.yx)[:-2], cp(E.Y0), nswp=1),
            lambda: tn.sample_lhs([4, 5, 3], 2, seed=4),                               # m < k: choice(.., negative) raises
            lambda: tn.sample_square(cp(E.Yp), 200, True, 3, 1, 0),                # gives up after max_rep
            lambda: tn.sample(cp(E.Yp), 3, seed='abc'),                                # invalid seed type
            lambda: tn.rand([4, 5, 3], [1, 2, 1], seed=1),                             # wrong number of ranks
            lambda: tn.optima_func_tt_beam([np.ones((1, 3, 2)), np.ones((3, 3, 1))], 3, ret_all=True),
            lambda: tn.anova(cp(E.I), cp(E.y)[:5], 2, 1, seed=2),
            lambda: tn.cache_to_data({(0, 'a'): 1.}),
            lambda: tn.truncate(cp(E.Y)[:2] + [np.ones((5, 3, 1))], 1e-3)]


def history_probe(rng_seed, seeds, fails, stats, only=None):
    """fresh interpreter state / first / second / after-calls-on-other-tensors: teneva is imported afresh (new default
    objects), every recipe is called (A: first call, in order), then again in reverse order (B: second call, after everything
    else), then after the same recipes on OTHER inputs (C), then on a second fresh import in reverse order (D: first call
    with other predecessors).  All four must be bitwise equal."""
    res = {}
    for phase in ('A', 'D'):
        np.random.seed(17)
        pyrandom.seed(17)
        tn = C.import_teneva()
        E = Env(tn, C.Rng(rng_seed))
        th = all_thunks(E, seeds, degenerate=False)
        if only and 'history' not in only:
            th = [(k, t) for k, t in th if k[0] in only]
        th2 = [(k, t) for k, t in all_thunks(Env(tn, C.Rng(rng_seed + 1)), seeds, degenerate=False)
               if not only or 'history' in only or k[0] in only]
        if phase == 'D':
            # other data FIRST in a fresh state: the reference for "f(x1), then f(x2)" of the first import
            for key, t in th2:
                res.setdefault(('other data',) + key, []).append(('D2', run_call(t)[0]))
        order = th if phase == 'A' else th[::-1]
        for key, t in order:
            res.setdefault(key, []).append((phase, run_call(t)[0]))
        if phase == 'A':
            for key, t in th[::-1]:
                res[key].append(('B', run_call(t)[0]))
            for key, t in th2:
                res.setdefault(('other data',) + key, []).append(('A2', run_call(t)[0]))
            for key, t in th:
                res[key].append(('C', run_call(t)[0]))
            # E: after a block of calls that raise;  R: after importlib.reload of the package and of its modules
            nraised = 0
            for t in raising_block(E):
                r = run_call(t)[0]
                nraised += isinstance(r, tuple) and bool(r) and r[0] == 'exc'
            stats['raising_calls'] = nraised
            for key, t in th:
                res[key].append(('E', run_call(t)[0]))
            import importlib
            for mn in sorted(m for m in sys.modules if m.startswith('teneva.')):
                importlib.reload(sys.modules[mn])
            importlib.reload(tn)
            for key, t in th:
                res[key].append(('R', run_call(t)[0]))
    names = dict(A='first call after a fresh import', B='second call', C='call after calls on other inputs',
                 E='call after a block of calls that raised exceptions', R='call after importlib.reload of teneva and its modules',
                 D='call in a second fresh import, after calls on other inputs and other predecessors',
                 A2='call on the second data set after the same function was called on the first data set',
                 D2='first call after a fresh import on the second data set')
    for key, lst in res.items():
        stats['evals'] += len(lst)
        stats['keys'].append(('history',) + key)
        for ph, r in lst[1:]:
            if r != lst[0][1]:
                kn = key[1] if key[0] == 'other data' else key[0]
                f = dict(what=f'{kn}: same arguments, but the {names[ph]} '
                              f'differs from the {names[lst[0][0]]} (the result depends on earlier calls)',
                         input=dict(recipe=['history'] + [str(x) for x in key[:-1]], seed=key[-1], phases=[lst[0][0], ph], mode='call-history'),
                         got=short(r), expected=short(lst[0][1]))
                fails.append(f)
                break
    C.import_teneva()


def histories(E):
    """call histories that disturb every piece of state the property names; each is a list of thunks"""
    tn = E.tn

    def quiet(th):
        def run():
            try:
                with contextlib.redirect_stdout(io.StringIO()):
                    th()
            except Exception:
                pass
        return run
    H = [
        [],
        [quiet(lambda: np.random.rand(7)), quiet(lambda: tn.cross(E.f_cross, cp(E.Y0), m=120)),
         quiet(lambda: tn.cache_to_data())],
        [quiet(lambda: tn.als(cp(E.I), cp(E.y), cp(E.Y0), nswp=1)), quiet(lambda: pyrandom.random()),
         quiet(lambda: tn.rand_custom([3, 3], 2)), quiet(lambda: tn.sample_lhs([3, 4], 5))],
        [quiet(lambda: tn.als(cp(E.I), cp(E.y), cp(E.Y0), nswp=1, r=2, allow_swap=True)),
         quiet(lambda: tn.cross(E.f_cross, cp(E.Y0), nswp=1, cache={})), quiet(lambda: tn.als_func(cp(E.X), cp(E.yx), cp(E.Y0), nswp=1)),
         quiet(lambda: tn.sample_square(cp(E.Yp), 4, seed=11)), quiet(lambda: np.random.standard_normal(3))],
        [quiet(lambda: tn.cross(E.f_cross, cp(E.Y0), m=40, e=1e-2)), quiet(lambda: tn.anova(cp(E.I), cp(E.y), 2, 1)),
         quiet(lambda: tn.cross(E.f_cross, cp(E.Y1), nswp=0)), quiet(lambda: np.random.shuffle(np.arange(5)))],
    ]
    return H


def world(E, k, j, hist):
    np.random.seed(k)
    pyrandom.seed(k + 1)
    if j:
        np.random.rand(j)
    for th in hist:
        th()


def run_call(th):
    """-> (canonical result, global state changed?)"""
    g0 = gstate()
    try:
        with contextlib.redirect_stdout(io.StringIO()), warnings.catch_warnings():
            warnings.simplefilter('ignore')
            r = th()
    except Exception as e:  # an exception is a result too (it must be the same one)
        r = e
    g1 = gstate()
    return canon(r), g0 != g1


WORLDS = [(0, 0, 0), (1, 3, 1), (12345, 1, 2), (7, 11, 3), (99, 0, 4), (2 ** 31 - 1, 5, 1)]


def default_dicts(tn):
    """the default dictionary objects of the API: (function name, parameter) -> object"""
    out = {}
    for nm in dir(tn):
        f = getattr(tn, nm)
        if not callable(f) or not hasattr(f, '__code__'):
            continue
        try:
            import inspect
            for p in inspect.signature(f).parameters.values():
                if isinstance(p.default, (dict, list, set)):
                    out[(nm, p.name)] = p.default
        except (TypeError, ValueError):
            pass
    return out


def dict_image(dd):
    return {f'{k[0]}.{k[1]}': canon({kk: vv for kk, vv in v.items() if kk != 't'} if isinstance(v, dict) else list(v))
            for k, v in dd.items()}


def check_seeded(E, name, label, call, seeds, nworlds, predict, fails, stats):
    H = histories(E)
    for s in seeds:
        # (a) integer seed: identical under every world, global state untouched
        ref = None
        for (k, j, h) in WORLDS[:nworlds]:
            world(E, k, j, H[h])
            r, touched = run_call(lambda: call(s))
            stats['evals'] += 1
            stats['keys'].append((name, label, s, k, j, h))
            if touched and not predict.get('global', False):
                fails.append(dict(what=f'{name}: the global generator state changed during a call with an integer seed',
                                  input=dict(recipe=[name, label], seed=s, world=[k, j, h], mode='int'),
                                  got='global state advanced', expected='untouched (skeleton has no GlobalDraw)'))
            if ref is None:
                ref = (r, (k, j, h))
            elif r != ref[0]:
                fails.append(dict(what=f'{name}: same integer seed and arguments, different results under different global '
                                       f'generator states / call histories',
                                  input=dict(recipe=[name, label], seed=s, world=[k, j, h], world_ref=list(ref[1]), mode='int'),
                                  got=short(r), expected=short(ref[0])))
                break
        # (b) generator object: draws from that object only; a second generator in the same state reproduces the result
        g1 = np.random.default_rng(s + 1000)
        st0 = copy.deepcopy(g1.bit_generator.state)
        world(E, 3, 2, H[1])
        r1, t1 = run_call(lambda: call(g1))
        st1 = copy.deepcopy(g1.bit_generator.state)
        g2 = np.random.default_rng()
        g2.bit_generator.state = copy.deepcopy(st0)
        world(E, 8, 5, H[3])
        r2, t2 = run_call(lambda: call(g2))
        st2 = copy.deepcopy(g2.bit_generator.state)
        stats['evals'] += 2
        inp = dict(recipe=[name, label], seed=s + 1000, mode='generator')
        if name == '_rand':
            r1, r2 = ('same object', call(g1) is g1), ('same object', True)
        if t1 or t2:
            fails.append(dict(what=f'{name}: the global generator state changed during a call with a generator object',
                              input=inp, got='global state advanced', expected='untouched'))
        if r1 != r2 or st1 != st2:
            fails.append(dict(what=f'{name}: two generator objects in the same state give different results / end states '
                                   f'(something else than the object was drawn from)', input=inp, got=short(r2), expected=short(r1)))
        if predict.get('draws', True) and st1 == st0:
            fails.append(dict(what=f'{name}: the generator object passed as seed was not advanced although the skeleton '
                                   f'predicts draws from it', input=inp, got='state unchanged', expected='advanced'))
        if not predict.get('draws', True) and st1 != st0:
            fails.append(dict(what=f'{name}: the generator object advanced although the skeleton has no draw from it',
                              input=inp, got='advanced', expected='unchanged'))


class SubGen(np.random.Generator):
    """a Generator subclass (a documented form of `seed`: 'a numpy Generator class instance')"""
    pass


class RecGen(np.random.Generator):
    """a Generator that records every draw made through ANY instance of the class (copies included) in a class-level log"""
    LOG = []
    DEPTH = [0]

    def __reduce__(self):            # copy.copy / copy.deepcopy / pickle give a RecGen again, so the draws of a copy are recorded too
        bg = self.bit_generator
        st = copy.deepcopy(bg.state)
        return (_recgen_rebuild, (type(bg), st))

    def __deepcopy__(self, memo):
        f, a = self.__reduce__()
        return f(*a)

    def __copy__(self):
        f, a = self.__reduce__()
        return f(*a)


def _recgen_rebuild(bgcls, st):
    bg = bgcls()
    bg.state = st
    return RecGen(bg)


class _Dummy:
    pass


def _mk_rec(mname):
    def w(self, *a, **k):
        if RecGen.DEPTH[0]:                                            # choice / permutation call other methods of self internally
            return getattr(np.random.Generator, mname)(self, *a, **k)
        a0 = copy.deepcopy(a)
        k0 = copy.deepcopy(k)
        RecGen.DEPTH[0] += 1
        try:
            r = getattr(np.random.Generator, mname)(self, *a, **k)
        finally:
            RecGen.DEPTH[0] -= 1
        out = r if r is not None else (a[0] if a else None)          # shuffle works in place
        RecGen.LOG.append((id(self), mname, a0, k0, canon(out)))
        return r
    w.__name__ = mname
    return w


for _m in sorted(SK.GEN_ONLY_METHODS - {'bit_generator', 'spawn', 'randn', 'rand', 'randint', 'random_sample'}):
    if hasattr(np.random.Generator, _m):
        setattr(RecGen, _m, _mk_rec(_m))


def check_generator_only(E, name, label, call, k, fails, stats):
    """'given a generator object it draws from that object only': every draw is made through the object that was passed (not
    through a copy of it), and replaying the recorded draws one after another on ONE twin generator in the same initial state
    gives the recorded values and the same final bit_generator.state"""
    g = RecGen(np.random.PCG64(k))
    st0 = copy.deepcopy(g.bit_generator.state)
    RecGen.LOG = []
    np.random.seed(1)
    r, touched = run_call(lambda: call(g))
    log, RecGen.LOG = RecGen.LOG, []
    stats['evals'] += 1
    stats['keys'].append(('generator-only', name, label))
    inp = dict(recipe=['genonly', name, label], seed=k, mode='generator-object-only')
    foreign = [e for e in log if e[0] != id(g)]
    if foreign:
        fails.append(dict(what=f'{name}: {len(foreign)} of {len(log)} draws were made through another generator object (a copy of the '
                               f'one passed as seed): the copy replays numbers and the object itself is not advanced by them',
                          input=inp, got=[e[1] for e in foreign][:6], expected='every draw through the object passed as seed'))
        return
    twin = np.random.Generator(np.random.PCG64(k))
    twin.bit_generator.state = copy.deepcopy(st0)
    for j, (_, mname, a, kw, res) in enumerate(log):
        a = copy.deepcopy(a)
        rr = getattr(twin, mname)(*a, **copy.deepcopy(kw))
        out = rr if rr is not None else (a[0] if a else None)
        if canon(out) != res:
            fails.append(dict(what=f'{name}: draw number {j + 1} ({mname}) does not have the value that drawing all blocks one after '
                                   f'another from ONE generator gives', input=inp, got=short(res), expected=short(canon(out))))
            return
    if repr(twin.bit_generator.state) != repr(g.bit_generator.state):
        fails.append(dict(what=f'{name}: after the call the state of the generator object is not the state reached by drawing the '
                               f'{len(log)} recorded blocks one after another from one generator', input=inp,
                          got=short(repr(g.bit_generator.state), 200), expected=short(repr(twin.bit_generator.state), 200)))


def large_recipes(E):
    """LARGE sizes with a small explicit cap (mode sizes 12..16, TT-ranks 11..30, r = 1 / 2): size-dependent algorithm switches"""
    tn = E.tn
    L = E.large
    R = {}
    R['matrix_svd r=1'] = lambda: tn.matrix_svd(cp(L['M']), 1e-10, 1)
    R['matrix_svd r=2 wide'] = lambda: tn.matrix_svd(cp(L['M']).T, 1e-10, 2)
    R['matrix_skeleton r=1'] = lambda: tn.matrix_skeleton(cp(L['M']), 1e-10, 1)
    R['matrix_skeleton r=2 rel'] = lambda: tn.matrix_skeleton(cp(L['M']), 1e-3, 2, rel=True, give_to='r')
    R['truncate r=1'] = lambda: tn.truncate(cp(L['Y']), 1e-10, 1)
    R['truncate r=2 is_eigh=False'] = lambda: tn.truncate(cp(L['Y']), 1e-10, 2, is_eigh=False)
    R['truncate e only'] = lambda: tn.truncate(cp(L['Y']), 1e-2)
    R['svd r=1'] = lambda: tn.svd(cp(L['T']), 1e-10, 1)
    R['svd_matrix r=1'] = lambda: tn.svd_matrix(cp(L['M16']), 1e-10, 1)
    R['add+truncate r=1'] = lambda: tn.truncate(tn.add(cp(L['Y']), cp(L['Y'])), 1e-10, 1)
    R['orthogonalize'] = lambda: tn.orthogonalize(cp(L['Y']), 1)
    R['tt_to_qtt r=1'] = lambda: tn.tt_to_qtt(cp(L['Y16']), 1e-10, 1)
    R['optima_tt k=2'] = lambda: tn.optima_tt(cp(L['Y']), 2)
    R['optima_qtt r=1'] = lambda: tn.optima_qtt(cp(L['Y16']), 2, 1e-10, 1)
    R['maxvol / maxvol_rect'] = lambda: [tn.maxvol(cp(L['M'])), tn.maxvol_rect(cp(L['M']), 1.1, 1, 2)]
    R['cross dr_max=2'] = lambda: tn.cross(lambda I: np.sin(np.asarray(I, dtype=float).sum(axis=1) * 0.3), cp(L['Y1']), m=3000, dr_max=2, nswp=3)
    R['als r=1 adaptive'] = lambda: tn.als(cp(L['I']), cp(L['y']), cp(L['Y1']), nswp=2, r=1)
    R['als'] = lambda: tn.als(cp(L['I']), cp(L['y']), cp(L['Y2']), nswp=2)
    R['anova order=2 r=1'] = lambda: tn.anova(cp(L['I']), cp(L['y']), 1, 2, seed=3)
    R['anova order=2 r=2'] = lambda: tn.anova(cp(L['I']), cp(L['y']), 2, 2, seed=3)
    R['anova order=1'] = lambda: tn.anova(cp(L['I']), cp(L['y']), 2, 1, seed=3)
    R['func_int / func_get'] = lambda: tn.func_get(np.linspace(-1, 1, 12).reshape(4, 3), tn.func_int(cp(L['Y'])), -1., 1.)
    R['optima_func_tt_beam'] = lambda: tn.optima_func_tt_beam(cp(L['Y']), 3, ret_all=True)
    R['sample_square'] = lambda: tn.sample_square([np.abs(G) + 0.01 for G in L['Y']], 20, seed=4)
    R['accuracy / norm'] = lambda: [tn.accuracy(cp(L['Y']), cp(L['Y2'])), tn.norm(cp(L['Y']))]
    return R


def check_large(E, fails, stats, only=None):
    for name, th in large_recipes(E).items():
        if only and 'large' not in only and name not in only:
            continue
        ref = None
        for i in range(3):
            np.random.seed(20 + i)
            r = run_call(th)[0]
            stats['evals'] += 1
            stats['keys'].append(('large', name, i))
            if ref is None:
                ref = r
            elif r != ref:
                fails.append(dict(what=f'{name} (large sizes, small explicit cap): call number {i + 1} with the same arguments is not bit-identical '
                                       f'to the first call', input=dict(recipe=['large', name], call=i + 1, mode='large-size-regime'),
                                  got=short(r), expected=short(ref)))
                break


@contextlib.contextmanager
def positional_form(tn, names):
    """every exported function in `names` is replaced by a wrapper that re-binds the call: all positional-or-keyword
    arguments (the seed too) are passed POSITIONALLY and every omitted optional argument is passed EXPLICITLY with its
    default value.  Calls made inside teneva through the package attribute go through the wrapper too."""
    import functools
    import inspect
    saved = {}
    for nm in names:
        f = getattr(tn, nm, None)
        if f is None or inspect.isclass(f) or not callable(f):
            continue
        try:
            sig = inspect.signature(f)
        except (TypeError, ValueError):
            continue

        def mk(f, sig):
            @functools.wraps(f)
            def w(*a, **kw):
                ba = sig.bind(*a, **kw)
                ba.apply_defaults()
                return f(*ba.args, **ba.kwargs)
            return w
        saved[nm] = f
        setattr(tn, nm, mk(f, sig))
    try:
        yield
    finally:
        for nm, f in saved.items():
            setattr(tn, nm, f)


def check_seed_forms(E, name, label, call, s, fails, stats, names, distinct=True):
    """the documented FORMS of the seed argument (int 0 / 1 / large, NumPy integers, Generator, Generator subclass, one
    object reused vs two objects in the same state, positional vs keyword, defaults passed explicitly)"""
    tn = E.tn
    H = histories(E)

    def run(seed, w=(4, 2, 1)):
        world(E, w[0], w[1], H[w[2]])
        r, touched = run_call(lambda: call(seed))
        stats['evals'] += 1
        return r, touched

    def fail(what, form, got, exp):
        fails.append(dict(what=f'{name}: {what}', input=dict(recipe=[name, label], seed=s, form=form, mode='seed-form'),
                          got=short(got), expected=short(exp)))
    ref, _ = run(int(s))
    is_exc = isinstance(ref, tuple) and ref and ref[0] == 'exc'
    # NumPy integers / bool / 0-d array: the same answer as the Python int, or an exception -- never another answer silently
    forms = [('np.int64', np.int64(s), ref), ('np.int32', np.int32(s % (2 ** 31)), ref if s < 2 ** 31 else None),
             ('np.uint8', np.uint8(s % 256), ref if s < 256 else None), ('0-d int array', np.array(s), ref)]
    for fn_, v, exp in ([] if name == '_rand' else forms):   # _rand is the private helper: its handling of these forms shows in its callers
        if exp is None:
            exp = run(int(v))[0]
        r, touched = run(v, (9, 4, 2))
        raised = isinstance(r, tuple) and r and r[0] == 'exc'
        if touched:
            fail(f'the global generator state changed during a call with seed={fn_}({int(v)})', fn_, 'global state advanced', 'untouched')
        if r != exp and not raised:
            fail(f'seed given as {fn_}({int(v)}) silently gives another result than the Python int {int(v)}', fn_, r, exp)
        if raised and r != exp:
            stats.setdefault('numpy_int_seed_raises', set()).add((name, fn_, r[1]))
    # bool is an int: True is seed 1
    if name != '_rand':
        rt, _ = run(True, (2, 0, 0))
        r1, _ = run(1, (3, 1, 4))
        if rt != r1:
            fail('seed=True gives another result than seed=1', 'bool', rt, r1)
        if distinct:
            # 0, 1 and a large seed are three different seeds (0 must not be taken for "no seed" or for 1)
            r0a, _ = run(0, (5, 3, 2))
            r0b, _ = run(0, (6, 0, 3))
            big = 2 ** 40 + 3 + s
            rba, _ = run(big, (5, 3, 2))
            rbb, _ = run(big, (7, 2, 0))
            if r0a != r0b:
                fail('seed=0: different results in different worlds (0 is taken for "no seed"?)', 'int 0', r0b, r0a)
            if rba != rbb:
                fail(f'seed={big}: different results in different worlds', 'large int', rbb, rba)
            if len({r0a, r1, rba}) < 3 and not (isinstance(r0a, tuple) and r0a[0] == 'exc'):
                fail(f'the seeds 0, 1 and {big} do not give three different results (a seed test treats some integers alike)',
                     'int 0 / 1 / large', [short(r0a, 60), short(r1, 60), short(rba, 60)], 'three different results')
        # Generator subclass == Generator in the same state; one object reused twice == two objects in the same state, each reused
        k = s + 77
        ga, gb, gc = np.random.default_rng(k), np.random.default_rng(k), SubGen(np.random.PCG64(k))
        out = {}
        for tag, g, w in (('a', ga, (1, 1, 1)), ('b', gb, (8, 0, 3)), ('c', gc, (2, 5, 4))):
            world(E, *w[:2], H[w[2]])
            r1_, t1 = run_call(lambda: call(g))
            np.random.rand(3)
            r2_, t2 = run_call(lambda: call(g))
            stats['evals'] += 2
            out[tag] = (r1_, r2_, repr(g.bit_generator.state))
            if t1 or t2:
                fail('the global generator state changed during a call with a generator object', 'generator ' + tag, 'advanced', 'untouched')
        if out['a'] != out['b']:
            fail('one generator object used for two calls in a row and a second object in the same state give different results / end '
                 'states', 'generator reused', out['b'][:2], out['a'][:2])
        if out['a'] != out['c']:
            fail('an instance of a Generator subclass in the same state gives different results / end state than a Generator',
                 'Generator subclass', out['c'][:2], out['a'][:2])
    # positional seed, defaults passed explicitly
    if name not in ('ANOVA', '_rand'):
        with positional_form(tn, names):
            rp, _ = run(int(s), (3, 3, 3))
        if rp != ref:
            fail('all arguments passed positionally (the seed too) and omitted optional arguments passed explicitly with their default '
                 'values: another result than the keyword / omitted form', 'positional + explicit defaults', rp, ref)


def check_unseeded(E, name, call, nworlds, fails, stats, predict_global=False):
    H = histories(E)
    ref = None
    for (k, j, h) in WORLDS[:nworlds]:
        world(E, k, j, H[h])
        r, touched = run_call(call)
        stats['evals'] += 1
        stats['keys'].append((name, k, j, h))
        if touched != predict_global:
            fails.append(dict(what=f'{name}: global generator state {"changed" if touched else "did not change"}; the skeleton '
                                   f'predicts {"a GlobalDraw" if predict_global else "no draw"}',
                              input=dict(recipe=[name], world=[k, j, h], mode='unseeded'), got=touched, expected=predict_global))
        if predict_global:
            continue
        if ref is None:
            ref = (r, (k, j, h))
        elif r != ref[0]:
            fails.append(dict(what=f'{name}: a function without randomness returns different results on repeated calls '
                                   f'(different global state / history)',
                              input=dict(recipe=[name], world=[k, j, h], world_ref=list(ref[1]), mode='unseeded'),
                              got=short(r), expected=short(ref[0])))
            break


def check_dicts(E, fails, stats):
    """optional dictionaries left at their defaults carry nothing over: what a callback sees in info, and the results, are the
    same after any history as on a cleared default dictionary; cache_to_data() sees an empty cache whatever happened before"""
    tn = E.tn
    H = histories(E)
    dd = default_dicts(tn)

    def with_cb(fname):
        seen = []

        def cb(Y, info, opts):
            seen.append({k: v for k, v in info.items() if k != 't'})
        if fname == 'cross':
            r = tn.cross(E.f_cross, cp(E.Y0), e=1e-12, nswp=2, cb=cb)
            dflt = dd.get(('cross', 'info'))
        elif fname == 'als':
            r = tn.als(cp(E.I), cp(E.y), cp(E.Y0), nswp=2, cb=cb)
            dflt = dd.get(('als', 'info'))
        else:
            r = tn.als_func(cp(E.X), cp(E.yx), cp(E.Y0), nswp=2)
            dflt = dd.get(('als_func', 'info'))
        after = {k: v for k, v in (dflt or {}).items() if k != 't'}
        return canon([r, seen, after])
    for fname in ['cross', 'als', 'als_func']:
        ref = None
        for h in range(len(H) + 1):
            if h == len(H):
                for v in dd.values():
                    v.clear()       # as after a fresh import
                hist = []
            else:
                hist = H[h]
            world(E, 5, 1, hist)
            try:
                r = with_cb(fname)
            except Exception as e:
                r = canon(e)
            stats['evals'] += 1
            if ref is None:
                ref = (r, h)
            elif r != ref[0]:
                fails.append(dict(what=f'{fname}: with info left at its default, the result / the info seen by the callback / '
                                       f'the final info depends on earlier calls (default dictionary carries state over)',
                                  input=dict(recipe=['dict', fname], history=h, history_ref=ref[1], mode='default-dict'),
                                  got=short(r, 400), expected=short(ref[0], 400)))
                break
    # (b) the same against ARBITRARY stale contents (what the Coq theorem quantifies over): every key of the universe of every
    #     default dictionary is set to a sentinel before the call; result, what the callback sees and the final contents
    #     must be those of a run on cleared dictionaries
    rep0 = _STATE.get('report') or {}
    uni0 = {tuple(l): list(ks) for l, ks in rep0.get('universe', [])}

    def pollute(val):
        for v in dd.values():
            v.clear()
        if val is None:
            return
        for (fn, p), v in dd.items():
            q = [u for u in uni0 if u[0].endswith('.' + fn) and u[1] == p]
            if q and isinstance(v, dict):
                for k in uni0[q[0]]:
                    if k != 't':
                        v[k] = val
    for fname in ['cross', 'als', 'als_func']:
        ref = None
        for val in [None, 12345, 'stale', True, -1.5, 0]:
            pollute(val)
            np.random.seed(5)
            try:
                r = with_cb(fname)
            except Exception as e:
                r = canon(e)
            stats['evals'] += 1
            if ref is None:
                ref = r
            elif r != ref:
                fails.append(dict(what=f'{fname}: with info left at its default, the result / the info seen by the callback / the '
                                       f'final info depends on stale contents of the default dictionary (every known key preset to {val!r})',
                                  input=dict(recipe=['dict', fname], pollution=repr(val), mode='default-dict-pollution'),
                                  got=short(r, 400), expected=short(ref, 400)))
                break
    pollute(None)
    for h in range(len(H)):
        world(E, 6, 2, H[h])
        r = canon(tn.cache_to_data())
        stats['evals'] += 1
        e = canon((np.array([], dtype=int), np.array([])))
        if r != e:
            fails.append(dict(what='cache_to_data(): the default cache is not empty after earlier calls',
                              input=dict(recipe=['dict', 'cache_to_data'], history=h, mode='default-dict'), got=short(r), expected=short(e)))
            break
    # no default dictionary may retain anything but the keys the skeleton says the library writes (universe)
    rep = _STATE.get('report') or {}
    uni = {tuple(l): set(ks) for l, ks in rep.get('universe', [])}
    for (fn, p), v in dd.items():
        keys = set(v.keys()) if isinstance(v, dict) else set(range(len(v)))
        q = [u for u in uni if u[0].endswith('.' + fn) and u[1] == p]
        stats['evals'] += 1
        if not q:
            fails.append(dict(what=f'{fn}({p}=<mutable default>) is not known to the skeleton', input=dict(recipe=['dict', fn, p])))
        elif isinstance(v, dict) and not keys <= uni[q[0]]:
            fails.append(dict(what=f'{fn}: default dictionary {p} holds keys the skeleton does not predict',
                              input=dict(recipe=['dict', fn, p], mode='universe'), got=sorted(map(str, keys)), expected=sorted(uni[q[0]])))


def import_probe(rng_seed, seeds, fails, stats, only=None):
    """Dependence on the global generator state AT IMPORT / DEF TIME (module-level draws, default values computed from
    numpy.random): teneva is re-imported under different global states; every recipe (integer seed, defaults everywhere)
    must give bitwise identical results whichever state the import saw."""
    ref = {}
    for K in (11, 2024):
        np.random.seed(K)
        pyrandom.seed(K)
        tn = C.import_teneva()
        E = Env(tn, C.Rng(rng_seed))
        calls = []
        for name, lst in seeded_recipes(E).items():
            for label, call in lst:
                for s in seeds:
                    calls.append(((name, label, s), (lambda c=call, s=s: c(s))))
        for name, call in unseeded_recipes(E).items():
            calls.append(((name, '', None), call))
        for key, th in calls:
            if only and key[0] not in only and 'import' not in only:
                continue
            np.random.seed(0)
            pyrandom.seed(0)
            r, _ = run_call(th)
            if key[0] == '_rand':
                continue
            stats['evals'] += 1
            if key not in ref:
                ref[key] = r
            elif r != ref[key]:
                fails.append(dict(what=f'{key[0]}: the result depends on the state the global generator had when teneva was imported '
                                       f'(a default value or module-level code draws from numpy.random / random)',
                                  input=dict(recipe=['import', key[0], key[1]], seed=key[2], import_states=[11, 2024], mode='import-time'),
                                  got=short(r), expected=short(ref[key])))
    C.import_teneva()


def exported_seeded_from_source():
    """names exported by teneva/__init__.py whose definition takes a parameter `seed` (classes: their __init__)"""
    out = []
    init = ast.parse(open(os.path.join(C.REPO, 'teneva', '__init__.py')).read())
    for st in init.body:
        if isinstance(st, ast.ImportFrom) and st.level == 1:
            mod = ast.parse(open(os.path.join(C.REPO, 'teneva', st.module + '.py')).read())
            defs = {n.name: n for n in mod.body if isinstance(n, (ast.FunctionDef, ast.ClassDef))}
            for a in st.names:
                d = defs.get(a.name)
                if isinstance(d, ast.ClassDef):
                    d = next((m for m in d.body if isinstance(m, ast.FunctionDef) and m.name == '__init__'), None)
                if d is not None and 'seed' in [x.arg for x in d.args.args + d.args.kwonlyargs]:
                    out.append(a.asname or a.name)
    return sorted(out)


def run_dynamic(tn, rng, deep, only=None):
    """-> (fails, stats).  only = list of recipe keys to restrict to (replay / hints)"""
    E = Env(tn, rng)
    fails, stats = [], dict(evals=0, seeded=0, unseeded=0, uncovered=[], keys=[])
    nworlds = 6 if deep else 4
    seeds = [rng.randrange(0, 2 ** 31) for _ in range(3 if deep else 1)] + [0]
    SR = seeded_recipes(E)
    names = exported_seeded_from_source()
    stats['seeded_exported'] = names
    stats['uncovered'] = [n for n in names if n not in SR]
    for name in names:
        if name not in SR or (only and name not in only):
            continue
        for label, call in SR[name]:
            stats['seeded'] += 1
            try:
                check_seeded(E, name, label, call, seeds, nworlds, dict(draws=(name != '_rand')), fails, stats)
                check_seed_forms(E, name, label, call, seeds[0] % 200, fails, stats, names)
            except Exception as e:
                traceback.print_exc()
                fails.append(dict(what=f'{name}: harness raised {e!r}', input=dict(recipe=[name, label])))
    for name, lst in degenerate_seeded_recipes(E).items():
        if only and name not in only:
            continue
        for label, call in lst:
            try:
                check_seed_forms(E, name, 'degenerate ' + label, call, 5, fails, stats, names, distinct=False)
            except Exception as e:
                traceback.print_exc()
                fails.append(dict(what=f'{name}: harness raised {e!r}', input=dict(recipe=[name, label])))
    UR = unseeded_recipes(E)
    for name, call in UR.items():
        if only and name not in only:
            continue
        stats['unseeded'] += 1
        try:
            check_unseeded(E, name, call, nworlds, fails, stats)
        except Exception as e:
            traceback.print_exc()
            fails.append(dict(what=f'{name}: harness raised {e!r}', input=dict(recipe=[name])))
    if not only or 'dict' in only:
        check_dicts(E, fails, stats)
    if not only or 'large' in only:
        try:
            check_large(E, fails, stats)
        except Exception as e:
            traceback.print_exc()
            fails.append(dict(what=f'large sizes: harness raised {e!r}', input=dict(recipe=['large'])))
    if not only or 'genonly' in only:
        for R_ in (seeded_recipes(E), degenerate_seeded_recipes(E)):
            for name, lst in R_.items():
                if name == '_rand':
                    continue
                for label, call in lst:
                    try:
                        check_generator_only(E, name, label, call, 900 + seeds[0] % 97, fails, stats)
                    except Exception as e:
                        traceback.print_exc()
                        fails.append(dict(what=f'{name}: generator-only check raised {e!r}', input=dict(recipe=['genonly', name, label])))
        # sample_tt in dimensions 3 and 4 (left and right blocks are drawn one after the other)
        for nn in ([4, 3, 5], [3, 4, 2, 3], [5, 1, 4]):
            for rr in (2, 3):
                check_generator_only(E, 'sample_tt', f'n={nn} r={rr}', lambda g_, nn=nn, rr=rr: tn.sample_tt(nn, rr, seed=g_),
                                     901 + rr, fails, stats)
    if not only or 'argform' in only:
        try:
            check_argforms(E, seeds[0] % 1000, fails, stats)
        except Exception as e:
            traceback.print_exc()
            fails.append(dict(what=f'argument forms: harness raised {e!r}', input=dict(recipe=['argform'])))
    if not only or 'shared' in only or 'mutate' in only:
        try:
            lay_seed = rng.randrange(2 ** 31)
            off = lay_seed % 3
            for li, lay in enumerate(('C', 'F', 'rank1')):
                EL = E if lay == 'C' else Env(tn, C.Rng(lay_seed), layout=lay)
                if not only or 'shared' in only:
                    # quick tier: all recipes on the C layout, a round-robin third on the other two layouts; deep: everything
                    check_shared_args(EL, seeds[-1:], fails, stats, sample=None if (deep or only or lay == 'C') else (3, (off + li) % 3))
                if (not only and lay == 'C') or (only and 'mutate' in only):
                    check_result_mutation(EL, seeds[-1:], fails, stats)
        except Exception as e:
            traceback.print_exc()
            fails.append(dict(what=f'shared arguments / result mutation: harness raised {e!r}', input=dict(recipe=['shared'])))
    if not only or 'history' in only:
        try:
            history_probe(rng.randrange(2 ** 31), seeds[-1:], fails, stats)
        except Exception as e:
            traceback.print_exc()
            fails.append(dict(what=f'history probe: harness raised {e!r}', input=dict(recipe=['history'])))
    if not only or 'poison' in only:
        try:
            poison_probe(E, seeds[-1:], fails, stats, sample=None if (deep or only) else (3, rng.randrange(3)))
        except Exception as e:
            traceback.print_exc()
            fails.append(dict(what=f'poison probe: harness raised {e!r}', input=dict(recipe=['poison'])))
    if not only or 'import' in only:
        try:
            import_probe(rng.randrange(2 ** 31), seeds[-1:], fails, stats, only=None)
        except Exception as e:
            traceback.print_exc()
            fails.append(dict(what=f'import probe: harness raised {e!r}', input=dict(recipe=['import'])))
    if not only or 'rand_custom' in only:
        # the named exemption, both directions: default f draws from the global stream, a supplied f does not
        check_unseeded(E, 'rand_custom(default f)', lambda: tn.rand_custom([3, 4], 2), nworlds, fails, stats, predict_global=True)
        g = np.random.default_rng(5)
        check_unseeded(E, 'rand_custom(f given)', lambda: tn.rand_custom([3, 4], 2, np.random.default_rng(5).normal), nworlds,
                       fails, stats)
    return fails, stats


def correspondence(R, ctx):
    tn = C.import_teneva()
    rep = _STATE.get('report') or pregen(R, ctx)
    hints = []
    # static side: what the skeleton predicts
    proof_ok = R.build_ok and all(o['ok'] for o in R.obligations)
    if not proof_ok:
        try:
            hints = [dict(input=h, static=True) for h in static_report()]
        except Exception as e:
            traceback.print_exc()
            hints = [dict(input=dict(function='<diagnostics failed>', detail=repr(e)), static=True)]
        _STATE['static_fail'] = hints
    fails, stats = run_dynamic(tn, ctx['rng'], deep=ctx['thorough'])
    _STATE['dyn_fails'] = fails
    for f in fails:
        R.add_distinct(('C10', json.dumps(f.get('input'), default=str)))
    R.add_distinct(('C10-static', len(rep['functions'])))
    R.corr.append(dict(
        name='dynamic effects vs skeleton prediction (global state untouched, generator advanced, bitwise equal results, '
             'default dictionaries)', cases=stats['evals'], mismatches=len(fails), comparison='bitwise / state snapshots',
        distribution=dict(seeded_recipes=stats['seeded'], unseeded_recipes=stats['unseeded'], worlds=WORLDS,
                          seeded_exported=stats['seeded_exported'], uncovered_seeded=stats['uncovered'],
                          functions_in_skeleton=len(rep['functions']), sites=len(rep['sites'])),
        first_mismatches=fails[:3]))
    R.samples.append(dict(stream='dynamic', seeded_exported=stats['seeded_exported'], uncovered=stats['uncovered']))
    for k in stats.get('keys', []):
        R.add_distinct(k)
    if stats.get('numpy_int_seed_raises'):
        ex = sorted(stats['numpy_int_seed_raises'])
        R.notes.append(f"NumPy-integer seeds raise instead of being used as integers ({len(ex)} recipe/form pairs, e.g. {ex[0]}): "
                       f"tolerated by the check (an exception is not a silently different answer), reported to the lead")
    if stats.get('argform_raises'):
        R.notes.append(f"argument forms that raise instead of giving the canonical answer (tolerated): {stats['argform_raises'][:12]}")
    miss = _STATE.get('sys_missing') or []
    R.notes.append(f"option coverage: every optional parameter of every exported function set to a non-default value, one at a time, in the "
                   f"history / shared-arguments / poison streams; (function, parameter) pairs NOT exercised ({len(miss)}): "
                   f"{[list(m) for m in miss]}")
    R.notes.append(f"calls that raised in the raising-calls block of the history probe: {stats.get('raising_calls')}")
    if stats['uncovered']:
        R.notes.append(f"seeded exported functions without a dynamic recipe (static proof still covers them): {stats['uncovered']}")
    return hints + [dict(input=f['input'], what=f['what']) for f in fails]


def search(R, ctx, deep, hints):
    tn = C.import_teneva()
    fails = list(_STATE.get('dyn_fails') or [])
    n = 0
    if deep and not fails:
        # the obligation or the correspondence broke: look harder (more worlds, more seeds) -- first at the flagged functions
        flagged = {h['input'].get('function', '').split('.')[-1] for h in hints if h.get('static')}
        flagged = {('ANOVA' if 'ANOVA' in f else f) for f in flagged} | {'dict', 'import', 'poison', 'history', 'argform', 'shared', 'mutate', 'large', 'genonly'}
        for only in ([sorted(flagged)] if flagged else []) + [None]:
            f2, st = run_dynamic(tn, ctx['rng'], deep=True, only=only)
            n += st['evals']
            fails += f2
            if fails:
                break
    for f in fails:
        if _STATE.get('static_fail'):
            f['static_report'] = [h['input'] for h in _STATE['static_fail']][:20]
    R.search.append(dict(name='bitwise determinism under global states / histories', evaluations=n, failures=len(fails), deep=deep))
    return fails[:10]


def extra_evidence(R):
    rep = _STATE.get('report') or {}
    return dict(translator_rules=SK.RULES, exemptions=[['tensors.rand_custom', 'f']], options_not_exercised=[list(m) for m in (_STATE.get('sys_missing') or [])],
                skeleton=dict(functions=len(rep.get('functions', [])), sites=len(rep.get('sites', [])),
                              flagged=rep.get('flagged', [])[:30], notes=rep.get('notes', []),
                              universe=rep.get('universe', []), seeded_exported=rep.get('seeded_exported', [])),
                static_failures=[h['input'] for h in _STATE.get('static_fail', [])][:30])


def replay(data):
    tn = C.import_teneva()
    p = data['payload']
    print(data['what'])
    inp = p.get('input') or {}
    rec = inp.get('recipe')
    if not rec:
        print('no concrete input recorded (static failure):', json.dumps(p, default=str)[:1500])
        return 1
    only = [rec[0]]
    for seed in (data.get('seed', 0), 20260926):
        fails, _ = run_dynamic(tn, C.Rng(seed), deep=True, only=only)
        if fails:
            print('replayed:', fails[0]['what'], fails[0].get('input'))
            return 1
    print('not reproduced')
    return 0
