"""C12 — Chebyshev interpolation is exact on polynomials (func.py, func_full.py)."""
import itertools
import math
from fractions import Fraction as Fr

import numpy as np
from harness import common as C

THEOREMS = 'Properties/C12.v'
CLAIM = dict(
    text=(
        'Coq theorems about the models Model/Func.v (func_basis, func_get, func_gets, func_int, func_int_general, func_sum, '
        'func_diff_matrix) and Model/FuncFull.v (the four dense routines); all unbounded in d, mode sizes n_k and TT-ranks '
        'unless said otherwise. '
        'FULL, at the reals (cos/sin oracles are cos(pi m/N), sin(pi m/N)): '
        '[C12_dct_orthogonal] DCT-I orthogonality for every N>=1 (sum with halved ends of cos(pi j a/N) cos(pi j b/N) is '
        '0 / N/2 / N), by product-to-sum and a telescoping sine sum; [C12_dst_orthogonal] the DST-I analogue. '
        '[C12_interp_exact] (TT) for every box a_k<b_k (symmetric or not), every n_k>=2, every coefficient tensor c (any '
        'TT-rank), if Y holds the values of p = sum_m c_m prod_k T_{m_k} (degree < n_k in x_k) on the Chebyshev grid of the box, '
        'then func_int succeeds and returns exactly c; func_get returns p(x) at every point of the box (any tolerance >= 0 in '
        'the skip test); func_gets returns the values of p on ANY new grid; func_gets on the same grid returns Y. '
        '[C12_interp_exact_full] the same for func_int_full / func_get_full / func_gets_full, any d>=1. '
        '[C12_interp_exact_hyp_sat, C12_interp_exact_nonvacuous] the hypotheses hold for the samples of every coefficient '
        'TT-tensor. [C12_exactness_class, C12_poly_cheb_span] every sum of products of one-variable polynomials of degree '
        '< n_k (monomial coefficients) is of the form sum_m c_m prod_k T_{m_k}, so the class covered is the whole exactness '
        'class of the property. [C12_resample_inverse_cheb] func_gets(func_int(Y)) on the same grid is Y for ARBITRARY data; '
        '[C12_resample_inverse_sin] the same for the sine kind (transform / re-sampling pair only). '
        '[C12_int_linear] the coefficient transform is linear. '
        '[C12_tt_eq_dense_get (any ring), _int, _gets, _sum] the TT and the dense routines agree on full(Y). '
        '[C12_in_box_not_skipped, C12_fill_value, C12_fill_value_R, C12_fill_value_full(_R)] points of the box are evaluated, '
        'points that leave it by more than the tolerance in one coordinate get z. '
        '[C12_skip_out_resolution, C12_fill_value_default_box_R] the optional arguments of func_get (a, b, skip_out left at None) '
        'are modelled (func_get_opt): an explicit skip_out is always honoured, without a flag points are skipped iff both bounds '
        'were given, defaults are the box [-1,1]^d; with the default box and skip_out=True outside points get z. '
        '[C12_sum_full_rejects] an asymmetric box makes func_sum_full return ValueError, [C12_sum_full_accepts_symmetric] '
        'every symmetric box is accepted; [C12_func_int_needs_two] n_k<2 is an error (scipy DCT-I). '
        '[C12_func_sum_spec] func_sum = prod (b_k-a_k)/2 * sum_m A[m] prod_k w_{m_k} (any ring, also the sine weights); '
        '[C12_cheb_weights, C12_cheb_weights_value] for EVERY k the weight w_k = 2/(1-k^2) (k even), 0 (k odd) equals '
        'P(1)-P(-1) for an antiderivative P of T_k on R (1-D Newton integral; via T_k\' = k U_{k-1}). '
        'FULL, any commutative ring: [C12_basis_cheb] the recurrence computes T_k ([C12_basis_cheb_cos] T_k(cos t) = cos kt at R); '
        '[C12_modewise_linear] a matrix applied to the mode axis of every core acts mode-wise on the tensor; '
        '[C12_func_get_poly, C12_func_gets_poly] func_get / func_gets evaluate sum_m A[m] prod_k T_{m_k}; '
        '[C12_func_get_custom_spec] with custom basis functions func_get evaluates sum_m A[m] prod_k h_{k,m_k}(x_k). '
        'GIVEN THE ORACLE CONTRACT of scipy.linalg.lstsq at the call (consistent system => right shape, zero residual): '
        '[C12_general_core_reproduces, C12_general_core_exact, C12_int_general_exact] func_int_general reproduces data in the '
        'span of the basis and, with full column rank, returns the coefficients (non-vacuity: C12_general_hyp_sat, '
        'C12_general_nonvacuous). '
        '[C12_sum_exact, C12_sum_full_exact, C12_iint_cpoly, C12_iint_unique] INTEGRATION, any d: func_sum (any box a_k<b_k) and '
        'func_sum_full (symmetric boxes) return the ITERATED integral over the box of the polynomial with coefficient tensor A '
        '(the function func_get evaluates in the box); the integral is defined in the theorem as the iterated one-variable Newton '
        'integral (F(b)-F(a) for an antiderivative F on R, innermost variables first) and is single-valued; no measure-theoretic '
        'Fubini is claimed ([C12_sum_exact_1d] exhibits the antiderivative for d=1). '
        '[C12_diff1_exact, C12_diff1_entries, C12_pval_deriv] DIFFERENTIATION, first derivative, every n>=2, every box, every m>=1: '
        'the first matrix func_diff_matrix returns, applied to the values at the nodes cos(pi j/N) of any polynomial of degree < n, '
        'gives 2/(b-a) p\'(x_r) at every node; the entries are (c_r/c_c)(-1)^(r+c)/(x_r-x_c) with negative-row-sum diagonal '
        '(proof: divided differences + DCT-I orthogonality against cos(N theta)). '
        '[C12_int_general_tt_exact] whole-TT custom basis, given the lstsq contract: samples Y of any function in the span of the '
        'basis (coefficient TT-tensor Cs, full-column-rank basis matrices) are fitted to Cs exactly and func_get with the user '
        'basis returns that function. '
        'PARTIAL: [C12_diff_matrix_exact_partial] derivative orders 2 and 3 (the code\'s recursion D_(i+1) = (i+1) Z (C diag(D_i) - D_i), '
        'diagonal = minus row sums) are proved exact ONLY for n in {2,3,4} (exact rational nodes, Qc; closed computation lifted by '
        'linearity; [C12_diff_matrix_scaling] box scaling for all n, all orders); orders >= 2 for n > 4 are validated numerically only. '
        'NOT PROVED: higher-order differentiation matrices for n > 4; '
        'floating-point rounding ("up to rounding" in the property).'),
    note=('The model is tied to /repo on every run: exact-node Qc stream (n_k in {2,3,4}, all eight routines + diff '
          'matrices + error classes), float stream with recorded numpy cos/sin tables (n_k <= 12, both kinds), '
          'func_int_general with the lstsq outputs replayed bit for bit and the lstsq contract validated on every recorded '
          'call.  Cross-cutting families (correspondence streams argument_forms, box_edges, histories, scales_shapes and the '
          'search checks forms / edges / history / scales): every documented argument form (int / np.int64 / float / float32 '
          'fill value, list / int / float32 / single points, int / float scalars, lists and arrays as bounds, int64 cores); '
          'points 1e-300 .. 1e-10 and one ulp outside every face, tiny and huge boxes; the same argument objects reused '
          'across 2-3 interleaved calls of every routine (result = result on fresh copies bit for bit, arguments '
          'byte-identical afterwards); values scaled by 2^+-200 .. 2^+-900 (must commute bit for bit), boxes +-2^+-300 and '
          '[2^30, 2^30+2^-20], n_k = 2 everywhere, d = 1, a single point, sine grid m = 1, basis with as many functions as '
          'points; option interactions (stream option_interactions, search options: every combination of explicit / omitted '
          'a, b, z and skip_out omitted / None / True / False for func_get, batch and single point; z, skip_out for func_get_full; '
          'm, kind for func_gets / func_gets_full; points inside, on the boundary, outside the effective box) and general boxes '
          '(stream general_boxes, search gboxes: decimal non-dyadic asymmetric bounds such as [0.1,0.7], negative, positive, '
          'symmetric, tiny / huge width and random double bounds for EVERY routine taking a, b incl. func_gets_full(A, a, b, m) '
          'and the same-grid inversion; points exactly on faces, corners and on the grid nodes teneva.ind_to_poi computes).  '
          'Conditioning family for func_int_general (stream general_conditioned_exact_oracle with the exact solution in the '
          'oracle slot, search general with cond): monomials up to degree 11 on 16 nodes, shifted boxes [1,4], [10,11], badly '
          'scaled columns, restricted to 1e2 <= cond(H) <= 2e5: scipy lstsq(cond=1e-6) drops singular values below '
          '1e-6*sigma_max, so the oracle contract (and the exactness clause) holds numerically only while cond(H) < 1e6 '
          '(measured on the unchanged tree: 8.5e5 -> error 9e-11, 5.5e7 -> wrong coefficients).  Kept OUT (not covered by the property text, quantifier n_k >= 2 / documented types): the Chebyshev grid '
          'with m = 1 (its only node is cos(pi*0/0) = NaN in ind_to_poi), NumPy integer scalars as bounds (TypeError in '
          'grid_prep_opt), list / 1-D points for func_get_full (ndarray [samples, d] documented), value scalings whose '
          'results are subnormal (2^-1000).  The search (independent of the model) checks every clause of the property '
          'against numpy.polynomial.chebyshev and Fraction integrals.'),
    technique='Coq proof (ring-generic multilinear algebra + real trigonometry) + model/implementation correspondence')
TRUSTED = ['Coq 8.16.1 kernel + vm_compute (case evaluation; closed Qc computation in C12_diff_matrix_exact_partial)',
           'hand-written models Model/Func.v, Model/FuncFull.v tied to func.py / func_full.py by the correspondence streams',
           'scipy.fftpack dct/dst type 1 and numpy fft of the even extension modelled by their defining cosine / sine sums',
           'numpy swapaxes/reshape(order=F) bookkeeping of func_int_full, einsum/tensordot contractions, grid.poi_scale / '
           'ind_to_poi(kind=cheb) modelled by their net effect (validated by the correspondence)',
           'oracle contract of scipy.linalg.lstsq (zero residual on consistent systems; validated on every recorded call)',
           'Coq Reals axioms (ClassicalDedekindReals, functional extensionality) for the statements at R',
           'IEEE rounding is not modelled in the theorems (float instance is executed only, agreement 1e-9 relative)']
ASSUMPTIONS = ['at R the trigonometric oracles are cs N m = cos(pi m/N), sn N m = sin(pi m/N), '
               'ss N i j = 2 sin((th_i+th_j)/2) sin((th_i-th_j)/2), th_k = k pi/N (func_diff_matrix)',
               'lstsq_ok k H M for the calls made (func_int_general only)']
TIME_LIMIT = {'quick': 900, 'thorough': 5400}

# ---------------------------------------------------------------------------------------------
# Coq literals / headers
# ---------------------------------------------------------------------------------------------
IMPORTS = ('From Coq Require Import List ZArith QArith Qcanon Floats.\n'
           'From TV Require Import Num.Ops Num.InstF Lin.Tab Lin.Mat TT.Chain Model.Func Model.FuncFull.\n'
           'Import ListNotations.\nOpen Scope nat_scope.\n')
HEADER_Q = IMPORTS + '''
Definition sq (q : Qc) : Z * Z := (Qnum (this q), Zpos (Qden (this q))).
Definition nz (n : nat) : Z * Z := (Z.of_nat n, 1%Z).
Definition er (e : err) : list (Z * Z) := [(err_code e, 0%Z)].
Definition tolq : Qc := Q2Qc (1 # 10^99).
Definition tol16q : Qc := Q2Qc (1 # 10^16).
Definition snq (N m : nat) : Qc := Q2Qc 0.
Definition lsq0 (k : nat) (H M : mat Qc) : mat Qc := M.
Definition show_core (G : core Qc) : list (Z * Z) :=
  nz (cr1 G) :: nz (cn G) :: nz (cr2 G) :: map sq (concat (map (@concat Qc) (dat G))).
Definition show_tt (Y : list (core Qc)) : list (Z * Z) := flat_map show_core Y.
Definition show_rtt (r : result (list (core Qc))) := match r with Ok Y => show_tt Y | Err e => er e end.
Definition show_l (l : list Qc) : list (Z * Z) := map sq l.
Definition show_rs (r : result Qc) := match r with Ok x => [sq x] | Err e => er e end.
Definition show_t (ns : list nat) (A : tens Qc) : list (Z * Z) := map sq (tflat OQc ns A).
Definition show_m (A : mat Qc) : list (Z * Z) := nz (mr A) :: nz (mc A) :: map sq (concat (md A)).
Definition f_int Y := show_rtt (func_int OQc cs_Qc snq Y Cheb).
Definition f_get X A a b z s := show_l (func_get OQc tolq X A a b z s).
Definition show_mq (A : mat Qc) : list (Z * Z) := nz (mr A) :: nz (mc A) :: map sq (concat (md A)).
Definition f_general_q Y Hs (sol : list (mat Qc)) :=
  show_tt (func_int_general OQc (fun k _ _ => nth k sol (mk_mat 0 0 [])) Y Hs).
Definition f_get_opt X A a b z s := show_l (func_get_opt OQc tolq X A a b z s).
Definition f_gets A ms := show_tt (func_gets_opt OQc cs_Qc snq A ms Cheb).
Definition f_sum A a b := show_l [func_sum OQc A a b Cheb].
Definition f_int_full ns Y := show_t ns (func_int_full OQc cs_Qc ns Y).
Definition f_get_full X ns A a b z s := show_l (func_get_full OQc tolq X ns A a b z s).
Definition f_gets_full ns A ms := show_t ms (func_gets_full OQc cs_Qc tolq ns A ms).
Definition f_sum_full ns A a b := show_rs (func_sum_full OQc tol16q ns A a b).
Definition f_diff a b n m := flat_map show_m (func_diff_matrix OQc ss_Qc a b n m).
'''


def qcore(G):
    r1, n, r2 = G.shape
    return f'(mk_core {r1} {n} {r2} {C.nested(G.tolist(), C.qlit)})'


def qtt(Y):
    return '[' + '; '.join(qcore(G) for G in Y) + ']'


def tens_lit(A, leaf):
    A = np.asarray(A, dtype=object) if not isinstance(A, np.ndarray) else A
    if A.ndim == 0:
        return f'(TS {leaf(A.item())})'
    return '(TN [' + '; '.join(tens_lit(A[i], leaf) for i in range(A.shape[0])) + '])'


def qlist(xs):
    return C.nested([Fr(x) for x in xs], C.qlit)


def qlist2(xs):
    return C.nested([[Fr(x) for x in r] for r in xs], C.qlit)


def flt(x):
    return f'({C.flit(x)})%float'


def fcore(G):
    r1, n, r2 = G.shape
    return f'(mk_core {r1} {n} {r2} {C.nested(G.tolist(), C.flit)}%float)'


def ftt(Y):
    return '[' + '; '.join(fcore(G) for G in Y) + ']'


def flist(xs):
    return C.nested([float(x) for x in xs], C.flit) + '%float'


def flist2(xs):
    return C.nested([[float(x) for x in r] for r in xs], C.flit) + '%float'


def fmat(M):
    M = np.asarray(M, dtype=float)
    return f'(mk_mat {M.shape[0]} {M.shape[1]} {C.nested(M.tolist(), C.flit)}%float)'


def header_f(nmax):
    """float instance: trig oracles are tables of the values NumPy computes"""
    cs_rows, sn_rows = [], []
    for N in range(0, nmax + 2):
        if N == 0:
            cs_rows.append([])
            sn_rows.append([])
            continue
        cs_rows.append([float(np.cos(np.pi * m / N)) for m in range(2 * (nmax + 1) ** 2 + 2)])
        sn_rows.append([float(np.sin(np.pi * m / N)) for m in range((nmax + 2) ** 2 + 2)])
    ss_rows = [[]]
    for N in range(1, nmax + 1):
        n = N + 1
        th = np.arange(n) * np.pi / (n - 1)
        Tt = np.tile(th / 2, (n, 1))
        ss_rows.append((2. * np.sin(Tt.T + Tt) * np.sin(Tt.T - Tt)).tolist())
    return IMPORTS + f'''
Definition ss_tab : list (list (list float)) := {C.nested(ss_rows, C.flit)}%float.
Definition cs_tab : list (list float) := {C.nested(cs_rows, C.flit)}%float.
Definition sn_tab : list (list float) := {C.nested(sn_rows, C.flit)}%float.
Definition csf (N m : nat) : float := nth m (nth N cs_tab []) 0%float.
Definition snf (N m : nat) : float := nth m (nth N sn_tab []) 0%float.
Definition ssf (N i j : nat) : float := nth j (nth i (nth N ss_tab []) []) 0%float.
Definition tolf : float := {flt(1e-99)}.
Definition tol16f : float := {flt(1e-16)}.
Definition nz (n : nat) : Z * Z := (Z.of_nat n, 0%Z).
Definition er (e : err) : list (Z * Z) := [(err_code e, 77777%Z)].
Definition show_core (G : core float) : list (Z * Z) :=
  nz (cr1 G) :: nz (cn G) :: nz (cr2 G) :: map F_show (concat (map (@concat float) (dat G))).
Definition show_tt (Y : list (core float)) : list (Z * Z) := flat_map show_core Y.
Definition show_rtt (r : result (list (core float))) := match r with Ok Y => show_tt Y | Err e => er e end.
Definition show_l (l : list float) : list (Z * Z) := map F_show l.
Definition show_rs (r : result float) := match r with Ok x => [F_show x] | Err e => er e end.
Definition show_t (ns : list nat) (A : tens float) : list (Z * Z) := map F_show (tflat OF ns A).
Definition show_m (A : mat float) : list (Z * Z) := nz (mr A) :: nz (mc A) :: map F_show (concat (md A)).
Definition f_int Y kind := show_rtt (func_int OF csf snf Y kind).
Definition f_get X A a b z s := show_l (func_get OF tolf X A a b z s).
Definition f_gets A ms kind := show_tt (func_gets_opt OF csf snf A ms kind).
Definition f_sum A a b kind := show_l [func_sum OF A a b kind].
Definition f_int_full ns Y := show_t ns (func_int_full OF csf ns Y).
Definition f_get_full X ns A a b z s := show_l (func_get_full OF tolf X ns A a b z s).
Definition f_gets_full ns A ms := show_t ms (func_gets_full OF csf tolf ns A ms).
Definition f_sum_full ns A a b := show_rs (func_sum_full OF tol16f ns A a b).
Definition f_diff a b n m := flat_map show_m (func_diff_matrix OF ssf a b n m).
Definition f_general Y Hs (rec : list (mat float)) :=
  show_tt (func_int_general OF (fun k _ _ => nth k rec (mk_mat 0 0 [])) Y Hs).
Definition f_get_custom X A a b z s := show_l (func_get_custom OF tolf X A a b z s).
'''


def natl(xs):
    return C.natlist(xs)


def optl(ms):
    return 'None' if ms is None else f'(Some {natl(ms)})'


def cb(x):
    return 'true' if x else 'false'


# ---------------------------------------------------------------------------------------------
# results: model (list of pairs) and implementation, as flat lists of numbers
# ---------------------------------------------------------------------------------------------

def q_vals(pairs):
    """Qc show -> ('err', code) or list of Fractions"""
    if len(pairs) == 1 and pairs[0][1] == 0:
        return ('err', pairs[0][0])
    return [Fr(n, d) for n, d in pairs]


def f_vals(pairs):
    if len(pairs) == 1 and pairs[0][1] == 77777:
        return ('err', pairs[0][0])
    return [C.float_of_show(p) for p in pairs]


def impl_flat(thunk, kind='array'):
    """run the implementation; flat list of floats (cores: r1, n, r2, entries...) or ('err', code)"""
    try:
        v = thunk()
    except Exception as e:  # noqa
        return ('err', C.errclass(e))
    if kind == 'tt':
        out = []
        for G in v:
            out += [float(s) for s in G.shape] + np.asarray(G, dtype=float).ravel().tolist()
        return out
    if kind == 'mats':
        out = []
        for M in v:
            out += [float(s) for s in M.shape] + np.asarray(M, dtype=float).ravel().tolist()
        return out
    return np.asarray(v, dtype=float).ravel().tolist()


def close(model, impl, rtol, floor=1.0):
    """model, impl: flat lists or ('err', code).  Agreement within rtol * max(floor, max|model|)."""
    if isinstance(model, tuple) or isinstance(impl, tuple):
        return model == impl
    if len(model) != len(impl):
        return False
    mf = [float(x) for x in model]
    if not all(math.isfinite(x) for x in mf):
        return all((math.isnan(a) and math.isnan(b)) or a == b or abs(a - b) <= rtol for a, b in zip(mf, impl))
    scale = max([floor] + [abs(x) for x in mf])
    return all(math.isfinite(b) and abs(a - b) <= rtol * scale for a, b in zip(mf, impl))


def approx_corr(R, name, header, items, vals_of, rtol, chunk, distribution, exact=False):
    vals = C.run_cases(f'{R.pid}_{name}', header, [it['coq'] for it in items], chunk=chunk)
    bad = []
    for it, v in zip(items, vals):
        m = vals_of(v)
        R.add_distinct((name, it['input']))
        ok = (m == it['impl']) if it.get('exact', exact) else close(m, it['impl'], rtol, it.get('floor', 1.0))
        if not ok:
            mm = m if isinstance(m, tuple) else [float(x) for x in m][:40]
            bad.append(dict(stream=name, input=it['input'], model=mm,
                            impl=it['impl'] if isinstance(it['impl'], tuple) else it['impl'][:40]))
    R.corr.append(dict(name=name, cases=len(items), mismatches=len(bad),
                       comparison=('exact equality of the doubles (func_int_general); 1e-10 relative (func_get custom basis)' if exact else
                                   f'|impl - model| <= {rtol} * max(1, max|model|), error class exact'),
                       distribution=distribution, first_mismatches=bad[:3]))
    if items:
        m0 = vals_of(vals[0])
        R.samples.append(dict(stream=name, input=items[0]['input'],
                              model=m0 if isinstance(m0, tuple) else [float(x) for x in m0][:8],
                              impl=items[0]['impl'] if isinstance(items[0]['impl'], tuple) else items[0]['impl'][:8]))
    return bad


# ---------------------------------------------------------------------------------------------
# generators
# ---------------------------------------------------------------------------------------------

def rand_tt(rng, ns, rmax, lo=-3, hi=3):
    d = len(ns)
    r = [1] + [rng.randint(1, rmax) for _ in range(d - 1)] + [1]
    return [np.array([[[rng.randint(lo, hi) for _ in range(r[k + 1])] for _ in range(ns[k])]
                      for _ in range(r[k])], dtype=object) for k in range(d)]


def tt_float(Y):
    return [np.array(G, dtype=float) for G in Y]


def rand_box(rng, d, symmetric=False):
    a, b = [], []
    for _ in range(d):
        if symmetric:
            h = Fr(rng.randint(1, 8), 2)
            a.append(-h)
            b.append(h)
        else:
            lo = Fr(rng.randint(-6, 2), 2)
            a.append(lo)
            b.append(lo + Fr(rng.randint(1, 8), 2))
    return a, b


def rand_point(rng, a, b, mode):
    """dyadic point: 'in' strictly inside, 'edge' with some coordinates on the boundary, 'out' outside"""
    x = [ak + (bk - ak) * Fr(rng.randint(1, 7), 8) for ak, bk in zip(a, b)]
    d = len(a)
    if mode == 'edge':
        for k in rng.sample(range(d), rng.randint(1, d)):
            x[k] = rng.choice([a[k], b[k]])
    if mode == 'out':
        for k in rng.sample(range(d), rng.randint(1, d)):
            x[k] = rng.choice([a[k] - Fr(rng.randint(1, 8), 4), b[k] + Fr(rng.randint(1, 8), 4)])
    return x


def fl(xs):
    return [float(x) for x in xs]


def dense_of(Y):
    """exact dense tensor (object array of Fractions / ints) of an integer TT"""
    Z = np.array(Y[0][0], dtype=object)  # (n0, r1)
    for G in Y[1:]:
        Z = np.tensordot(Z, np.array(G, dtype=object), axes=([-1], [0]))
    return Z[..., 0]


# ---------------------------------------------------------------------------------------------
# correspondence
# ---------------------------------------------------------------------------------------------

def correspondence(R, ctx):
    tn = C.import_teneva()
    rng = ctx['rng']
    th = ctx['thorough']
    bad = []
    bad += corr_qc(R, tn, rng, th)
    bad += corr_forms(R, tn, rng, th)
    bad += corr_edges(R, tn, rng, th)
    bad += corr_options(R, tn, rng, th)
    bad += corr_boxes(R, tn, rng, th)
    bad += corr_general_exact(R, tn, rng, th)
    bad += corr_histories(R, tn, rng, th)
    bad += corr_scales(R, tn, rng, th)
    bad += corr_float(R, tn, rng, th)
    return bad


def corr_qc(R, tn, rng, th):
    items = []
    dist = dict(d={}, n={}, kinds={}, point_modes={}, note='Qc instance, exact nodes (n_k in {2,3,4}), integer cores in '
                '[-3,3], ranks <= 3, dyadic boxes and points; points strictly inside / on the boundary / outside')

    def add(kind, coq, impl, inp):
        dist['kinds'][kind] = dist['kinds'].get(kind, 0) + 1
        items.append(dict(coq=coq, impl=impl, input=[kind] + inp))

    reps = 60 if th else 10
    for rep in range(reps):
        d = rng.choice([1, 2, 2, 3, 3, 4]) if rep > 3 else [1, 2, 3, 2][rep]
        ns = [rng.choice([2, 3, 4]) for _ in range(d)]
        dist['d'][d] = dist['d'].get(d, 0) + 1
        for n in ns:
            dist['n'][n] = dist['n'].get(n, 0) + 1
        Y = rand_tt(rng, ns, 3)
        Yf = tt_float(Y)
        desc = [ns, [G.tolist() for G in Y]]
        # func_int
        add('func_int', f'f_int {qtt(Y)}', impl_flat(lambda: tn.func_int(Yf), 'tt'), desc)
        # coefficients = Y itself (any integer TT is a coefficient tensor)
        a, b = rand_box(rng, d)
        z = Fr(rng.randint(-9, 9), 2)
        X, modes = [], []
        for mode in ['in', 'in', 'edge', 'out', 'in', 'edge', 'out']:
            X.append(rand_point(rng, a, b, mode))
            modes.append(mode)
            dist['point_modes'][mode] = dist['point_modes'].get(mode, 0) + 1
        for skip in [True, False]:
            add('func_get', f'f_get {qlist2(X)} {qtt(Y)} {qlist(a)} {qlist(b)} {C.qlit(z)} {cb(skip)}',
                impl_flat(lambda: tn.func_get(np.array([fl(x) for x in X]), Yf, fl(a), fl(b), z=float(z), skip_out=skip)),
                desc + [[str(v) for v in a], [str(v) for v in b], [[str(v) for v in x] for x in X], str(z), skip, modes])
        # func_gets on a new grid / the same grid
        ms = [rng.choice([2, 3, 4]) for _ in range(d)]
        add('func_gets', f'f_gets {qtt(Y)} {optl(ms)}', impl_flat(lambda: tn.func_gets(Yf, ms), 'tt'), desc + [ms])
        add('func_gets', f'f_gets {qtt(Y)} None', impl_flat(lambda: tn.func_gets(Yf), 'tt'), desc + [None])
        # func_sum
        add('func_sum', f'f_sum {qtt(Y)} {qlist(a)} {qlist(b)}', impl_flat(lambda: tn.func_sum(Yf, fl(a), fl(b))),
            desc + [[str(v) for v in a], [str(v) for v in b]])
        # dense routines on the dense tensor of Y (d <= 3)
        if d <= 3:
            A = dense_of(Y)
            Af = np.array(A, dtype=float)
            tl = tens_lit(A, C.qlit)
            add('func_int_full', f'f_int_full {natl(ns)} {tl}', impl_flat(lambda: tn.func_int_full(Af)), desc)
            add('func_get_full', f'f_get_full {qlist2(X)} {natl(ns)} {tl} {qlist(a)} {qlist(b)} {C.qlit(z)} true',
                impl_flat(lambda: tn.func_get_full(np.array([fl(x) for x in X]), Af, fl(a), fl(b), z=float(z))),
                desc + [[str(v) for v in a], [str(v) for v in b], [[str(v) for v in x] for x in X], str(z)])
            add('func_gets_full', f'f_gets_full {natl(ns)} {tl} {natl(ms)}',
                impl_flat(lambda: tn.func_gets_full(Af, -1., 1., ms)), desc + [ms])
            sa, sb = rand_box(rng, d, symmetric=True)
            add('func_sum_full', f'f_sum_full {natl(ns)} {tl} {qlist(sa)} {qlist(sb)}',
                impl_flat(lambda: tn.func_sum_full(Af, fl(sa), fl(sb))), desc + [[str(v) for v in sa], [str(v) for v in sb]])
            # asymmetric in one dimension: ValueError
            k = rng.randrange(d)
            ab = list(sb)
            ab[k] = sb[k] + Fr(rng.randint(1, 4), 2)
            add('func_sum_full_asym', f'f_sum_full {natl(ns)} {tl} {qlist(sa)} {qlist(ab)}',
                impl_flat(lambda: tn.func_sum_full(Af, fl(sa), fl(ab))), desc + [[str(v) for v in sa], [str(v) for v in ab]])
    # mode size 1: scipy's DCT-I raises
    Y1 = rand_tt(rng, [3, 1], 2)
    add('func_int_n1', f'f_int {qtt(Y1)}', impl_flat(lambda: tn.func_int(tt_float(Y1)), 'tt'), [[3, 1]])
    # differentiation matrices, exact nodes
    for n in [2, 3, 4]:
        for (a, b) in [(Fr(-1), Fr(1)), (Fr(-1, 2), Fr(3, 2)), (Fr(1), Fr(5))]:
            for m in [1, 2, 3]:
                def run(n=n, a=a, b=b, m=m):
                    D = tn.func_diff_matrix(float(a), float(b), n, m)
                    return [D] if m == 1 else D
                add('func_diff_matrix', f'f_diff {C.qlit(a)} {C.qlit(b)} {n} {m}', impl_flat(run, 'mats'),
                    [n, str(a), str(b), m])
    return approx_corr(R, 'qc_exact_nodes', HEADER_Q, items, q_vals, 1e-10, 12, dist)


# ---------------------------------------------------------------------------------------------
# argument-form families and box-edge families (Qc instance, exact)
# ---------------------------------------------------------------------------------------------
Z_FORMS = [('int', lambda v: int(v)), ('np.int64', lambda v: np.int64(v)), ('float', lambda v: float(v)),
           ('np.float32', lambda v: np.float32(v))]


def ab_forms(a, b):
    """the same box (integer bounds) in the forms teneva.grid_prep_opts accepts"""
    out = [('list_int', [int(v) for v in a], [int(v) for v in b]),
           ('list_float', [float(v) for v in a], [float(v) for v in b]),
           ('array_int', np.array([int(v) for v in a]), np.array([int(v) for v in b])),
           ('array_float', np.array(a, dtype=float), np.array(b, dtype=float)),
           ('array_float32', np.array(a, dtype=np.float32), np.array(b, dtype=np.float32))]
    if len(set(a)) == 1 and len(set(b)) == 1:
        # (a NumPy integer scalar, np.int64(-1), is rejected by grid_prep_opt with TypeError on the unchanged tree: only
        #  int / float (hence np.float64) scalars, lists and arrays are documented; not part of the families)
        out += [('scalar_int', int(a[0]), int(b[0])), ('scalar_float', float(a[0]), float(b[0])),
                ('scalar_np_float64', np.float64(a[0]), np.float64(b[0]))]
    return out


def corr_forms(R, tn, rng, th):
    """every routine called with the SAME mathematical arguments in different Python / NumPy forms (fill value z as
    int / np.int64 / float / np.float32; points as list / int array / float32 array / single point; bounds as int or
    float scalars, lists, arrays; integer-dtype coefficient cores and value tensors; m as int / float / list / array).
    The model is evaluated once on the exact values; every form must give that result as float64."""
    items = []
    dist = dict(kinds={}, forms={}, note='Qc instance; integer cores in [-3,3]; integer box bounds; integer-valued and '
                'dyadic (float32-exact) points inside and outside; result must be the float64 value of the model '
                '(an integer-typed / truncated result is a mismatch)')

    def add(kind, form, coq, thunk, inp, rk='array'):
        dist['kinds'][kind] = dist['kinds'].get(kind, 0) + 1
        dist['forms'][form] = dist['forms'].get(form, 0) + 1
        impl = impl_flat(thunk, rk)
        items.append(dict(coq=coq, impl=impl, input=[kind, form] + inp))

    for rep in range(10 if th else 2):
        d = rng.choice([2, 3]) if rep else 2
        ns = [rng.choice([2, 3, 4]) for _ in range(d)]
        Ai = [np.array(G, dtype=np.int64) for G in rand_tt(rng, ns, 2)]
        Af = tt_float(Ai)
        Ad_i = np.array(dense_of([np.array(G, dtype=object) for G in Ai]).tolist(), dtype=np.int64).reshape(ns)
        Ad_f = Ad_i.astype(float)
        same = rep % 2 == 0
        if same:
            lo, hi = rng.randint(-3, 0), rng.randint(1, 4)
            a, b = [lo] * d, [hi] * d
        else:
            a = [rng.randint(-3, 0) for _ in range(d)]
            b = [rng.randint(1, 4) for _ in range(d)]
        qa, qb = qlist(a), qlist(b)
        tl = tens_lit(np.array(Ad_i.tolist(), dtype=object), C.qlit)
        desc = [ns, [G.tolist() for G in Ai], a, b]
        # points: dyadic inside, integer-valued inside, outside
        Xd = [[Fr(ak) + (bk - ak) * Fr(rng.randint(1, 7), 8) for ak, bk in zip(a, b)] for _ in range(3)]
        Xi = [[Fr(rng.randint(ak, bk)) for ak, bk in zip(a, b)] for _ in range(2)]
        xo = [Fr(rng.randint(ak, bk)) for ak, bk in zip(a, b)]
        k = rng.randrange(d)
        xo[k] = Fr(rng.choice([a[k] - rng.randint(1, 3), b[k] + rng.randint(1, 3)]))
        Xall = Xd + Xi + [xo]
        Xint = Xi + [xo]
        zv = rng.choice([-1, 2, 0, 5])
        zs = str(zv)

        def coq_get(X, z):
            return f'f_get {qlist2(X)} {qtt(Ai)} {qa} {qb} {C.qlit(Fr(z))} true'

        def coq_getf(X, z):
            return f'f_get_full {qlist2(X)} {natl(ns)} {tl} {qa} {qb} {C.qlit(Fr(z))} true'
        Xf = np.array([fl(x) for x in Xall])
        af, bf = fl(a), fl(b)
        # (1) fill value forms
        for fname, conv in Z_FORMS:
            z = Fr(5, 2) if fname == 'np.float32' and rep % 2 else Fr(zv)
            add('func_get', 'z:' + fname, coq_get(Xall, z), lambda: tn.func_get(Xf, Af, af, bf, z=conv(z)),
                desc + [[[str(v) for v in x] for x in Xall], str(z)])
            add('func_get_full', 'z:' + fname, coq_getf(Xall, z), lambda: tn.func_get_full(Xf, Ad_f, af, bf, z=conv(z)),
                desc + [[[str(v) for v in x] for x in Xall], str(z)])
            add('func_get', 'z:' + fname + ',single_point', coq_get([Xall[0]], z),
                lambda: tn.func_get(fl(Xall[0]), Af, af, bf, z=conv(z)), desc + [[str(v) for v in Xall[0]], str(z)])
        # (2) point forms
        pin = desc + [[[str(v) for v in x] for x in Xall], zs]
        add('func_get', 'X:list', coq_get(Xall, zv), lambda: tn.func_get([fl(x) for x in Xall], Af, af, bf, z=zv), pin)
        add('func_get', 'X:float32', coq_get(Xall, zv), lambda: tn.func_get(Xf.astype(np.float32), Af, af, bf, z=zv), pin)
        add('func_get_full', 'X:float32', coq_getf(Xall, zv),
            lambda: tn.func_get_full(Xf.astype(np.float32), Ad_f, af, bf, z=zv), pin)
        pint = desc + [[[str(v) for v in x] for x in Xint], zs]
        Xia = np.array([[int(v) for v in x] for x in Xint], dtype=np.int64)
        add('func_get', 'X:int_array', coq_get(Xint, zv), lambda: tn.func_get(Xia, Af, af, bf, z=zv), pint)
        add('func_get', 'X:int_list', coq_get(Xint, zv), lambda: tn.func_get(Xia.tolist(), Af, af, bf, z=zv), pint)
        add('func_get_full', 'X:int_array', coq_getf(Xint, zv), lambda: tn.func_get_full(Xia, Ad_f, af, bf, z=zv), pint)
        add('func_get', 'X:single_list', coq_get([Xall[1]], zv), lambda: tn.func_get(fl(Xall[1]), Af, af, bf, z=zv), pin)
        add('func_get', 'X:single_array', coq_get([xo], zv), lambda: tn.func_get(np.array(fl(xo)), Af, af, bf, z=zv), pin)
        add('func_get', 'X:single_int_array', coq_get([Xint[0]], zv),
            lambda: tn.func_get(np.array([int(v) for v in Xint[0]]), Af, af, bf, z=zv), pint)
        # (3) bound forms
        sb = [max(abs(x), abs(y)) for x, y in zip(a, b)] if not same else [max(abs(a[0]), abs(b[0]))] * d
        sa = [-v for v in sb]
        for fname, fa, fb in ab_forms(a, b):
            add('func_get', 'ab:' + fname, coq_get(Xall, zv), lambda: tn.func_get(Xf, Af, fa, fb, z=zv), pin)
            add('func_get_full', 'ab:' + fname, coq_getf(Xall, zv), lambda: tn.func_get_full(Xf, Ad_f, fa, fb, z=zv), pin)
            add('func_sum', 'ab:' + fname, f'f_sum {qtt(Ai)} {qa} {qb}', lambda: tn.func_sum(Af, fa, fb), desc)
        for fname, fa, fb in ab_forms(sa, sb):
            add('func_sum_full', 'ab:' + fname, f'f_sum_full {natl(ns)} {tl} {qlist(sa)} {qlist(sb)}',
                lambda: tn.func_sum_full(Ad_f, fa, fb), desc + [sa, sb])
        # (4) integer-dtype cores / arrays
        add('func_get', 'cores:int64', coq_get(Xall, zv), lambda: tn.func_get(Xf, Ai, af, bf, z=zv), pin)
        add('func_get', 'cores:int64,z:int,X:int_array', coq_get(Xint, zv), lambda: tn.func_get(Xia, Ai, a, b, z=int(zv)), pint)
        add('func_get_full', 'cores:int64', coq_getf(Xall, zv), lambda: tn.func_get_full(Xf, Ad_i, af, bf, z=zv), pin)
        add('func_get_full', 'cores:int64,z:int,X:int_array', coq_getf(Xint, zv),
            lambda: tn.func_get_full(Xia, Ad_i, np.array(a), np.array(b), z=int(zv)), pint)
        add('func_int', 'cores:int64', f'f_int {qtt(Ai)}', lambda: tn.func_int(Ai), desc, 'tt')
        add('func_int_full', 'cores:int64', f'f_int_full {natl(ns)} {tl}', lambda: tn.func_int_full(Ad_i), desc)
        add('func_sum', 'cores:int64', f'f_sum {qtt(Ai)} {qa} {qb}', lambda: tn.func_sum(Ai, a, b), desc)
        add('func_sum_full', 'cores:int64', f'f_sum_full {natl(ns)} {tl} {qlist(sa)} {qlist(sb)}',
            lambda: tn.func_sum_full(Ad_i, sa, sb), desc + [sa, sb])
        # (5) grid-size forms
        m0 = rng.choice([2, 3, 4])
        ms = [m0] * d
        for fname, mv in [('int', m0), ('float', float(m0)), ('list', list(ms)),
                          ('array', np.array(ms))]:
            add('func_gets', 'm:' + fname, f'f_gets {qtt(Ai)} {optl(ms)}', lambda: tn.func_gets(Af, mv), desc + [ms], 'tt')
            add('func_gets_full', 'm:' + fname, f'f_gets_full {natl(ns)} {tl} {natl(ms)}',
                lambda: tn.func_gets_full(Ad_f, -1, 1, mv), desc + [ms])
        add('func_gets', 'cores:int64', f'f_gets {qtt(Ai)} {optl(ms)}', lambda: tn.func_gets(Ai, ms), desc + [ms], 'tt')
        add('func_gets_full', 'cores:int64', f'f_gets_full {natl(ns)} {tl} {natl(ms)}',
            lambda: tn.func_gets_full(Ad_i, -1, 1, ms), desc + [ms])
    return approx_corr(R, 'argument_forms', HEADER_Q, items, q_vals, 1e-10, 12, dist)


EDGE_DISTS = [1e-300, 1e-100, 1e-50, 1e-20, 1e-12, 1e-10, 'ulp']


def edge_boxes(rng, d):
    """boxes for the edge family: a bound at 0 (so that tiny distances are representable), the unit box, generic,
    tiny (width 2e-10, 1e-9) and huge boxes"""
    fams = [('zero_lower', [0.0] * d, [rng.choice([1.0, 2.5, 0.5]) for _ in range(d)]),
            ('zero_upper', [-rng.choice([1.0, 2.5, 0.5]) for _ in range(d)], [0.0] * d),
            ('unit', [-1.0] * d, [1.0] * d),
            ('generic', [rng.choice([-3.0, -1.5, 0.25]) for _ in range(d)], None),
            ('tiny_2e-10', [0.0] * d, [2e-10] * d),
            ('tiny_1e-9', [1.0] * d, [1.0 + 1e-9] * d),
            ('tiny_mixed', [0.0] + [-1.0] * (d - 1), [1e-9] + [1.0] * (d - 1)),
            ('huge', [-1e12] * d, [3e12] * d),
            ('huge_pow2', [0.0] * d, [float(2 ** 40)] * d)]
    out = []
    for name, a, b in fams:
        if b is None:
            b = [ak + rng.choice([0.5, 2.0, 2.75]) for ak in a]
        out.append((name, a, b))
    return out


def edge_points(rng, a, b, dists=EDGE_DISTS):
    """(label, point) list: a few inside points, corners, and for every face points beyond it by the given distances.
    All coordinates are the doubles the implementation receives (the model gets their exact rational values)."""
    d = len(a)

    def inside():
        return [ak + (bk - ak) * rng.choice([0.125, 0.25, 0.375, 0.5, 0.625, 0.875]) for ak, bk in zip(a, b)]
    P = [('in', inside()), ('in', inside()), ('corner', list(b)), ('corner', list(a))]
    for k in range(d):
        for side in (0, 1):
            for dist in dists:
                x = inside()
                bound = (a, b)[side][k]
                if dist == 'ulp':
                    x[k] = float(np.nextafter(bound, np.inf if side else -np.inf))
                else:
                    x[k] = bound + dist if side else bound - dist
                P.append((f'out{k}{"+" if side else "-"}{dist}', x))
    return P


def corr_edges(R, tn, rng, th):
    """points just outside the box (1e-300 ... 1e-10, one ulp) and tiny / huge boxes, func_get and func_get_full against
    the exact model (tolerance constant 1e-99 in Model/Func.v and Model/FuncFull.v)"""
    items = []
    dist = dict(boxes={}, labels={}, note='Qc instance on the exact rational values of the doubles passed; integer cores; '
                'z = -29/4; distances beyond each face: ' + ', '.join(str(x) for x in EDGE_DISTS))
    z = Fr(-29, 4)
    for rep in range(3 if th else 1):
        d = 2
        ns = [rng.choice([2, 3, 4]) for _ in range(d)]
        Ai = rand_tt(rng, ns, 2)
        Af = tt_float(Ai)
        Ad = np.array(dense_of(Ai).tolist(), dtype=float).reshape(ns)
        tl = tens_lit(dense_of(Ai), C.qlit)
        for name, a, b in edge_boxes(rng, d):
            dist['boxes'][name] = dist['boxes'].get(name, 0) + 1
            P = edge_points(rng, a, b)
            for lab, _ in P:
                key = lab[5:] if lab.startswith('out') else lab
                dist['labels'][key] = dist['labels'].get(key, 0) + 1
            X = [x for _, x in P]
            Xq = [[Fr(v) for v in x] for x in X]
            inp = [name, ns, [G.tolist() for G in Ai], [v.hex() for v in a], [v.hex() for v in b],
                   [[v.hex() for v in x] for x in X], [lab for lab, _ in P]]
            qa, qb = qlist(a), qlist(b)
            items.append(dict(coq=f'f_get {qlist2(Xq)} {qtt(Ai)} {qa} {qb} {C.qlit(z)} true',
                              impl=impl_flat(lambda: tn.func_get(np.array(X), Af, a, b, z=float(z))),
                              input=['func_get'] + inp))
            items.append(dict(coq=f'f_get_full {qlist2(Xq)} {natl(ns)} {tl} {qa} {qb} {C.qlit(z)} true',
                              impl=impl_flat(lambda: tn.func_get_full(np.array(X), Ad, a, b, z=float(z))),
                              input=['func_get_full'] + inp))
    return approx_corr(R, 'box_edges', HEADER_Q, items, q_vals, 1e-9, 3, dist)



# ---------------------------------------------------------------------------------------------
# histories (argument objects reused across calls) and scales / degenerate shapes (Qc instance, exact)
# ---------------------------------------------------------------------------------------------
# ---------------------------------------------------------------------------------------------
# option interactions and general (non-dyadic, asymmetric, negative, tiny / huge) boxes -- Qc instance, the model decides
# ---------------------------------------------------------------------------------------------
def qmat(M):
    return f'(mk_mat {len(M)} {len(M[0])} {C.nested([[Fr(v) for v in r] for r in M], C.qlit)})'


def corr_general_exact(R, tn, rng, th):
    """func_int_general on custom bases of growing condition number (monomials up to degree 11 on 16 nodes, shifted boxes
    [1,4], [10,11], badly scaled columns) inside the regime cond(H) <= 2e5 where lstsq(cond=1e-6) is a faithful solver.
    Qc model with the EXACT least-squares solution in the oracle slot (data generated exactly in the span, so the contract
    lstsq_ok holds for it and C12_general_core_exact says the result is the coefficient tensor): the implementation must
    reproduce it to 1e-7."""
    items = []
    dist = dict(cases=0, cond=[], bases={}, note='Qc instance; exact rational basis matrices and data; tolerance 1e-7 * '
                'max(1, max|coefficients|); regime 1e2 <= cond(H) <= 2e5 (measured limit of the unchanged code: 1e6)')
    for bname, m, X in conditioned_cases(rng, 6 if th else 3):
        d = 2
        Xq = [Fr(x).limit_denominator(64) if bname != 'mono' or len(X) != 16 or abs(X[0]) != 1 else Fr(x).limit_denominator(15)
              for x in X]
        Xq = sorted(set(Xq))
        if len(Xq) < m:
            continue
        Xf = [float(x) for x in Xq]
        basis = S_BASES[bname](m)
        if not (COND_LO <= cond_of(basis, Xf) <= COND_HI):
            continue
        # exact basis matrix (points x functions): all bases are polynomials with rational coefficients in x
        if bname == 'mono':
            Hq = [[x ** j for j in range(m)] for x in Xq]
        elif bname == 'mono8':
            Hq = [[(8 * x) ** j for j in range(m)] for x in Xq]
        else:   # 'shifted': (x - 1)^j + (j % 2)
            Hq = [[(x - 1) ** j + (j % 2) for j in range(m)] for x in Xq]
        n = len(Xq)
        r = [1, rng.randint(1, 2), 1]
        Cq = [[[[Fr(rng.randint(-3, 3)) for _ in range(r[k + 1])] for _ in range(m)] for _ in range(r[k])] for k in range(d)]
        Yq = [[[[sum(Hq[i][j] * Cq[k][a][j][b] for j in range(m)) for b in range(r[k + 1])] for i in range(n)]
               for a in range(r[k])] for k in range(d)]
        Yf = [np.array([[[float(v) for v in row] for row in mat] for mat in G]) for G in Yq]
        # exact solutions Q_k (m x r1*r2), column c = a * r2 + b
        sol = [[[Cq[k][c // r[k + 1]][j][c % r[k + 1]] for c in range(r[k] * r[k + 1])] for j in range(m)] for k in range(d)]
        coq = (f'f_general_q [{"; ".join("(mk_core %d %d %d %s)" % (r[k], n, r[k + 1], C.nested(Yq[k], C.qlit)) for k in range(d))}] '
               f'[{"; ".join(qmat(Hq) for _ in range(d))}] [{"; ".join(qmat(sol[k]) for k in range(d))}]')
        Y0 = [G.copy() for G in Yf]
        impl = impl_flat(lambda: tn.func_int_general(Yf, np.array(Xf), basis), 'tt')
        if any(not np.array_equal(G, G0) for G, G0 in zip(Yf, Y0)):
            impl = ('err', 'func_int_general modified its argument Y')
        c = cond_of(basis, Xf)
        dist['cases'] += 1
        dist['cond'].append(float(f'{c:.3g}'))
        dist['bases'][bname] = dist['bases'].get(bname, 0) + 1
        items.append(dict(coq=coq, impl=impl, input=['func_int_general', bname, m, [str(x) for x in Xq], r,
                                                     [[[[str(v) for v in row] for row in mat] for mat in G] for G in Cq], c]))
    return approx_corr(R, 'general_conditioned_exact_oracle', HEADER_Q, items, q_vals, 1e-7, 2, dist)



OMIT = object()


def opt_points(rng, a, b, n_in=2):
    """dyadic points strictly inside, on the boundary and outside the (effective) box [a, b]"""
    d = len(a)
    P = [[ak + (bk - ak) * Fr(rng.randint(1, 7), 8) for ak, bk in zip(a, b)] for _ in range(n_in)]
    x = [ak + (bk - ak) * Fr(rng.randint(1, 7), 8) for ak, bk in zip(a, b)]
    k = rng.randrange(d)
    x[k] = rng.choice([a[k], b[k]])
    P.append(x)
    for _ in range(2):
        x = [ak + (bk - ak) * Fr(rng.randint(1, 7), 8) for ak, bk in zip(a, b)]
        k = rng.randrange(d)
        x[k] = rng.choice([a[k] - Fr(rng.randint(1, 6), 4), b[k] + Fr(rng.randint(1, 6), 4)])
        P.append(x)
    return P


def corr_options(R, tn, rng, th):
    """every combination of explicit / omitted a, b, z, skip_out (omitted, None, True, False) for func_get (batch and
    single point), z / skip_out for func_get_full, m / kind for func_gets, m for func_gets_full; points inside, on the
    boundary and outside the effective box.  Model: func_get_opt (option resolution) / explicit arguments."""
    items = []
    dist = dict(kinds={}, combos=0, note='Qc instance; integer cores; dyadic boxes and points; effective box = given '
                'bound or the default -1 / +1; the model resolves the options (Model/Func.v func_get_opt)')

    def add(kind, coq, thunk, inp, rk='array'):
        dist['kinds'][kind] = dist['kinds'].get(kind, 0) + 1
        items.append(dict(coq=coq, impl=impl_flat(thunk, rk), input=[kind] + inp))

    for rep in range(3 if th else 1):
        d = rng.choice([2, 3]) if rep else 2
        ns = [rng.choice([2, 3, 4]) for _ in range(d)]
        Aq = rand_tt(rng, ns, 2)
        Af = tt_float(Aq)
        Ad = np.array(dense_of(Aq).tolist(), dtype=float).reshape(ns)
        tl = tens_lit(dense_of(Aq), C.qlit)
        desc = [ns, [G.tolist() for G in Aq]]
        ax = [Fr(-rng.randint(1, 6), 2) for _ in range(d)]          # explicit bounds, a <= -1/2 < 1/2 <= b
        bx = [Fr(rng.randint(1, 6), 2) for _ in range(d)]
        zx = Fr(rng.choice([-7, 5, 9]), 2)
        for a_given in (False, True):
            for b_given in (False, True):
                ae = ax if a_given else [Fr(-1)] * d
                be = bx if b_given else [Fr(1)] * d
                P = opt_points(rng, ae, be)
                for z_given in (False, True):
                    for sk in (OMIT, None, True, False):
                        for single in (False, True):
                            if single and (z_given, sk) not in ((True, True), (False, OMIT), (True, False)):
                                continue
                            dist['combos'] += 1
                            pts = [P[rng.randrange(len(P))]] if single else P
                            kw = {}
                            if a_given:
                                kw['a'] = fl(ax)
                            if b_given:
                                kw['b'] = fl(bx)
                            if z_given:
                                kw['z'] = float(zx)
                            if sk is not OMIT:
                                kw['skip_out'] = sk
                            Xarg = fl(pts[0]) if single else np.array([fl(x) for x in pts])
                            qa = f'(Some {qlist(ax)})' if a_given else 'None'
                            qb = f'(Some {qlist(bx)})' if b_given else 'None'
                            qs = 'None' if sk in (OMIT, None) else f'(Some {cb(sk)})'
                            qz = C.qlit(zx if z_given else Fr(0))
                            add('func_get', f'f_get_opt {qlist2(pts)} {qtt(Aq)} {qa} {qb} {qz} {qs}',
                                lambda: tn.func_get(Xarg, Af, **kw),
                                desc + [dict(a=str(kw.get('a', 'omitted')), b=str(kw.get('b', 'omitted')),
                                             z=str(kw.get('z', 'omitted')), skip_out='omitted' if sk is OMIT else str(sk),
                                             single=single), [[str(v) for v in x] for x in pts]])
        # dense evaluation: a, b positional; z, skip_out optional
        P = opt_points(rng, ax, bx, 3)
        Xf = np.array([fl(x) for x in P])
        for z_given in (False, True):
            for sk in (OMIT, True, False):
                kw = {}
                if z_given:
                    kw['z'] = float(zx)
                if sk is not OMIT:
                    kw['skip_out'] = sk
                add('func_get_full', f'f_get_full {qlist2(P)} {natl(ns)} {tl} {qlist(ax)} {qlist(bx)} '
                    f'{C.qlit(zx if z_given else Fr(0))} {cb(True if sk is OMIT else sk)}',
                    lambda: tn.func_get_full(Xf, Ad, fl(ax), fl(bx), **kw),
                    desc + [dict(z=str(kw.get('z', 'omitted')), skip_out='omitted' if sk is OMIT else str(sk)),
                            [[str(v) for v in x] for x in P]])
        ms = [rng.choice([2, 3, 4]) for _ in range(d)]
        for mform, margs in (('omitted', ()), ('None', (None,)), ('explicit', (ms,))):
            for kform, kkw in (('omitted', {}), ('cheb', dict(kind='cheb'))):
                add('func_gets', f'f_gets {qtt(Aq)} {optl(ms if mform == "explicit" else None)}',
                    lambda: tn.func_gets(Af, *margs, **kkw), desc + [mform, kform, ms], 'tt')
            mm = ms if mform == 'explicit' else ns
            add('func_gets_full', f'f_gets_full {natl(ns)} {tl} {natl(mm)}',
                lambda: tn.func_gets_full(Ad, fl(ax), fl(bx), *margs), desc + [mform, mm])
    return approx_corr(R, 'option_interactions', HEADER_Q, items, q_vals, 1e-10, 12, dist)


def general_boxes(rng, d, k_rand=4):
    """(name, a, b) with double bounds: decimal (non-dyadic) asymmetric, negative, positive, symmetric non-dyadic,
    tiny and huge width, random"""
    tenth = lambda lo, hi: rng.randint(lo, hi) / 10.0   # noqa: E731
    out = []
    for name in ['decimal', 'decimal', 'decimal']:
        a = [tenth(-9, 9) for _ in range(d)]
        out.append((name, a, [ak + tenth(1, 15) for ak in a]))
    out.append(('decimal_fixed', ([0.1, -0.1, 0.2, 0.1] * d)[:d], ([0.7, 0.3, 1.4, 0.9] * d)[:d]))
    a = [-tenth(20, 90) for _ in range(d)]
    out.append(('negative', a, [ak + tenth(1, 15) for ak in a]))
    a = [tenth(11, 90) for _ in range(d)]
    out.append(('positive', a, [ak + tenth(1, 30) for ak in a]))
    h = [tenth(1, 37) for _ in range(d)]
    out.append(('symmetric_decimal', [-v for v in h], h))
    a = [tenth(-9, 9) for _ in range(d)]
    out.append(('tiny_width', a, [ak + 1e-4 * tenth(1, 9) for ak in a]))
    a = [-1e9 * tenth(1, 9) + 0.1 for _ in range(d)]
    out.append(('huge_width', a, [2.3e10 * tenth(1, 9) for _ in range(d)]))
    for _ in range(k_rand):
        a = [rng.uniform(-3, 3) for _ in range(d)]
        out.append(('random', a, [ak + rng.uniform(0.01, 4) for ak in a]))
    return out


def box_points(tn, rng, a, b, ns):
    """(label, point): inside, each face exactly, corners, and the Chebyshev nodes of the box as teneva computes them"""
    d = len(a)
    ins = lambda: [ak + (bk - ak) * rng.random() for ak, bk in zip(a, b)]   # noqa: E731
    P = [('in', ins()), ('in', ins()), ('corner_b', list(b)), ('corner_a', list(a))]
    for k in range(d):
        for side, bound in (('a', a[k]), ('b', b[k])):
            x = ins()
            x[k] = bound
            P.append((f'face_{side}{k}', x))
    I = np.array(list(itertools.islice(itertools.product(*[range(n) for n in ns]), 40)))
    Xn = tn.ind_to_poi(I, np.array(a), np.array(b), np.array(ns), 'cheb')
    for i, x in zip(I, Xn):
        P.append(('node' + ''.join(str(v) for v in i), [float(v) for v in x]))
    x = ins()
    k = rng.randrange(d)
    x[k] = b[k] + (b[k] - a[k]) * 0.5
    P.append(('out', x))
    return P


def corr_boxes(R, tn, rng, th):
    """every routine that takes a, b on general boxes (bounds that are not dyadic: 0.1, 0.7, -0.1, 0.3 ..., asymmetric,
    negative, symmetric, tiny / huge width, random doubles); points on the faces and on the grid nodes.  The model works on
    the exact rational values of the doubles; func_gets_full ignores a, b in the model as in the code."""
    items = []
    dist = dict(kinds={}, boxes={}, note='Qc instance on the exact rationals of the doubles passed; z = -29/4')
    z = Fr(-29, 4)

    def add(kind, name, coq, thunk, inp, floor=1.0):
        dist['kinds'][kind] = dist['kinds'].get(kind, 0) + 1
        dist['boxes'][name] = dist['boxes'].get(name, 0) + 1
        items.append(dict(coq=coq, impl=impl_flat(thunk), input=[kind, name] + inp, floor=floor))

    for rep in range(3 if th else 1):
        d = [2, 1, 3][rep % 3]
        ns = [rng.choice([2, 3, 4]) for _ in range(d)]
        Aq = rand_tt(rng, ns, 2)
        Af = tt_float(Aq)
        Ad = np.array(dense_of(Aq).tolist(), dtype=float).reshape(ns)
        tl = tens_lit(dense_of(Aq), C.qlit)
        for name, a, b in general_boxes(rng, d):
            P = box_points(tn, rng, a, b, ns)
            X = [x for _, x in P]
            Xq = [[Fr(v) for v in x] for x in X]
            qa, qb = qlist(a), qlist(b)
            inp = [ns, [G.tolist() for G in Aq], [v.hex() for v in a], [v.hex() for v in b]]
            pin = inp + [[[v.hex() for v in x] for x in X], [lab for lab, _ in P]]
            add('func_get', name, f'f_get {qlist2(Xq)} {qtt(Aq)} {qa} {qb} {C.qlit(z)} true',
                lambda: tn.func_get(np.array(X), Af, a, b, z=float(z)), pin)
            add('func_get_full', name, f'f_get_full {qlist2(Xq)} {natl(ns)} {tl} {qa} {qb} {C.qlit(z)} true',
                lambda: tn.func_get_full(np.array(X), Ad, a, b, z=float(z)), pin)
            vol = float(np.prod([(bk - ak) / 2 for ak, bk in zip(a, b)]))
            add('func_sum', name, f'f_sum {qtt(Aq)} {qa} {qb}', lambda: tn.func_sum(Af, a, b), inp, vol)
            ms = [rng.choice([2, 3, 4]) for _ in range(d)]
            for mm, margs in ((ms, (ms,)), (ns, ())):
                add('func_gets_full', name, f'f_gets_full {natl(ns)} {tl} {natl(mm)}',
                    lambda: tn.func_gets_full(Ad, a, b, *margs), inp + [mm])
            if name == 'symmetric_decimal':
                add('func_sum_full', name, f'f_sum_full {natl(ns)} {tl} {qa} {qb}', lambda: tn.func_sum_full(Ad, a, b), inp, vol)
    return approx_corr(R, 'general_boxes', HEADER_Q, items, q_vals, 1e-9, 6, dist)



def _same(u, v):
    if isinstance(u, list):
        return isinstance(v, list) and len(u) == len(v) and all(_same(x, y) for x, y in zip(u, v))
    u, v = np.asarray(u), np.asarray(v)
    return u.dtype == v.dtype and u.shape == v.shape and u.tobytes() == v.tobytes()


def _copy(u):
    return [_copy(x) for x in u] if isinstance(u, list) else np.array(u, copy=True)


def corr_histories(R, tn, rng, th):
    """the SAME argument objects (value cores, coefficient cores, point array, bound arrays, grid-size list, dense arrays)
    are passed to 2-3 interleaved calls of every routine; the model is pure, so every call must equal the model on the
    saved originals, and an argument that is no longer bit-identical after a call is a mismatch of that call"""
    items = []
    dist = dict(calls={}, sequences=0, modified=0, note='Qc instance, exact nodes; one shared object per argument for the '
                'whole sequence; after every call all shared objects are compared byte for byte with saved copies')
    for rep in range(6 if th else 2):
        d = rng.choice([2, 3]) if rep else 2
        ns = [rng.choice([2, 3, 4]) for _ in range(d)]
        Yq = rand_tt(rng, ns, 2)
        a0, b0 = rand_box(rng, d)
        sb0 = [Fr(rng.randint(1, 6), 2) for _ in range(d)]
        Xq = [rand_point(rng, a0, b0, mode) for mode in ['in', 'edge', 'out', 'in']]
        ms = [rng.choice([2, 3, 4]) for _ in range(d)]
        z = Fr(rng.randint(-9, 9), 2)
        sh = dict(Y=tt_float(Yq), X=np.array([fl(x) for x in Xq]), a=np.array(fl(a0)), b=np.array(fl(b0)),
                  sa=np.array(fl([-v for v in sb0])), sb=np.array(fl(sb0)), ms=list(ms),
                  Yd=np.array(dense_of(Yq).tolist(), dtype=float).reshape(ns))
        # the coefficient tensors used as arguments: A := Y itself (any integer TT is a coefficient tensor)
        saved = {k: _copy(v) for k, v in sh.items()}
        qa, qb, qsa, qsb = qlist(a0), qlist(b0), qlist([-v for v in sb0]), qlist(sb0)
        tl = tens_lit(dense_of(Yq), C.qlit)
        desc = [ns, [G.tolist() for G in Yq], [str(v) for v in a0], [str(v) for v in b0]]
        dist['sequences'] += 1
        seq = [
            ('func_int', f'f_int {qtt(Yq)}', lambda: tn.func_int(sh['Y']), 'tt'),
            ('func_gets', f'f_gets {qtt(Yq)} {optl(ms)}', lambda: tn.func_gets(sh['Y'], sh['ms']), 'tt'),
            ('func_int', f'f_int {qtt(Yq)}', lambda: tn.func_int(sh['Y']), 'tt'),
            ('func_get', f'f_get {qlist2(Xq)} {qtt(Yq)} {qa} {qb} {C.qlit(z)} true',
             lambda: tn.func_get(sh['X'], sh['Y'], sh['a'], sh['b'], z=float(z)), 'array'),
            ('func_sum', f'f_sum {qtt(Yq)} {qa} {qb}', lambda: tn.func_sum(sh['Y'], sh['a'], sh['b']), 'array'),
            ('func_gets', f'f_gets {qtt(Yq)} None', lambda: tn.func_gets(sh['Y']), 'tt'),
            ('func_get', f'f_get {qlist2(Xq)} {qtt(Yq)} {qa} {qb} {C.qlit(z)} true',
             lambda: tn.func_get(sh['X'], sh['Y'], sh['a'], sh['b'], z=float(z)), 'array'),
            ('func_gets', f'f_gets {qtt(Yq)} {optl(ms)}', lambda: tn.func_gets(sh['Y'], sh['ms']), 'tt'),
            ('func_sum', f'f_sum {qtt(Yq)} {qa} {qb}', lambda: tn.func_sum(sh['Y'], sh['a'], sh['b']), 'array'),
            ('func_int_full', f'f_int_full {natl(ns)} {tl}', lambda: tn.func_int_full(sh['Yd']), 'array'),
            ('func_get_full', f'f_get_full {qlist2(Xq)} {natl(ns)} {tl} {qa} {qb} {C.qlit(z)} true',
             lambda: tn.func_get_full(sh['X'], sh['Yd'], sh['a'], sh['b'], z=float(z)), 'array'),
            ('func_int_full', f'f_int_full {natl(ns)} {tl}', lambda: tn.func_int_full(sh['Yd']), 'array'),
            ('func_gets_full', f'f_gets_full {natl(ns)} {tl} {natl(ms)}',
             lambda: tn.func_gets_full(sh['Yd'], sh['a'], sh['b'], sh['ms']), 'array'),
            ('func_sum_full', f'f_sum_full {natl(ns)} {tl} {qsa} {qsb}',
             lambda: tn.func_sum_full(sh['Yd'], sh['sa'], sh['sb']), 'array'),
            ('func_get_full', f'f_get_full {qlist2(Xq)} {natl(ns)} {tl} {qa} {qb} {C.qlit(z)} true',
             lambda: tn.func_get_full(sh['X'], sh['Yd'], sh['a'], sh['b'], z=float(z)), 'array'),
            ('func_sum_full', f'f_sum_full {natl(ns)} {tl} {qsa} {qsb}',
             lambda: tn.func_sum_full(sh['Yd'], sh['sa'], sh['sb']), 'array'),
            ('func_get', f'f_get {qlist2(Xq)} {qtt(Yq)} {qa} {qb} {C.qlit(z)} true',
             lambda: tn.func_get(sh['X'], sh['Y'], sh['a'], sh['b'], z=float(z)), 'array'),
        ]
        for pos, (name, coq, thunk, rk) in enumerate(seq):
            dist['calls'][name] = dist['calls'].get(name, 0) + 1
            impl = impl_flat(thunk, rk)
            changed = [k for k in sh if not _same(sh[k], saved[k])]
            if changed:
                dist['modified'] += 1
                impl = ('err', f'{name} (call {pos} of the sequence) modified its argument(s) {changed}')
                for k in changed:
                    sh[k] = _copy(saved[k])
            items.append(dict(coq=coq, impl=impl, input=['history', rep, pos, name] + desc))
    return approx_corr(R, 'histories', HEADER_Q, items, q_vals, 1e-10, 12, dist)


def corr_scales(R, tn, rng, th):
    """exact power-of-two rescalings of the values (one core by 2^+-500, every core by 2^+-200), boxes with bounds
    +-2^+-300 and the box [2^30, 2^30 + 2^-20]; degenerate shapes n_k = 2 everywhere, d = 1, a single point.  Pure
    relative comparison (the floor of the tolerance is the scale factor itself)."""
    items = []
    dist = dict(kinds={}, families={}, note='Qc instance on exact rationals; tolerance 1e-10 * max(scale, max|model|)')

    def add(fam, kind, coq, thunk, inp, floor, rk='array'):
        dist['kinds'][kind] = dist['kinds'].get(kind, 0) + 1
        dist['families'][fam] = dist['families'].get(fam, 0) + 1
        items.append(dict(coq=coq, impl=impl_flat(thunk, rk), input=[fam, kind] + inp, floor=floor))

    def family(fam, d, ns, Yq, a, b, sa, sb, floor, vfloor):
        """all routines on value / coefficient tensor Yq (Fractions), box [a, b] (doubles), symmetric box [sa, sb]"""
        Yf = [np.array([[[float(v) for v in r] for r in m] for m in G.tolist()]) for G in Yq]
        Ad = np.array([float(v) for v in dense_of(Yq).ravel().tolist()]).reshape(ns)
        tl = tens_lit(dense_of(Yq), C.qlit)
        qa, qb = qlist(a), qlist(b)
        X = [[ak + (bk - ak) * f for ak, bk in zip(a, b)] for f in (0.25, 0.5, 1.0)] + [[bk + (bk - ak) for ak, bk in zip(a, b)]]
        Xq = [[Fr(v) for v in x] for x in X]
        ms = [rng.choice([2, 3, 4]) for _ in range(d)]
        z = Fr(-29, 4) * Fr(floor)
        desc = [ns, [[[[str(v) for v in r] for r in m] for m in G.tolist()] for G in Yq], [v.hex() for v in a], [v.hex() for v in b]]
        add(fam, 'func_int', f'f_int {qtt(Yq)}', lambda: tn.func_int(Yf), desc, floor, 'tt')
        add(fam, 'func_gets', f'f_gets {qtt(Yq)} {optl(ms)}', lambda: tn.func_gets(Yf, ms), desc + [ms], floor, 'tt')
        add(fam, 'func_get', f'f_get {qlist2(Xq)} {qtt(Yq)} {qa} {qb} {C.qlit(z)} true',
            lambda: tn.func_get(np.array(X), Yf, a, b, z=float(z)), desc + [[[v.hex() for v in x] for x in X]], floor)
        add(fam, 'func_get(single point)', f'f_get {qlist2(Xq[:1])} {qtt(Yq)} {qa} {qb} {C.qlit(z)} true',
            lambda: tn.func_get(np.array(X[0]), Yf, a, b, z=float(z)), desc + [[v.hex() for v in X[0]]], floor)
        add(fam, 'func_sum', f'f_sum {qtt(Yq)} {qa} {qb}', lambda: tn.func_sum(Yf, a, b), desc, vfloor)
        if d <= 3:
            add(fam, 'func_int_full', f'f_int_full {natl(ns)} {tl}', lambda: tn.func_int_full(Ad), desc, floor)
            add(fam, 'func_get_full', f'f_get_full {qlist2(Xq)} {natl(ns)} {tl} {qa} {qb} {C.qlit(z)} true',
                lambda: tn.func_get_full(np.array(X), Ad, a, b, z=float(z)), desc + [[[v.hex() for v in x] for x in X]],
                floor)
            add(fam, 'func_gets_full', f'f_gets_full {natl(ns)} {tl} {natl(ms)}',
                lambda: tn.func_gets_full(Ad, a, b, ms), desc + [ms], floor)
            if sa is not None:
                add(fam, 'func_sum_full', f'f_sum_full {natl(ns)} {tl} {qlist(sa)} {qlist(sb)}',
                    lambda: tn.func_sum_full(Ad, sa, sb), desc + [[v.hex() for v in sb]], vfloor)

    def frac_tt(Y, scales):
        return [np.array([[[Fr(int(v)) * sc for v in r] for r in m] for m in G.tolist()], dtype=object)
                for G, sc in zip(Y, scales)]

    for rep in range(2 if th else 1):
        d = 2
        ns = [rng.choice([2, 3, 4]) for _ in range(d)]
        Y = rand_tt(rng, ns, 2)
        unit_a, unit_b = [-1.0] * d, [1.0] * d
        for e in (500, -500):
            k = rng.randrange(d)
            sc = [Fr(2) ** e if j == k else Fr(1) for j in range(d)]
            family(f'one core * 2^{e}', d, ns, frac_tt(Y, sc), [-1.5, 0.0], [0.5, 2.0], unit_a, unit_b, 2.0 ** e, 2.0 ** e)
        for e in (200, -200):
            family(f'every core * 2^{e}', d, ns, frac_tt(Y, [Fr(2) ** e] * d), unit_a, unit_b, unit_a, unit_b,
                   2.0 ** (e * d), 2.0 ** (e * d))
        one = [Fr(1)] * d
        for e in (300, -300):
            h = 2.0 ** e
            family(f'box +-2^{e}', d, ns, frac_tt(Y, one), [-h] * d, [h] * d, [-h] * d, [h] * d, 1.0, h ** d)
        lo = 2.0 ** 30
        family('box [2^30, 2^30 + 2^-20]', d, ns, frac_tt(Y, one), [lo] * d, [lo + 2.0 ** -20] * d, None, None, 1.0,
               (2.0 ** -21) ** d)
        # degenerate shapes
        Y2 = rand_tt(rng, [2, 2, 2], 2)
        family('n_k = 2 everywhere (d = 3)', 3, [2, 2, 2], frac_tt(Y2, [Fr(1)] * 3), [-1.0, 0.0, 2.0], [1.0, 0.5, 5.0],
               [-1.0, -0.5, -3.0], [1.0, 0.5, 3.0], 1.0, 1.0)
        n1 = rng.choice([2, 3, 4])
        Y1 = rand_tt(rng, [n1], 1)
        family('d = 1', 1, [n1], frac_tt(Y1, [Fr(1)]), [-0.5], [2.0], [-2.0], [2.0], 1.0, 1.0)
    return approx_corr(R, 'scales_shapes', HEADER_Q, items, q_vals, 1e-10, 10, dist)



def corr_float(R, tn, rng, th):
    items = []
    nmax = 12
    dist = dict(d={}, kinds={}, nmax=nmax, note='float instance; cos / sin oracle tables recorded from numpy; '
                'random float cores; n_k up to 12; func_int_general: lstsq output replayed, bits compared')

    def add(kind, coq, impl, inp):
        dist['kinds'][kind] = dist['kinds'].get(kind, 0) + 1
        items.append(dict(coq=coq, impl=impl, input=[kind] + inp))

    reps = 40 if th else 10
    for rep in range(reps):
        d = rng.choice([2, 2, 3]) if rep else 2
        ns = [rng.randint(2, nmax if d == 2 else 7) for _ in range(d)]
        dist['d'][d] = dist['d'].get(d, 0) + 1
        r = [1] + [rng.randint(1, 3) for _ in range(d - 1)] + [1]
        Y = [np.array([[[rng.uniform(-1, 1) for _ in range(r[k + 1])] for _ in range(ns[k])] for _ in range(r[k])])
             for k in range(d)]
        desc = [ns, r, [G.tolist() for G in Y]]
        add('func_int', f'f_int {ftt(Y)} Cheb', impl_flat(lambda: tn.func_int(Y), 'tt'), desc)
        add('func_int_sin', f'f_int {ftt(Y)} Sin', impl_flat(lambda: tn.func_int(Y, 'sin'), 'tt'), desc)
        a = [rng.uniform(-3, 1) for _ in range(d)]
        b = [ak + rng.uniform(0.5, 4) for ak in a]
        X = []
        for mode in ['in', 'in', 'out', 'in']:
            x = [ak + (bk - ak) * rng.uniform(0.01, 0.99) for ak, bk in zip(a, b)]
            if mode == 'out':
                k = rng.randrange(d)
                x[k] = rng.choice([a[k] - rng.uniform(0.1, 2), b[k] + rng.uniform(0.1, 2)])
            X.append(x)
        z = rng.uniform(-5, 5)
        add('func_get', f'f_get {flist2(X)} {ftt(Y)} {flist(a)} {flist(b)} {flt(z)} true',
            impl_flat(lambda: tn.func_get(np.array(X), Y, a, b, z=z)), desc + [a, b, X, z])
        ms = [rng.randint(2, nmax if d == 2 else 7) for _ in range(d)]
        add('func_gets', f'f_gets {ftt(Y)} {optl(ms)} Cheb', impl_flat(lambda: tn.func_gets(Y, ms), 'tt'), desc + [ms])
        add('func_gets_sin', f'f_gets {ftt(Y)} {optl(ms)} Sin', impl_flat(lambda: tn.func_gets(Y, ms, 'sin'), 'tt'),
            desc + [ms])
        add('func_sum', f'f_sum {ftt(Y)} {flist(a)} {flist(b)} Cheb', impl_flat(lambda: tn.func_sum(Y, a, b)), desc + [a, b])
        add('func_sum_sin', f'f_sum {ftt(Y)} {flist(a)} {flist(b)} Sin', impl_flat(lambda: tn.func_sum(Y, a, b, 'sin')),
            desc + [a, b])
        if int(np.prod(ns)) <= 150:
            A = tn.full(Y)
            tl = tens_lit(A, flt)
            add('func_int_full', f'f_int_full {natl(ns)} {tl}', impl_flat(lambda: tn.func_int_full(A)), desc)
            add('func_get_full', f'f_get_full {flist2(X)} {natl(ns)} {tl} {flist(a)} {flist(b)} {flt(z)} true',
                impl_flat(lambda: tn.func_get_full(np.array(X), A, a, b, z=z)), desc + [a, b, X, z])
            ms2 = [min(m, 6) for m in ms]
            add('func_gets_full', f'f_gets_full {natl(ns)} {tl} {natl(ms2)}',
                impl_flat(lambda: tn.func_gets_full(A, -1., 1., ms2)), desc + [ms2])
            sb = [rng.uniform(0.5, 3) for _ in range(d)]
            sa = [-v for v in sb]
            add('func_sum_full', f'f_sum_full {natl(ns)} {tl} {flist(sa)} {flist(sb)}',
                impl_flat(lambda: tn.func_sum_full(A, sa, sb)), desc + [sa, sb])
    for n in ([2, 3, 4, 5, 6, 7, 9, 12] if not th else range(2, 13)):
        a = rng.uniform(-2, 0)
        b = a + rng.uniform(1, 3)
        for m in [1, 2]:
            def run(n=n, a=a, b=b, m=m):
                D = tn.func_diff_matrix(a, b, n, m)
                return [D] if m == 1 else D
            add('func_diff_matrix', f'f_diff {flt(a)} {flt(b)} {n} {m}', impl_flat(run, 'mats'), [n, a, b, m])
    bad = approx_corr(R, 'float_instance', header_f(nmax), items, f_vals, 1e-9, 8, dist)
    bad += corr_general(R, tn, rng, th, header_f(2))
    return bad


def corr_general(R, tn, rng, th, header):
    """func_int_general: the lstsq outputs are recorded and replayed into the model's oracle slot, so the model's
    result (a rearrangement of them) must equal the implementation's bit for bit; the oracle contract (zero residual on
    consistent data, shape) is validated on every recorded call.  func_get with custom basis functions."""
    import scipy.linalg
    items = []
    dist = dict(cases=0, m_lt_n=0, m_eq_n=0, contract_checked=0, contract_violations=0)
    orig = scipy.linalg.lstsq
    for rep in range(24 if th else 8):
        d = rng.choice([2, 3])
        m = rng.randint(1, 4)
        n = rng.choice([m, m + 1, m + 2])
        dist['m_eq_n' if m == n else 'm_lt_n'] += 1
        dist['cases'] += 1
        r = [1] + [rng.randint(1, 3) for _ in range(d - 1)] + [1]
        Xp = [[-1 + 2 * (j + 0.5) / n + rng.choice([-0.125, 0, 0.0625]) for j in range(n)] for _ in range(d)]
        basis = S_BASES[rng.choice(['mono', 'shifted', 'cheb'])](m)
        Cc = [np.array([[[rng.randint(-3, 3) for _ in range(r[k + 1])] for _ in range(m)] for _ in range(r[k])], dtype=float)
              for k in range(d)]
        Y = [np.einsum('rjq,ji->riq', Cc[k], basis(np.array(Xp[k]))) for k in range(d)]
        rec = []

        def wrapped(Hm, M, *a, **k):
            Hc, Mc = np.array(Hm, dtype=float), np.array(M, dtype=float)
            out = orig(Hm, M, *a, **k)
            rec.append((Hc, Mc, np.array(out[0], dtype=float)))
            return out
        scipy.linalg.lstsq = wrapped
        Y0 = [G.copy() for G in Y]
        try:
            impl = impl_flat(lambda: tn.func_int_general(Y, np.array(Xp), basis), 'tt')
        finally:
            scipy.linalg.lstsq = orig
        if any(not np.array_equal(G, G0) for G, G0 in zip(Y, Y0)):
            # the model function is pure: an implementation that overwrites its argument does not correspond
            dist['input_modified'] = dist.get('input_modified', 0) + 1
            impl = ('err', 'func_int_general modified its argument Y')
            Y = Y0
        for Hc, Mc, Q in rec:
            dist['contract_checked'] += 1
            if Q.shape != (Hc.shape[1], Mc.shape[1]) or np.max(np.abs(Hc @ Q - Mc)) > 1e-8 * max(1, np.max(np.abs(Mc))):
                dist['contract_violations'] += 1
        Hs = [basis(np.array(Xp[k])).T for k in range(d)]
        recl = '[' + '; '.join(fmat(Q) for _, _, Q in rec) + ']'
        items.append(dict(coq=f'f_general {ftt(Y)} [{"; ".join(fmat(H) for H in Hs)}] {recl}', impl=impl,
                          input=['func_int_general', d, m, n, r, Xp]))
        # func_get with custom functions returning more rows than the mode size
        if not isinstance(impl, tuple):
            A = tn.func_int_general(Y, np.array(Xp), basis)
            big = S_BASES['mono'](m + 2)
            Xn = [[rng.uniform(-1, 1) for _ in range(d)] for _ in range(3)] + [[1.5] + [0.0] * (d - 1)]
            z = 2.5
            implg = impl_flat(lambda: tn.func_get(np.array(Xn), A, -1., 1., z=z, funcs=[big] * d))
            xs = '[' + '; '.join(f'({flist(x)}, {flist2([big(np.array([xk]))[:, 0].tolist() for xk in x])})' for x in Xn) + ']'
            one = flist([1.0] * d)
            mone = flist([-1.0] * d)
            items.append(dict(coq=f'f_get_custom {xs} {ftt(A)} {mone} {one} {flt(z)} true', impl=implg, exact=False,
                              input=['func_get_custom', d, m, n, Xn]))
    bad = approx_corr(R, 'general_lstsq_replayed', header, items, f_vals, 1e-10, 8, dist, exact=True)
    if dist['contract_violations']:
        R.corr.append(dict(name='lstsq_contract', cases=dist['contract_checked'], mismatches=dist['contract_violations'],
                           comparison='recorded scipy.linalg.lstsq calls: shape and zero residual on consistent data',
                           distribution={}, first_mismatches=[]))
    return bad


# ---------------------------------------------------------------------------------------------
# search: property-level oracle on the implementation, independent of the model
#   reference = numpy.polynomial.chebyshev (evaluation) and exact Fraction arithmetic (coefficients, integrals)
# ---------------------------------------------------------------------------------------------
from numpy.polynomial import chebyshev as NC  # noqa: E402
STOL = 1e-8


def s_nodes(n):
    return np.cos(np.pi * np.arange(n) / (n - 1))


def s_dense(Y):
    Z = np.asarray(Y[0])[0]
    for G in Y[1:]:
        Z = np.tensordot(Z, np.asarray(G), axes=([-1], [0]))
    return Z[..., 0]


def s_case(rng, d, ns, Rk, box='asym', coef_hi=3):
    coefs = [[[rng.randint(-coef_hi, coef_hi) for _ in range(ns[k])] for k in range(d)] for _ in range(Rk)]
    a, b = [], []
    for k in range(d):
        if box == 'sym':
            h = rng.choice([0.5, 1.0, 1.5, 2.0, 3.25])
            a.append(-h)
            b.append(h)
        elif box == 'unit':
            a.append(-1.0)
            b.append(1.0)
        else:
            lo = rng.choice([-3.0, -1.5, -1.0, 0.0, 0.25, 2.0])
            a.append(lo)
            b.append(lo + rng.choice([0.5, 1.0, 2.0, 2.75, 5.0]))
    return dict(d=d, ns=list(ns), coefs=coefs, a=a, b=b)


def s_poly(case, x):
    """p(x) for one point x (box coordinates)"""
    v = 0.0
    for term in case['coefs']:
        t = 1.0
        for k, c in enumerate(term):
            sk = (x[k] - (case['b'][k] + case['a'][k]) / 2) * 2 / (case['b'][k] - case['a'][k])
            t *= NC.chebval(sk, c)
        v += t
    return v


def s_poly_unit_grid(case, ms):
    """values of p on the Chebyshev grid with sizes ms (dense, by outer products)"""
    Z = 0
    for term in case['coefs']:
        t = np.ones(())
        for k, c in enumerate(term):
            t = np.multiply.outer(t, NC.chebval(s_nodes(ms[k]), c))
        Z = Z + t
    return Z


def s_coef(case):
    Z = 0
    for term in case['coefs']:
        t = np.ones(())
        for c in term:
            t = np.multiply.outer(t, np.array(c, dtype=float))
        Z = Z + t
    return Z


def s_integral(case):
    """exact integral over the box (Fractions): monomial coefficients of integer Chebyshev series are integers"""
    tot = Fr(0)
    for term in case['coefs']:
        t = Fr(1)
        for c in term:
            mono = NC.cheb2poly(np.array(c, dtype=float))
            t *= sum(Fr(int(round(cj))) * Fr(2, j + 1) for j, cj in enumerate(mono) if j % 2 == 0)
        tot += t
    for ak, bk in zip(case['a'], case['b']):
        tot *= (Fr(bk) - Fr(ak)) / 2
    return float(tot)


def s_tt(case):
    """values of p on the Chebyshev grid as a TT-tensor (one rank per product term)"""
    d, ns, Rk = case['d'], case['ns'], len(case['coefs'])
    F = [[NC.chebval(s_nodes(ns[k]), case['coefs'][al][k]) for k in range(d)] for al in range(Rk)]
    if d == 1:
        return [np.sum([F[al][0] for al in range(Rk)], axis=0).reshape(1, ns[0], 1)]
    Y = []
    for k in range(d):
        r1, r2 = (1 if k == 0 else Rk), (1 if k == d - 1 else Rk)
        G = np.zeros((r1, ns[k], r2))
        for al in range(Rk):
            G[0 if k == 0 else al, :, 0 if k == d - 1 else al] = F[al][k]
        Y.append(G)
    return Y


def s_cmp(what, case, got, exp, tol=STOL):
    got, exp = np.asarray(got, dtype=float), np.asarray(exp, dtype=float)
    if got.shape != exp.shape:
        return dict(what=what + ' (shape)', input=case, got=list(got.shape), expected=list(exp.shape))
    sc = max(1.0, float(np.max(np.abs(exp))) if exp.size else 1.0)
    if not np.all(np.isfinite(got)) or float(np.max(np.abs(got - exp))) > tol * sc if got.size else False:
        return dict(what=what, input=case, got=got.ravel().tolist()[:20], expected=exp.ravel().tolist()[:20])
    return None


def s_points(rng, case, k_in=3):
    a, b, d = case['a'], case['b'], case['d']
    P = []
    for _ in range(k_in):
        P.append(('in', [ak + (bk - ak) * rng.random() for ak, bk in zip(a, b)]))
    x = [ak + (bk - ak) * rng.random() for ak, bk in zip(a, b)]
    k = rng.randrange(d)
    x[k] = rng.choice([a[k], b[k]])
    P.append(('edge', x))
    P.append(('edge', [rng.choice([ak, bk]) for ak, bk in zip(a, b)]))
    for delta in [1e-3, 0.7, 50.0]:
        x = [ak + (bk - ak) * rng.random() for ak, bk in zip(a, b)]
        k = rng.randrange(d)
        x[k] = rng.choice([a[k] - delta, b[k] + delta])
        P.append(('out', x))
    return P


def chk_poly(tn, case):
    """all clauses for one polynomial / box / grid"""
    fails = []
    d, ns, a, b = case['d'], case['ns'], case['a'], case['b']
    Y = s_tt(case)
    cexp = s_coef(case)
    z = case.get('z', -7.25)
    pts = case['points']
    X = np.array([x for _, x in pts])
    yexp = np.array([s_poly(case, x) if m != 'out' else z for m, x in pts])
    ms = case['ms']
    gexp = s_poly_unit_grid(case, ms)
    integ = s_integral(case)
    sym = all(abs(abs(bk) - abs(ak)) <= 1e-16 for ak, bk in zip(a, b))

    def grab(what, f):
        try:
            return f()
        except Exception as e:  # noqa
            fails.append(dict(what=f'{what} raised {type(e).__name__}: {str(e)[:150]}', input=case))
            return None

    if d >= 2 or case.get('tt_d1'):
        A = grab('func_int', lambda: tn.func_int(Y))
        if A is not None:
            fails.append(s_cmp('func_int does not return the Chebyshev coefficients of the polynomial', case, s_dense(A), cexp))
            v = grab('func_get', lambda: tn.func_get(X, A, a, b, z=z))
            if v is not None:
                fails.append(s_cmp('func_get does not reproduce the polynomial inside the box / the fill value outside',
                                   case, v, yexp))
            Z = grab('func_gets', lambda: tn.func_gets(A, ms))
            if Z is not None:
                fails.append(s_cmp('func_gets does not give the polynomial on the new grid', case, s_dense(Z), gexp))
            Z = grab('func_gets(same grid)', lambda: tn.func_gets(A))
            if Z is not None:
                fails.append(s_cmp('re-sampling on the same grid does not invert func_int', case, s_dense(Z), s_dense(Y)))
            v = grab('func_sum', lambda: tn.func_sum(A, a, b))
            if v is not None:
                fails.append(s_cmp('func_sum is not the exact integral over the box', case, [v], [integ]))
    if d <= 3:
        Yd = s_dense(Y) if d > 1 else Y[0][0, :, 0]
        Ad = grab('func_int_full', lambda: tn.func_int_full(Yd))
        if Ad is not None:
            fails.append(s_cmp('func_int_full does not return the Chebyshev coefficients', case, Ad, cexp))
            v = grab('func_get_full', lambda: tn.func_get_full(X, Ad, a, b, z=z))
            if v is not None:
                fails.append(s_cmp('func_get_full does not reproduce the polynomial / fill value', case, v, yexp))
            Z = grab('func_gets_full', lambda: tn.func_gets_full(Ad, a, b, ms))
            if Z is not None:
                fails.append(s_cmp('func_gets_full does not give the polynomial on the new grid', case, Z, gexp))
            if sym:
                v = grab('func_sum_full', lambda: tn.func_sum_full(Ad, a, b))
                if v is not None:
                    fails.append(s_cmp('func_sum_full is not the exact integral over the symmetric box', case, [v], [integ]))
            else:
                try:
                    v = tn.func_sum_full(Ad, a, b)
                    fails.append(dict(what='func_sum_full accepted an asymmetric box', input=case, got=float(v),
                                      expected='ValueError'))
                except ValueError:
                    pass
                except Exception as e:  # noqa
                    fails.append(dict(what=f'func_sum_full on an asymmetric box raised {type(e).__name__}, not ValueError',
                                      input=case))
    return [f for f in fails if f]


def chk_diff(tn, case):
    """differentiation matrices: exact derivatives of a polynomial of degree < n at the nodes of [a, b]"""
    n, a, b, c = case['n'], case['a'], case['b'], case['c']
    x = s_nodes(n)
    y = NC.chebval(x, c)
    fails = []
    try:
        D1, D2 = tn.func_diff_matrix(a, b, n, 2)
        D = tn.func_diff_matrix(a, b, n)
    except Exception as e:  # noqa
        return [dict(what=f'func_diff_matrix raised {type(e).__name__}: {str(e)[:150]}', input=case)]
    l = 2 / (b - a)
    tol = 1e-7 * n ** 2
    fails.append(s_cmp('func_diff_matrix (m=1) does not differentiate a polynomial exactly at the nodes', case,
                       D @ y, NC.chebval(x, NC.chebder(c)) * l if n > 1 else [0.0], tol))
    fails.append(s_cmp('func_diff_matrix (m=2)[0] differs from the first-derivative matrix', case, D1, D, tol))
    fails.append(s_cmp('func_diff_matrix (m=2)[1] does not give the second derivative', case,
                       D2 @ y, NC.chebval(x, NC.chebder(c, 2)) * l * l if len(c) > 2 else np.zeros(n), tol * n))
    return [f for f in fails if f]


def chk_linear(tn, case):
    """linearity of the coefficient transform and the sine-kind pair, on arbitrary data"""
    rs = np.random.RandomState(case['seed'])
    ns, r = case['ns'], case['r']
    d = len(ns)

    def rnd():
        return [rs.uniform(-1, 1, size=(r[k], ns[k], r[k + 1])) for k in range(d)]
    Y1, Y2 = rnd(), rnd()
    al, be = case['al'], case['be']
    fails = []
    try:
        # alpha*Y1 + beta*Y2 as a TT (block structure), independent of teneva.add
        Ys = []
        for k in range(d):
            G1, G2 = Y1[k] * (al if k == 0 else 1), Y2[k] * (be if k == 0 else 1)
            if d == 1:
                Ys.append(G1 + G2)
            elif k == 0:
                Ys.append(np.concatenate([G1, G2], axis=2))
            elif k == d - 1:
                Ys.append(np.concatenate([G1, G2], axis=0))
            else:
                G = np.zeros((2 * r[k], ns[k], 2 * r[k + 1]))
                G[:r[k], :, :r[k + 1]] = G1
                G[r[k]:, :, r[k + 1]:] = G2
                Ys.append(G)
        for kind in ['cheb', 'sin']:
            A1, A2, As = tn.func_int(Y1, kind), tn.func_int(Y2, kind), tn.func_int(Ys, kind)
            fails.append(s_cmp(f'func_int(kind={kind}) is not linear', case, s_dense(As),
                               al * s_dense(A1) + be * s_dense(A2)))
            Z = tn.func_gets(A1, kind=kind)
            fails.append(s_cmp(f'func_gets(func_int(Y), kind={kind}) on the same grid is not Y', case, s_dense(Z), s_dense(Y1)))
        if d <= 3:
            Yd = s_dense(Y1)
            fails.append(s_cmp('func_int and func_int_full disagree', case, s_dense(tn.func_int(Y1)), tn.func_int_full(Yd)))
    except Exception as e:  # noqa
        fails.append(dict(what=f'linearity / inverse check raised {type(e).__name__}: {str(e)[:150]}', input=case))
    return [f for f in fails if f]


S_BASES = {
    'mono': lambda m: (lambda X: np.array([np.asarray(X, dtype=float) ** j for j in range(m)])),
    'shifted': lambda m: (lambda X: np.array([(np.asarray(X, dtype=float) - 1) ** j + (j % 2) for j in range(m)])),
    'cheb': lambda m: (lambda X: np.array([NC.chebval(np.asarray(X, dtype=float), [0] * j + [1]) for j in range(m)])),
    # badly scaled columns: (8 x)^j
    'mono8': lambda m: (lambda X: np.array([(8.0 * np.asarray(X, dtype=float)) ** j for j in range(m)])),
}


def cond_of(basis, X):
    sv = np.linalg.svd(basis(np.asarray(X, dtype=float)).T, compute_uv=False)
    return float(sv[0] / sv[-1]) if sv[-1] > 0 else float('inf')


# conditioning regime of func_int_general: scipy.linalg.lstsq(cond=1e-6) drops singular values below 1e-6 * sigma_max, so the
# unchanged code recovers the coefficients (to ~1e-10) only while cond(H) < 1e6 (measured: 8.5e5 -> 9e-11, 5.5e7 -> wrong).
# The conditioned family keeps 1e2 <= cond(H) <= 2e5.
COND_LO, COND_HI = 1e2, 2e5


def conditioned_cases(rng, k):
    """(basis name, m, sample points) with growing condition number inside the regime"""
    cand = []
    for m in (8, 10, 12):
        cand.append(('mono', m, [-1 + 2 * j / 15 for j in range(16)]))                       # degree <= 11 on 16 nodes
        cand.append(('mono', m, [float(np.cos(np.pi * (j + 0.5) / 16)) for j in range(16)]))
    for m in (4, 5, 6):
        cand.append(('mono', m, [1 + 3 * j / (m + 2) for j in range(m + 3)]))                # shifted box [1, 4]
        cand.append(('mono', m, [1 + 0.25 * j for j in range(13)]))
    for m in (2, 3):
        cand.append(('mono', m, [10 + j / (m + 2) for j in range(m + 3)]))                   # shifted box [10, 11]
    for m in (4, 5, 6):
        cand.append(('mono8', m, [-1 + 2 * j / (m + 1) for j in range(m + 2)]))              # badly scaled columns
        cand.append(('shifted', m, [2 + 0.5 * j for j in range(m + 2)]))
    cand = [(b, m, X) for b, m, X in cand if COND_LO <= cond_of(S_BASES[b](m), X) <= COND_HI]
    rng.shuffle(cand)
    return cand[:k]


def chk_general(tn, case):
    """custom basis fitted by least squares reproduces functions in its span (m <= n basis functions)"""
    d, ns, m, pts = case['d'], case['ns'], case['m'], case['X']
    basis = S_BASES[case['basis']](m)
    rs = np.random.RandomState(case['seed'])
    r = case['r']
    Cc = [rs.randint(-3, 4, size=(r[k], m, r[k + 1])).astype(float) for k in range(d)]   # coefficients
    fails = []
    try:
        Xs = [np.array(p, dtype=float) for p in pts]
        same = case['same_x']
        Y = [np.einsum('rjq,ji->riq', Cc[k], basis(Xs[0] if same else Xs[k])) for k in range(d)]
        Y0 = [G.copy() for G in Y]
        A = tn.func_int_general(Y, Xs[0] if same else np.array(Xs), basis)
        if any(not np.array_equal(G, G0) for G, G0 in zip(Y, Y0)):
            fails.append(dict(what='func_int_general overwrote the data it was given (the fitted interpolant no longer '
                                   'reproduces the tensor the caller holds)', input=case,
                              got=[float(np.max(np.abs(G - G0))) for G, G0 in zip(Y, Y0)], expected='input unchanged'))
        if [G.shape for G in A] != [G.shape for G in Cc]:
            fails.append(dict(what='func_int_general: wrong core shapes', input=case, got=[list(G.shape) for G in A],
                              expected=[list(G.shape) for G in Cc]))
        else:
            fails.append(s_cmp('func_int_general does not recover the coefficients of data in the span of the basis',
                               case, s_dense(A), s_dense(Cc), 1e-6))
            # evaluation with the custom basis at new points (inside the box [lo, hi] of the sample points)
            lo, hi = float(min(min(p) for p in pts)), float(max(max(p) for p in pts))
            Xn = rs.uniform(lo, hi, size=(5, d))
            v = tn.func_get(Xn, A, lo, hi, funcs=[basis] * d)
            exp = []
            for x in Xn:
                q = np.ones((1, 1))
                for k in range(d):
                    q = q @ np.einsum('rjq,j->rq', Cc[k], basis(np.array([x[k]]))[:, 0])
                exp.append(q[0, 0])
            fails.append(s_cmp('func_get with the custom basis does not reproduce the function', case, v, exp, 1e-6))
    except Exception as e:  # noqa
        fails.append(dict(what=f'func_int_general / custom basis raised {type(e).__name__}: {str(e)[:150]}', input=case))
    return [f for f in fails if f]


def s_ref_get(case, X, z):
    """reference for func_get / func_get_full, independent of the model: exact box test on the doubles (Fractions,
    threshold 1e-99), numpy.polynomial evaluation at the clipped scaled point"""
    a, b = case['a'], case['b']
    thr = Fr(1, 10 ** 99)
    out = []
    for x in X:
        if any(Fr(ak) - Fr(xk) > thr or Fr(xk) - Fr(bk) > thr for xk, ak, bk in zip(x, a, b)):
            out.append(float(z))
        else:
            xc = [min(max(float(xk), ak), bk) for xk, ak, bk in zip(x, a, b)]
            out.append(s_poly(case, xc))
    return np.array(out)


def chk_forms(tn, case):
    """argument forms: the same call with z / X / a, b / cores in other Python and NumPy types must return the same
    float64 values (TT and dense)"""
    fails = []
    d, ns, a, b = case['d'], case['ns'], case['a'], case['b']
    Af = s_tt_coef(case)
    Ad = s_coef(case)
    X = np.array(case['X'], dtype=float)
    zv = case['z']
    exp = s_ref_get(case, X, zv)
    Ai = [np.array(np.round(G), dtype=np.int64) for G in Af]
    Adi = np.array(np.round(Ad), dtype=np.int64)
    ints = all(float(v).is_integer() for v in list(a) + list(b))
    runs = []
    for fname, conv in Z_FORMS:
        runs.append((f'func_get(z as {fname})', lambda c=conv: tn.func_get(X, Af, a, b, z=c(zv)), exp))
        if d <= 3:
            runs.append((f'func_get_full(z as {fname})', lambda c=conv: tn.func_get_full(X, Ad, a, b, z=c(zv)), exp))
        runs.append((f'func_get(single point, z as {fname})', lambda c=conv: [tn.func_get(X[0].tolist(), Af, a, b, z=c(zv))],
                     exp[:1]))
    runs.append(('func_get(X as list)', lambda: tn.func_get(X.tolist(), Af, a, b, z=zv), exp))
    runs.append(('func_get(int64 cores, int z)', lambda: tn.func_get(X, Ai, a, b, z=int(zv)), exp))
    if d <= 3:
        runs.append(('func_get_full(int64 array, int z)', lambda: tn.func_get_full(X, Adi, a, b, z=int(zv)), exp))
    if ints:
        for fname, fa, fb in ab_forms([int(v) for v in a], [int(v) for v in b]):
            runs.append((f'func_get(a, b as {fname})', lambda fa=fa, fb=fb: tn.func_get(X, Af, fa, fb, z=zv), exp))
            if d <= 3:
                runs.append((f'func_get_full(a, b as {fname})', lambda fa=fa, fb=fb: tn.func_get_full(X, Ad, fa, fb, z=zv), exp))
    Xi = case.get('Xint')
    if Xi:
        Xia = np.array(Xi, dtype=np.int64)
        expi = s_ref_get(case, Xia.astype(float), zv)
        runs.append(('func_get(X as int64 array, int z)', lambda: tn.func_get(Xia, Af, a, b, z=int(zv)), expi))
        if d <= 3:
            runs.append(('func_get_full(X as int64 array, int z)', lambda: tn.func_get_full(Xia, Ad, a, b, z=int(zv)), expi))
    for what, f, e in runs:
        try:
            v = f()
        except Exception as ex:  # noqa
            fails.append(dict(what=f'{what} raised {type(ex).__name__}: {str(ex)[:120]}', input=case))
            continue
        va = np.asarray(v)
        if va.dtype.kind != 'f':
            fails.append(dict(what=f'{what} returned dtype {va.dtype} (interpolated values truncated to integers)', input=case,
                              got=va.ravel().tolist()[:10], expected=np.asarray(e).ravel().tolist()[:10]))
            continue
        fails.append(s_cmp(f'{what} differs from the polynomial / fill value', case, va.ravel(), e))
    return [f for f in fails if f]


def s_tt_coef(case):
    """coefficient TT-tensor (one rank per product term) of the polynomial of the case"""
    d, ns, Rk = case['d'], case['ns'], len(case['coefs'])
    if d == 1:
        return [np.sum([np.array(case['coefs'][al][0], dtype=float) for al in range(Rk)], axis=0).reshape(1, ns[0], 1)]
    Y = []
    for k in range(d):
        r1, r2 = (1 if k == 0 else Rk), (1 if k == d - 1 else Rk)
        G = np.zeros((r1, ns[k], r2))
        for al in range(Rk):
            G[0 if k == 0 else al, :, 0 if k == d - 1 else al] = case['coefs'][al][k]
        Y.append(G)
    return Y


def chk_edges(tn, case):
    """points just outside / on / inside the faces of the box, tiny and huge boxes: func_get and func_get_full give the
    fill value exactly when a coordinate leaves the box by more than 1e-99, and agree with each other"""
    fails = []
    a, b, zv = case['a'], case['b'], case['z']
    X = np.array([[float.fromhex(v) for v in x] for x in case['Xhex']])
    Af, Ad = s_tt_coef(case), s_coef(case)
    exp = s_ref_get(case, X, zv)
    got = {}
    for what, f in [('func_get', lambda: tn.func_get(X, Af, a, b, z=zv)),
                    ('func_get_full', lambda: tn.func_get_full(X, Ad, a, b, z=zv))]:
        try:
            got[what] = np.asarray(f(), dtype=float)
        except Exception as ex:  # noqa
            fails.append(dict(what=f'{what} raised {type(ex).__name__}: {str(ex)[:120]}', input=case))
            continue
        bad = [i for i in range(len(X)) if abs(got[what][i] - exp[i]) > 1e-7 * max(1.0, abs(exp[i]))]
        if bad:
            i = bad[0]
            fails.append(dict(what=f'{what}: wrong value at a point {case["labels"][i]} of the box (fill value iff a '
                                   f'coordinate is outside by more than 1e-99)', input=dict(case, first_bad=i, x=X[i].tolist()),
                              got=[float(got[what][j]) for j in bad[:8]], expected=[float(exp[j]) for j in bad[:8]]))
    if len(got) == 2:
        bad = [i for i in range(len(X)) if abs(got['func_get'][i] - got['func_get_full'][i]) >
               1e-7 * max(1.0, abs(got['func_get'][i]))]
        if bad:
            i = bad[0]
            fails.append(dict(what=f'func_get and func_get_full disagree at a point {case["labels"][i]} of the box',
                              input=dict(case, first_bad=i, x=X[i].tolist()),
                              got=[float(got['func_get'][j]) for j in bad[:8]],
                              expected=[float(got['func_get_full'][j]) for j in bad[:8]]))
    return fails


def _flat(v):
    if isinstance(v, list):
        return np.concatenate([np.asarray(G, dtype=float).ravel() for G in v]) if v else np.zeros(0)
    return np.asarray(v, dtype=float).ravel()


def chk_history(tn, case):
    """2-3 interleaved calls of every routine on the SAME argument objects: every call must give, bit for bit, what the
    routine gives on fresh copies of the saved originals, must satisfy the property, and must leave every argument object
    byte-identical"""
    fails = []
    d, ns, a, b = case['d'], case['ns'], case['a'], case['b']
    rs = np.random.RandomState(case['seed'])
    basis = S_BASES[case['basis']](case['gm'])
    Xg = np.array(case['Xg'], dtype=float)
    Cg = [rs.randint(-3, 4, size=(r1, case['gm'], r2)).astype(float)
          for r1, r2 in zip([1] + [2] * (d - 1), [2] * (d - 1) + [1])]
    sh = dict(Y=s_tt(case), X=np.array([x for _, x in case['points']]), a=np.array(a, dtype=float),
              b=np.array(b, dtype=float), ms=list(case['ms']), Xg=Xg,
              Yg=[np.einsum('rjq,ji->riq', G, basis(Xg)) for G in Cg],
              sb=np.array([abs(v) + 0.5 for v in b]), funcs=[basis] * d)
    sh['sa'] = -sh['sb']
    sh['Yd'] = s_dense(sh['Y']) if d > 1 else sh['Y'][0][0, :, 0].copy()
    arr_keys = [k for k in sh if k != 'funcs']
    saved = {k: _copy(sh[k]) for k in arr_keys}
    z = -7.25
    cexp, integ = s_coef(case), s_integral(case)
    yexp = s_ref_get(case, sh['X'], z)

    def dense(v):
        if isinstance(v, list) and v and isinstance(v[0], np.ndarray) and v[0].ndim == 3:
            return s_dense(v) if len(v) > 1 else v[0][0, :, 0]
        return v

    def step(name, f, uses, expect=None, tol=STOL):
        """f(args dict) -> result; compare with f(fresh copies); optional property value"""
        try:
            got = f(sh)
            fresh = {k: (_copy(saved[k]) if k in saved else sh[k]) for k in sh}
            ref = f(fresh)
        except Exception as ex:  # noqa
            fails.append(dict(what=f'history: {name} raised {type(ex).__name__}: {str(ex)[:120]}', input=case))
            return None
        g, r = _flat(got), _flat(ref)
        if g.shape != r.shape or (g.tobytes() != r.tobytes() and not np.array_equal(g, r)):
            fails.append(dict(what=f'history: {name} on reused argument objects differs from the same call on fresh copies',
                              input=case, got=g.tolist()[:10], expected=r.tolist()[:10]))
        if expect is not None:
            fails.append(s_cmp(f'history: {name} violates the property', case, _flat(dense(got)), _flat(expect), tol))
        changed = [k for k in saved if not _same(sh[k], saved[k])]
        if changed:
            fails.append(dict(what=f'history: {name} modified its argument object(s) {changed}', input=case,
                              got=[float(np.max(np.abs(_flat(sh[k]) - _flat(saved[k])))) for k in changed],
                              expected='arguments bit-identical after the call'))
            for k in changed:
                sh[k] = _copy(saved[k])
        return got

    A = step('func_int #1', lambda o: tn.func_int(o['Y']), 'Y')
    if A is None:
        return [f for f in fails if f]
    fails.append(s_cmp('history: func_int #1 does not return the coefficients', case, s_dense(A) if d > 1 else A[0][0, :, 0], cexp))
    sh['A'] = A
    saved['A'] = _copy(A)
    step('func_gets(new grid) #1', lambda o: tn.func_gets(o['A'], o['ms']), 'A', s_poly_unit_grid(case, case['ms']))
    step('func_int #2', lambda o: tn.func_int(o['Y']), 'Y', dense(A), 0.0)
    step('func_get #1', lambda o: tn.func_get(o['X'], o['A'], o['a'], o['b'], z=z), 'XAab', yexp)
    step('func_sum #1', lambda o: [tn.func_sum(o['A'], o['a'], o['b'])], 'Aab', [integ])
    step('func_gets(same grid)', lambda o: tn.func_gets(o['A']), 'A', dense(saved['Y']))
    step('func_get #2', lambda o: tn.func_get(o['X'], o['A'], o['a'], o['b'], z=z), 'XAab', yexp)
    As = step('func_int(sin) #1', lambda o: tn.func_int(o['Y'], 'sin'), 'Y')
    if As is not None:
        sh['As'] = As
        saved['As'] = _copy(As)
        step('func_gets(sin, same grid)', lambda o: tn.func_gets(o['As'], kind='sin'), 'As', dense(saved['Y']))
        step('func_int(sin) #2', lambda o: tn.func_int(o['Y'], 'sin'), 'Y', dense(As), 0.0)
    step('func_sum #2', lambda o: [tn.func_sum(o['A'], o['a'], o['b'])], 'Aab', [integ])
    step('func_gets(new grid) #2', lambda o: tn.func_gets(o['A'], o['ms']), 'A', s_poly_unit_grid(case, case['ms']))
    step('func_diff_matrix #1', lambda o: tn.func_diff_matrix(o['a'][0], o['b'][0], ns[0], 2), 'ab')
    step('func_diff_matrix #2', lambda o: tn.func_diff_matrix(o['a'][0], o['b'][0], ns[0], 2), 'ab')
    Ag = step('func_int_general #1', lambda o: tn.func_int_general(o['Yg'], o['Xg'], basis), 'YgXg', dense(Cg), 1e-6)
    step('func_int_general #2', lambda o: tn.func_int_general(o['Yg'], o['Xg'], basis), 'YgXg', dense(Cg), 1e-6)
    if Ag is not None:
        sh['Ag'] = Ag
        saved['Ag'] = _copy(Ag)
        lo, hi = float(np.min(Xg)), float(np.max(Xg))
        Xn = lo + (hi - lo) * rs.uniform(0.05, 0.95, size=(3, d))
        sh['Xn'] = Xn
        saved['Xn'] = _copy(Xn)
        exp = []
        for x in Xn:
            q = np.ones((1, 1))
            for k in range(d):
                q = q @ np.einsum('rjq,j->rq', Cg[k], basis(np.array([x[k]]))[:, 0])
            exp.append(q[0, 0])
        for t in (1, 2):
            step(f'func_get(custom basis) #{t}', lambda o: tn.func_get(o['Xn'], o['Ag'], lo, hi, funcs=o['funcs']), 'XnAg', exp, 1e-6)
        step('func_int_general #3', lambda o: tn.func_int_general(o['Yg'], o['Xg'], basis), 'YgXg', dense(Cg), 1e-6)
    if d <= 3:
        Ad = step('func_int_full #1', lambda o: tn.func_int_full(o['Yd']), 'Yd', cexp)
        if Ad is not None:
            sh['Ad'] = Ad
            saved['Ad'] = _copy(Ad)
            step('func_get_full #1', lambda o: tn.func_get_full(o['X'], o['Ad'], o['a'], o['b'], z=z), 'XAdab', yexp)
            step('func_int_full #2', lambda o: tn.func_int_full(o['Yd']), 'Yd', cexp)
            step('func_gets_full', lambda o: tn.func_gets_full(o['Ad'], o['a'], o['b'], o['ms']), 'Adabms',
                 s_poly_unit_grid(case, case['ms']))
            sint = [s_integral(dict(case, a=sh['sa'].tolist(), b=sh['sb'].tolist()))]
            step('func_sum_full #1', lambda o: [tn.func_sum_full(o['Ad'], o['sa'], o['sb'])], 'Adsasb', sint)
            step('func_get_full #2', lambda o: tn.func_get_full(o['X'], o['Ad'], o['a'], o['b'], z=z), 'XAdab', yexp)
            step('func_sum_full #2', lambda o: [tn.func_sum_full(o['Ad'], o['sa'], o['sb'])], 'Adsasb', sint)
    step('func_get #3', lambda o: tn.func_get(o['X'], o['A'], o['a'], o['b'], z=z), 'XAab', yexp)
    return [f for f in fails if f]


def chk_scales(tn, case):
    """exact power-of-two rescalings commute bit for bit with every (linear) routine; boxes with huge / tiny / offset
    bounds give the unit-box results (scaled by the exact volume / chain-rule factors)"""
    fails = []
    d, ns = case['d'], case['ns']
    unit = dict(case, a=[-1.0] * d, b=[1.0] * d)
    Y = s_tt(case)
    A0 = tn.func_int(Y)
    F = np.array(case['fracs'])                        # points as fractions of the box
    Xu = -1.0 + 2.0 * F
    ms = case['ms']
    z = -7.25

    def eq(what, got, exp, exact=True, tol=1e-12):
        g, e = _flat(got), _flat(exp)
        if g.shape != e.shape:
            fails.append(dict(what=what + ' (shape)', input=case, got=list(g.shape), expected=list(e.shape)))
        elif exact and g.tobytes() != e.tobytes() and not np.array_equal(g, e):
            fails.append(dict(what=what, input=case, got=g.tolist()[:10], expected=e.tolist()[:10]))
        elif not exact:
            sc = float(np.max(np.abs(e))) if e.size else 0.0
            if not np.all(np.isfinite(g)) or (e.size and float(np.max(np.abs(g - e))) > tol * sc):
                fails.append(dict(what=what, input=case, got=g.tolist()[:10], expected=e.tolist()[:10]))

    def grab(what, f):
        try:
            return f()
        except Exception as ex:  # noqa
            fails.append(dict(what=f'{what} raised {type(ex).__name__}: {str(ex)[:120]}', input=case))
            return None

    base = dict(get=tn.func_get(Xu, A0, -1., 1., z=z), gets=tn.func_gets(A0, ms), sum=tn.func_sum(A0, -1., 1.))
    if d <= 3:
        Yd = s_dense(Y) if d > 1 else Y[0][0, :, 0]
        Ad0 = tn.func_int_full(Yd)
        base.update(getf=tn.func_get_full(Xu, Ad0, -1., 1., z=z), sumf=tn.func_sum_full(Ad0, -1., 1.),
                    getsf=tn.func_gets_full(Ad0, -1., 1., ms))
    for e, which in case['vscales']:
        sc = [2.0 ** e if (which == 'all' or j == which) else 1.0 for j in range(d)]
        tot = float(np.prod(sc))
        Ys = [G * s for G, s in zip(Y, sc)]
        tag = f'values * 2^{e} ({"every core" if which == "all" else "core %d" % which})'
        As = grab(f'func_int, {tag}', lambda: tn.func_int(Ys))
        if As is None:
            continue
        eq(f'func_int does not commute with the rescaling: {tag}', As, [G * s for G, s in zip(A0, sc)])
        zin = z * tot
        v = grab(f'func_get, {tag}', lambda: tn.func_get(Xu, As, -1., 1., z=zin))
        if v is not None:
            eq(f'func_get does not commute with the rescaling: {tag}', v, base['get'] * tot)
        v = grab(f'func_gets, {tag}', lambda: tn.func_gets(As, ms))
        if v is not None:
            eq(f'func_gets does not commute with the rescaling: {tag}', v, [G * s for G, s in zip(base['gets'], sc)])
        v = grab(f'func_sum, {tag}', lambda: tn.func_sum(As, -1., 1.))
        if v is not None:
            eq(f'func_sum does not commute with the rescaling: {tag}', [v], [base['sum'] * tot])
        if d <= 3:
            Ads = grab(f'func_int_full, {tag}', lambda: tn.func_int_full(Yd * tot))
            if Ads is not None:
                eq(f'func_int_full does not commute with the rescaling: {tag}', Ads, Ad0 * tot)
                v = grab(f'func_get_full, {tag}', lambda: tn.func_get_full(Xu, Ads, -1., 1., z=zin))
                if v is not None:
                    eq(f'func_get_full does not commute with the rescaling: {tag}', v, base['getf'] * tot)
                v = grab(f'func_sum_full, {tag}', lambda: tn.func_sum_full(Ads, -1., 1.))
                if v is not None:
                    eq(f'func_sum_full does not commute with the rescaling: {tag}', [v], [base['sumf'] * tot])
    for name, a, b in case['boxes']:
        X = np.array([[ak + (bk - ak) * f for ak, bk, f in zip(a, b, row)] for row in F])
        bc = dict(case, a=a, b=b)
        exp = s_ref_get(bc, X, z)
        vol = float(np.prod([(bk - ak) / 2 for ak, bk in zip(a, b)]))
        v = grab(f'func_get, box {name}', lambda: tn.func_get(X, A0, a, b, z=z))
        if v is not None:
            eq(f'func_get wrong on the box {name}', v, exp, False, 1e-9)
            eq(f'func_get on the box {name} differs from the unit box at the same relative positions', v, base['get'], False)
        v = grab(f'func_sum, box {name}', lambda: tn.func_sum(A0, a, b))
        if v is not None:
            eq(f'func_sum on the box {name} is not volume/2^d times the unit-box value', [v], [base['sum'] * vol], False)
        if d <= 3:
            v = grab(f'func_get_full, box {name}', lambda: tn.func_get_full(X, Ad0, a, b, z=z))
            if v is not None:
                eq(f'func_get_full wrong on the box {name}', v, exp, False, 1e-9)
            if all(ak == -bk for ak, bk in zip(a, b)):
                v = grab(f'func_sum_full, box {name}', lambda: tn.func_sum_full(Ad0, a, b))
                if v is not None:
                    eq(f'func_sum_full on the box {name} is not volume/2^d times the unit-box value', [v],
                       [base['sumf'] * vol], False)
        n0 = ns[0]
        Du = tn.func_diff_matrix(-1., 1., n0, 2)
        Db = grab(f'func_diff_matrix, box {name}', lambda: tn.func_diff_matrix(a[0], b[0], n0, 2))
        if Db is not None:
            l = 2.0 / (b[0] - a[0])
            eq(f'func_diff_matrix on the box {name} is not the unit-box matrix times (2/(b-a))^k', Db,
               [Du[0] * l, Du[1] * (l * l)], False)
    # sine kind on a one-point grid (m = 1): sum_i A_i sin((i+1) pi/2) per mode
    As = tn.func_int(Y, 'sin')
    v = grab('func_gets(kind=sin, m=1)', lambda: tn.func_gets(As, 1, 'sin'))
    if v is not None:
        exp = [np.einsum('riq,i->rq', G, np.sin(np.pi / 2 * np.arange(1, G.shape[1] + 1)))[:, None, :] for G in As]
        eq('func_gets(kind=sin) on the one-point grid m = 1', v, exp, False, 1e-12)
    return fails


def chk_options(tn, case):
    """func_get with every combination of explicit / omitted a, b, z, skip_out (batch and single point) and
    func_get_full with optional z, skip_out: explicit flags are honoured, defaults are a = -1, b = 1, z = 0,
    skip_out = (both bounds given) for func_get and True for func_get_full"""
    fails = []
    d = case['d']
    Af, Ad = s_tt_coef(case), s_coef(case)
    ax, bx, zx = case['ax'], case['bx'], case['zx']
    for a_given in (False, True):
        for b_given in (False, True):
            ae = ax if a_given else [-1.0] * d
            be = bx if b_given else [1.0] * d
            bc = dict(case, a=ae, b=be)
            X = np.array([[ak + (bk - ak) * f for ak, bk, f in zip(ae, be, row)] for row in case['fr']])
            for z_given in (False, True):
                for sk in ('omit', None, True, False):
                    kw = {}
                    if a_given:
                        kw['a'] = list(ax)
                    if b_given:
                        kw['b'] = list(bx)
                    if z_given:
                        kw['z'] = zx
                    if sk != 'omit':
                        kw['skip_out'] = sk
                    skip_eff = sk if sk in (True, False) else (a_given and b_given)
                    zz = zx if z_given else 0.0
                    exp = s_ref_get(bc, X, zz) if skip_eff else np.array([s_poly(bc, [min(max(v, p), q) for v, p, q in zip(x, ae, be)]) for x in X])
                    tag = 'func_get(' + ', '.join(f'{k}={"..." if k in "ab" else v}' for k, v in kw.items()) + ')'
                    for single in (False, True):
                        try:
                            v = [tn.func_get(x.tolist(), Af, **kw) for x in X] if single else tn.func_get(X, Af, **kw)
                        except Exception as ex:  # noqa
                            fails.append(dict(what=f'{tag} raised {type(ex).__name__}: {str(ex)[:100]}', input=case))
                            continue
                        f = s_cmp(f'{tag}{" [single points]" if single else ""}: wrong values (effective box '
                                  f'{"given" if a_given else "default"} a / {"given" if b_given else "default"} b; points '
                                  f'outside must get z = {zz} iff skip_out is in force = {skip_eff})', case, v, exp)
                        if f:
                            f['input'] = dict(case, X=X.tolist(), kwargs={k: (v if k not in 'ab' else list(v)) for k, v in kw.items()})
                            fails.append(f)
    if d <= 3:
        bc = dict(case, a=ax, b=bx)
        X = np.array([[ak + (bk - ak) * f for ak, bk, f in zip(ax, bx, row)] for row in case['fr']])
        for z_given in (False, True):
            for sk in ('omit', True, False):
                kw = {}
                if z_given:
                    kw['z'] = zx
                if sk != 'omit':
                    kw['skip_out'] = sk
                zz = zx if z_given else 0.0
                exp = s_ref_get(bc, X, zz) if sk in ('omit', True) else np.array([s_poly(bc, [min(max(v, p), q) for v, p, q in zip(x, ax, bx)]) for x in X])
                try:
                    v = tn.func_get_full(X, Ad, ax, bx, **kw)
                    fails.append(s_cmp(f'func_get_full(a, b, {kw}): wrong values', case, v, exp))
                except Exception as ex:  # noqa
                    fails.append(dict(what=f'func_get_full(a, b, {kw}) raised {type(ex).__name__}: {str(ex)[:100]}', input=case))
    return [f for f in fails if f]


def chk_gboxes(tn, case):
    """general boxes (non-dyadic, asymmetric, negative, tiny / huge width): every routine taking a, b; points on the faces
    and on the grid nodes; re-sampling TT vs dense; inversion on the same grid"""
    fails = []
    d, ns, ms = case['d'], case['ns'], case['ms']
    Y = s_tt(dict(case, a=[-1.0] * d, b=[1.0] * d))        # values on the grid (box independent in scaled coordinates)
    A = tn.func_int(Y)
    Yd = s_dense(Y) if d > 1 else Y[0][0, :, 0]
    Ad = tn.func_int_full(Yd) if d <= 3 else None
    z = -7.25
    gexp = s_poly_unit_grid(case, ms)
    for name, a, b in case['boxes']:
        bc = dict(case, a=a, b=b, box=name)
        I = np.array(list(itertools.islice(itertools.product(*[range(n) for n in ns]), 60)))
        Xn = tn.ind_to_poi(I, np.array(a), np.array(b), np.array(ns), 'cheb')
        rs = np.random.RandomState(case['seed'])
        Xr = np.array(a) + (np.array(b) - np.array(a)) * rs.uniform(size=(4, d))
        Xf = []
        for k in range(d):
            for bound in (a[k], b[k]):
                x = Xr[rs.randint(4)].copy()
                x[k] = bound
                Xf.append(x)
        X = np.vstack([Xr, np.array(Xf), np.array([a, b]), Xn])
        exp = s_ref_get(bc, X, z)

        def run(what, f, e, tol=STOL):
            try:
                v = f()
            except Exception as ex:  # noqa
                fails.append(dict(what=f'{what} on the box {name} raised {type(ex).__name__}: {str(ex)[:100]}', input=bc))
                return None
            fails.append(s_cmp(f'{what} wrong on the box {name} [{a}, {b}]', bc, v, e, tol))
            return np.asarray(v, dtype=float)
        g1 = run('func_get (inside / faces / corners / grid nodes)', lambda: tn.func_get(X, A, a, b, z=z), exp)
        vol = float(np.prod([abs(bk - ak) / 2 for ak, bk in zip(a, b)]))
        run('func_sum', lambda: [tn.func_sum(A, a, b)], [s_integral(bc)], STOL * max(1.0, vol))
        Zt = run('func_gets (new grid)', lambda: s_dense(tn.func_gets(A, ms)) if d > 1 else tn.func_gets(A, ms)[0][0, :, 0], gexp)
        if Ad is not None:
            g2 = run('func_get_full (inside / faces / corners / grid nodes)', lambda: tn.func_get_full(X, Ad, a, b, z=z), exp)
            if g1 is not None and g2 is not None:
                fails.append(s_cmp(f'func_get and func_get_full disagree on the box {name}', bc, g1, g2))
            Zd = run('func_gets_full(A, a, b, m) (new grid)', lambda: tn.func_gets_full(Ad, a, b, ms), gexp)
            run('func_gets_full(A, a, b) (same grid: must invert func_int_full)', lambda: tn.func_gets_full(Ad, a, b), Yd)
            if Zt is not None and Zd is not None:
                fails.append(s_cmp(f'func_gets and func_gets_full disagree on the box {name}', bc, Zd, Zt))
            if all(ak == -bk for ak, bk in zip(a, b)):
                run('func_sum_full', lambda: [tn.func_sum_full(Ad, a, b)], [s_integral(bc)], STOL * max(1.0, vol))
    return [f for f in fails if f]


S_CHECKS = dict(poly=chk_poly, diff=chk_diff, linear=chk_linear, general=chk_general, forms=chk_forms,
                edges=chk_edges, history=chk_history, scales=chk_scales, options=chk_options, gboxes=chk_gboxes)


def s_cases(rng, deep):
    cases = []

    def poly(d, ns, Rk, box, **kw):
        c = s_case(rng, d, ns, Rk, box)
        c['points'] = s_points(rng, c)
        c['ms'] = [rng.randint(2, 9) for _ in range(d)]
        c.update(kw)
        cases.append(('poly', c))
    # degenerate families first
    poly(2, [2, 2], 1, 'asym')
    poly(2, [2, 5], 1, 'sym')
    poly(1, [4], 2, 'asym')
    poly(1, [2], 1, 'sym')
    poly(2, [3, 3], 2, 'unit')
    poly(3, [2, 3, 4], 3, 'asym')
    poly(2, [12, 11], 2, 'asym')
    poly(5, [3, 2, 4, 2, 3], 2, 'asym')
    c = s_case(rng, 3, [3, 4, 3], 1, 'asym', coef_hi=0)          # the zero polynomial
    c['points'], c['ms'] = s_points(rng, c), [2, 3, 4]
    cases.append(('poly', c))
    # argument forms (integer boxes so that every form of a, b denotes the same box)
    for rep in range(8 if deep else 3):
        d = rng.choice([2, 3, 4]) if rep else 2
        ns = [rng.randint(2, 6) for _ in range(d)]
        c = s_case(rng, d, ns, rng.randint(1, 2), 'unit')
        if rep % 2:
            lo, hi = rng.randint(-3, 0), rng.randint(1, 4)
            c['a'], c['b'] = [float(lo)] * d, [float(hi)] * d
        else:
            c['a'] = [float(rng.randint(-3, 0)) for _ in range(d)]
            c['b'] = [float(rng.randint(1, 4)) for _ in range(d)]
        c['X'] = [x for _, x in s_points(rng, c)]
        c['Xint'] = [[rng.randint(int(ak) - 1, int(bk) + 1) for ak, bk in zip(c['a'], c['b'])] for _ in range(4)]
        c['z'] = rng.choice([-1, 2, 0, 7])
        cases.append(('forms', c))
    # box edges: tiny distances beyond every face, tiny and huge boxes
    for rep in range(3 if deep else 1):
        d = rng.choice([2, 3]) if rep else 2
        ns = [rng.randint(2, 5) for _ in range(d)]
        for name, a, b in edge_boxes(rng, d):
            c = s_case(rng, d, ns, rng.randint(1, 2), 'unit')
            c['a'], c['b'], c['box'] = a, b, name
            P = edge_points(rng, a, b)
            c['labels'] = [lab for lab, _ in P]
            c['Xhex'] = [[float(v).hex() for v in x] for _, x in P]
            c['z'] = -7.25
            cases.append(('edges', c))
    # option interactions and general boxes
    for rep in range(4 if deep else 2):
        d = [2, 3, 1, 4][rep % 4]
        ns = [rng.randint(2, 5) for _ in range(d)]
        c = s_case(rng, d, ns, rng.randint(1, 2), 'unit')
        c['ax'] = [-rng.choice([0.5, 1.5, 2.0, 0.7]) for _ in range(d)]
        c['bx'] = [rng.choice([0.5, 1.0, 2.5, 0.9]) for _ in range(d)]
        c['zx'] = rng.choice([-3.5, 4.5, 7.0])
        fr = [[rng.choice([0.125, 0.5, 0.625, 0.875]) for _ in range(d)] for _ in range(2)] + [[1.0] * d, [0.0] + [0.5] * (d - 1)]
        for f in (1.25, -0.5, 3.0):
            row = [rng.choice([0.25, 0.75]) for _ in range(d)]
            row[rng.randrange(d)] = f
            fr.append(row)
        c['fr'] = fr
        cases.append(('options', c))
    for rep in range(4 if deep else 2):
        d = [2, 1, 3, 4][rep % 4]
        ns = [rng.randint(2, 7 if d <= 2 else 4) for _ in range(d)]
        c = s_case(rng, d, ns, rng.randint(1, 2), 'unit')
        c['ms'] = [rng.randint(2, 6 if d <= 3 else 3) for _ in range(d)]
        c['boxes'] = general_boxes(rng, d, 6 if deep else 4)
        c['seed'] = rng.randrange(10 ** 6)
        cases.append(('gboxes', c))
    # histories: the same argument objects across interleaved calls
    for rep in range(6 if deep else 2):
        d = [2, 3, 4, 2, 3, 2][rep % 6]
        ns = [rng.randint(2, 6) for _ in range(d)]
        c = s_case(rng, d, ns, rng.randint(1, 2), 'asym')
        c['points'] = s_points(rng, c)
        c['ms'] = [rng.randint(2, 6) for _ in range(d)]
        gm = rng.randint(1, 4)
        gn = rng.choice([gm, gm, gm + 2])               # as many basis functions as points, or fewer
        c.update(seed=rng.randrange(10 ** 6), basis=rng.choice(list(S_BASES)), gm=gm,
                 Xg=[round(-1 + 2 * (j + 0.5 * rng.random()) / gn, 3) for j in range(gn)])
        cases.append(('history', c))
    # scales: power-of-two rescalings of the values, huge / tiny / offset boxes; degenerate shapes
    for rep in range(5 if deep else 2):
        d = [2, 1, 3, 2, 4][rep % 5]
        ns = [2] * d if rep == 2 else [rng.randint(2, 6) for _ in range(d)]
        c = s_case(rng, d, ns, rng.randint(1, 2), 'unit')
        c['ms'] = [rng.randint(2, 6) for _ in range(d)]
        c['fracs'] = [[rng.choice([0.25, 0.5, 0.75]) for _ in range(d)] for _ in range(3)] + [[1.0] * d, [0.0] * d]
        c['vscales'] = [(500, rng.randrange(d)), (-500, rng.randrange(d)), (200, 'all'), (-200, 'all'), (900, 0), (-900, 0)]
        h = 2.0 ** 300
        c['boxes'] = [('+-2^300', [-h] * d, [h] * d), ('+-2^-300', [-1 / h] * d, [1 / h] * d),
                      ('[2^30, 2^30+2^-20]', [2.0 ** 30] * d, [2.0 ** 30 + 2.0 ** -20] * d),
                      ('mixed', [-h] + [2.0 ** 30] * (d - 1), [h] + [2.0 ** 30 + 2.0 ** -20] * (d - 1))]
        if d > 2:   # the volume 2^(300 d) must stay representable
            c['boxes'] = [bx for bx in c['boxes'] if bx[0] != '+-2^300' or d <= 3]
        cases.append(('scales', c))
    # degenerate shapes through the full polynomial check: n_k = 2 everywhere, d = 1 (TT and dense), rank 1
    poly(3, [2, 2, 2], 2, 'asym')
    poly(1, [2], 1, 'asym', tt_d1=True)
    poly(1, [5], 2, 'sym', tt_d1=True)
    poly(4, [2, 3, 2, 2], 1, 'asym')
    for _ in range(60 if deep else 14):
        d = rng.choice([1, 2, 2, 3, 3, 4])
        ns = [rng.randint(2, 9 if d <= 3 else 5) for _ in range(d)]
        poly(d, ns, rng.randint(1, 3), rng.choice(['asym', 'asym', 'sym', 'unit']))
    for n in ([2, 3, 4, 5, 8, 12] if not deep else range(2, 15)):
        lo = rng.choice([-1.0, -2.5, 0.5])
        cases.append(('diff', dict(n=n, a=lo, b=lo + rng.choice([2.0, 0.5, 3.0]),
                                   c=[rng.randint(-3, 3) for _ in range(n)])))
    for _ in range(20 if deep else 5):
        d = rng.choice([1, 2, 3])
        ns = [rng.randint(2, 8) for _ in range(d)]
        r = [1] + [rng.randint(1, 3) for _ in range(d - 1)] + [1]
        cases.append(('linear', dict(ns=ns, r=r, seed=rng.randrange(10 ** 6), al=rng.choice([2.0, -0.5, 3.0]),
                                     be=rng.choice([1.0, -1.5, 0.25]))))
    for bname, m, X in conditioned_cases(rng, 10 if deep else 4):
        d = rng.choice([2, 3])
        r = [1] + [rng.randint(1, 2) for _ in range(d - 1)] + [1]
        cases.append(('general', dict(d=d, ns=[len(X)] * d, m=m, X=[list(X)] * d, same_x=True, basis=bname,
                                      seed=rng.randrange(10 ** 6), r=r, cond=cond_of(S_BASES[bname](m), X))))
    for _ in range(24 if deep else 8):
        d = rng.choice([2, 2, 3])
        m = rng.randint(1, 4)
        same = rng.random() < 0.5
        n0 = rng.choice([m, m + 1, m + 3])
        ns = [n0 if same else rng.choice([m, m + 1, m + 3]) for _ in range(d)]
        if not same:
            ns = [ns[0]] * d    # a 2-D array X needs equal lengths
        X = [[round(-1 + 2 * (j + 0.5 * rng.random()) / ns[k], 3) for j in range(ns[k])] for k in range(d)]
        r = [1] + [rng.randint(1, 3) for _ in range(d - 1)] + [1]
        cases.append(('general', dict(d=d, ns=ns, m=m, X=X, same_x=same, basis=rng.choice(list(S_BASES)),
                                      seed=rng.randrange(10 ** 6), r=r)))
    return cases


def search(R, ctx, deep, hints):
    tn = C.import_teneva()
    rng = ctx['rng']
    fails, n_eval = [], 0
    by = {}
    for name, case in s_cases(rng, deep):
        n_eval += 1
        try:
            fs = S_CHECKS[name](tn, case)
        except Exception as e:  # noqa
            fs = [dict(what=f'search check {name} raised {type(e).__name__}: {str(e)[:200]}', input=case)]
        for f in fs:
            f['check'] = name
            by[name] = by.get(name, 0) + 1
            if len(fails) < 12:
                fails.append(f)
    R.search.append(dict(name='polynomial exactness oracle (numpy.polynomial.chebyshev + Fraction integrals)',
                         evaluations=n_eval, failures=len(fails), failures_by_check=by, deep=deep))
    return fails


def replay(data):
    tn = C.import_teneva()
    p = data['payload']
    print(data['what'])
    if isinstance(p, dict) and p.get('check') in S_CHECKS:
        fs = S_CHECKS[p['check']](tn, p['input'])
        for f in fs[:3]:
            print('replayed:', f['what'], 'got', f.get('got'), 'expected', f.get('expected'))
        return 1 if fs else 0
    print('no failing input recorded (broken proof obligation or correspondence); payload keys:', list(p)[:10])
    return 1
