"""C01 — TT evaluation and algebra agree elementwise with dense tensor algebra."""
import itertools
import math
from fractions import Fraction

import numpy as np

from harness import common as C

THEOREMS = 'Properties/C01.v'
CLAIM = dict(
    text='Coq theorems (Properties/C01.v). (A) Over every commutative ring (hence Z: the bit-for-bit clause), every d>=2, '
         'mode size>=1 and rank profile: export (full) at the C-order position = chained product (C01_full_get/_length); '
         'get_many = map get; pointwise laws of add / sub / mul / mul-by-number / outer / const (C01_get_*); sum, weighted mean '
         'and scalar product as sums over all multi-indices (C01_sum_spec, C01_mean_spec, C01_mul_scalar_spec, C01_mul_scalar_x); '
         'first interface = entry, element gradient (C01_interface_value, C01_grad_spec); the general interface function '
         'with an index and norm=None is the list of partial products, entry by entry, for both sweeps '
         '(C01_interface_none_right/_left, C01_interface_right_entry/_left_entry); with ANY weights P and / or index i '
         '(norm=None) the fully contracted vector of either sweep is sum_idx (prod_k w_k[idx_k]) Y[idx] with the weight vectors '
         'the code contracts with (C01_interface_total, C01_interface_weights); <Y1-Y2,Y1-Y2> through sub and mul_scalar is the '
         'sum of squared entry differences (C01_mul_scalar_sub_spec); mean with default weights is the uniform '
         'mean (C01_mean_default); reported shape / ranks / size of a well-formed tensor incl. size = sum_k r_k n_k r_{k+1} '
         '(C01_props, C01_props_spec); soundness of every finite expression tree over add, sub, mul, outer, number operands, '
         'copy (C01_expr_sound, C01_expr_sound_Z). (B) At the Coq reals (carrier OR01, same model terms): norm = sqrt of the '
         'sum over all multi-indices of entry^2 (C01_norm_spec); accuracy on its plain branch = ||Y1-Y2||_F / ||Y2||_F as dense '
         'Frobenius norms when ||Y2||<>0, and it is 0 iff the tensors agree everywhere (C01_accuracy_spec, '
         'C01_accuracy_zero_iff); accuracy_on_data = -1 when all reference values are 0, else ||get_many(Y,I)-y||_2/||y||_2 '
         '(C01_accuracy_on_data_spec); erank = r_1 for d=2 and for d>=3 with mode sizes>=1 THE non-negative root of '
         'a x^2 + b x = size (a, b as in the code: C01_erank_coefficients), hence r for a tensor whose interior ranks all '
         'equal r (C01_erank_d2, C01_erank_spec, C01_erank_uniform); uniform mean = (sum of all entries)/(number of entries '
         'of the dense array) (C01_mean_uniform_spec, C01_mean_count_pos); interface with norm=natural, any P / i, both '
         'sweeps: vector k = un-normalised vector k divided by the product of the mode sizes swept so far, a positive factor '
         '(C01_interface_natural_right/_left/_factor_pos); norm=linalg: wherever the un-normalised vector u_k is non-zero '
         'the result is u_k/||u_k||_2, a positive multiple of the true partial product with Euclidean norm 1; the boundary '
         'vector is [1] (C01_interface_linalg_right/_left, C01_interface_boundary). Non-vacuity: C01_example, '
         'C01R_example_*. NOT proved (modelled elsewhere or only executed): the saturation branches of act_two.accuracy '
         '(returns 0 / 1e299 / -1 through the stabilised exponents; every branch is a theorem of property C16, '
         'C16_accuracy_stab, in terms of sqrt<.,.>, which C01_mul_scalar_spec / C01_mul_scalar_sub_spec turn into dense norms) '
         '- Model/ActOneR.accuracy is the plain branch only; intermediate interface vectors with weights P (only the fully '
         'contracted one is characterised); linalg interface where some u_k = 0 (the code divides 0 by 0); norm(use_stab=True); '
         'IEEE rounding (theorems are about exact arithmetic; the rounding clause is validated by the float stream within '
         'an explicit bound). Model Model/ActOne.v + Model/Interface.v + Model/ActOneR.v mirrors act_one / act_two / act_many '
         '/ transformation.full / props / data; tied to /repo by exact correspondence on integer tensors (Z instance), '
         'within a rigorous rounding bound on random doubles (PrimFloat instance), and by the reals-exact stream: Z / Qc '
         'instances of norm, accuracy, accuracy_on_data, erank, uniform mean and the normalised interfaces on inputs where '
         'sqrt and division are exact, compared with the correctly rounded exact value.',
    note='Trusted: Coq kernel; standard-library axioms of the Reals under the (B) theorems (listed by Print Assumptions); '
         'vm_compute + PrimFloat primitives for case evaluation only; the hand-written model (validated by the '
         'correspondence on every run); numpy semantics of einsum/concatenate/reshape as re-expressed in the model. IEEE '
         'rounding is modelled, not verified: theorems are about exact ring / real arithmetic.',
    technique='Coq proof (ring-generic induction over the core chain and over expression trees; Coq Reals with lra/nra/field '
              'for sqrt, division, order) + exact / rounding-bounded model-implementation correspondence')
TRUSTED = ['Coq 8.16.1 kernel', 'Coq standard-library Reals axioms (sig_forall_dec, sig_not_dec, functional_extensionality_dep) '
           'under the C01R theorems only',
           'vm_compute and PrimFloat primitives (case evaluation only, never under a theorem)',
           'hand-written model Model/ActOne.v, Model/Interface.v, Model/ActOneR.v (tied by correspondence)',
           'numpy/einsum/reshape/np.linalg.norm/np.sqrt semantics as re-expressed in the model',
           'harness/props/C01.py (generators, comparison)']
TIME_LIMIT = {'quick': 1200, 'thorough': 5400}

HEADER_Z = '''From Coq Require Import List ZArith.
From TV Require Import Num.Ops Lin.Tab TT.Chain Model.ActOne Model.ActOneX Model.Interface Proofs.ActOneP3.
Import ListNotations. Open Scope Z_scope.
Definition c := @mk_core Z.
Definition flatc (G : core Z) : list Z := concat (concat (dat G)).
Definition showY (Y : list (core Z)) : list Z :=
  map Z.of_nat (ranks Y) ++ map Z.of_nat (shape Y) ++ [Z.of_nat (size Y)] ++ full OZ Y.
Definition showG (Y : list (core Z)) : list Z := concat (map flatc Y).
Definition rootZ (x : Z) (d : nat) : Z * Z := (1, x).
Definition cst ns x := const_cores OZ ns 1 x.
Definition L := @Leaf Z.
'''
HEADER_F = '''From Coq Require Import List ZArith Floats.
From TV Require Import Num.Ops Num.InstF Lin.Tab TT.Chain Model.ActOne Model.ActOneX Model.Interface Model.ActOneR.
Import ListNotations. Open Scope float_scope.
Definition c := @mk_core float.
Definition sh (l : list float) : list (Z * Z) := map F_show l.
Definition absY (Y : list (core float)) : list (core float) :=
  map (fun G => mk_core (cr1 G) (cn G) (cr2 G) (map (map (map PrimFloat.abs)) (dat G))) Y.
'''


def coq_core(G, leaf):
    r1, n, r2 = G.shape
    return f'(c {r1} {n} {r2} {C.nested(G.tolist(), leaf)})'


def coq_tt(Y, leaf):
    return '[' + '; '.join(coq_core(G, leaf) for G in Y) + ']'


def ileaf(x):
    return C.zlit(int(x))


def rand_profile(rng, d, rmax=4, big=False):
    r = [1] + [rng.randint(1, rmax) for _ in range(d - 1)] + [1]
    if big:
        k = rng.randrange(1, d)
        r[k] = rng.randint(5, 7)   # larger than a neighbouring core can carry
    return r


def rand_int_tt(rng, n, r, lo=-8, hi=8):
    return [np.array([[[rng.randint(lo, hi) for _ in range(r[k + 1])] for _ in range(n[k])] for _ in range(r[k])],
                     dtype=float).reshape(r[k], n[k], r[k + 1]) for k in range(len(n))]


def rand_float_tt(rng, n, r):
    return [np.array([rng.uniform(-2, 2) * 2.0 ** rng.randint(-3, 3) for _ in range(r[k] * n[k] * r[k + 1])],
                     dtype=float).reshape(r[k], n[k], r[k + 1]) for k in range(len(n))]


def showY_impl(tn, Y):
    f = tn.full(Y)
    return [int(x) for x in tn.ranks(Y)] + [int(x) for x in tn.shape(Y)] + [int(tn.size(Y))] + \
        [int(x) for x in np.asarray(f).reshape(-1)]


def all_int(a):
    a = np.asarray(a, dtype=float).reshape(-1)
    return bool(np.all(np.isfinite(a)) and np.all(a == np.round(a)) and np.all(np.abs(a) < 2 ** 52))


# ---------------------------------------------------------------------------------------------
# expression trees
# ---------------------------------------------------------------------------------------------

def gen_expr(rng, n, depth):
    """returns (python evaluator closure description, coq expr term builder) as a nested tuple"""
    if depth == 0 or rng.random() < 0.25:
        r = rand_profile(rng, len(n), rmax=2)
        return ('leaf', rand_int_tt(rng, n, r, -3, 3))
    op = rng.choice(['add', 'sub', 'mul', 'copy', 'addnum', 'numadd', 'subnum', 'numsub', 'mulnum', 'nummul'])
    if op in ('add', 'sub', 'mul'):
        return (op, gen_expr(rng, n, depth - 1), gen_expr(rng, n, depth - 1))
    if op == 'copy':
        return (op, gen_expr(rng, n, depth - 1))
    if op in ('mulnum', 'nummul'):
        return (op, gen_expr(rng, n, depth - 1), rng.choice([-3, -2, -1, 0, 1, 2, 3]))
    return (op, gen_expr(rng, n, depth - 1), rng.choice([-1, 0, 1]))   # const: d-th root exact only for 0, +-1


def eval_expr_impl(tn, e):
    k = e[0]
    if k == 'leaf':
        return e[1]
    if k == 'copy':
        return tn.copy(eval_expr_impl(tn, e[1]))
    if k in ('add', 'sub', 'mul'):
        return getattr(tn, k)(eval_expr_impl(tn, e[1]), eval_expr_impl(tn, e[2]))
    a, x = eval_expr_impl(tn, e[1]), float(e[2])
    return {'addnum': lambda: tn.add(a, x), 'numadd': lambda: tn.add(x, a), 'subnum': lambda: tn.sub(a, x),
            'numsub': lambda: tn.sub(x, a), 'mulnum': lambda: tn.mul(a, x), 'nummul': lambda: tn.mul(x, a)}[k]()


def eval_expr_dense(e):
    k = e[0]
    if k == 'leaf':
        return dense_int(e[1])
    if k == 'copy':
        return eval_expr_dense(e[1])
    if k in ('add', 'sub', 'mul'):
        a, b = eval_expr_dense(e[1]), eval_expr_dense(e[2])
        return a + b if k == 'add' else (a - b if k == 'sub' else a * b)
    a, x = eval_expr_dense(e[1]), int(e[2])
    return {'addnum': a + x, 'numadd': a + x, 'subnum': a - x, 'numsub': x - a, 'mulnum': a * x, 'nummul': a * x}[k]


def coq_expr(e):
    k = e[0]
    if k == 'leaf':
        return f'(L {coq_tt(e[1], ileaf)})'
    if k == 'copy':
        return f'(Copy {coq_expr(e[1])})'
    if k in ('add', 'sub', 'mul'):
        return f'({k.capitalize()} {coq_expr(e[1])} {coq_expr(e[2])})'
    a, x = coq_expr(e[1]), C.zlit(e[2])
    return {'addnum': f'(AddNum {a} {x})', 'numadd': f'(AddNum {a} {x})', 'subnum': f'(SubNum {a} {x})',
            'numsub': f'(NumSub {x} {a})', 'mulnum': f'(MulNum {a} {x})', 'nummul': f'(MulNum {a} {x})'}[k]


def dense_int(Y):
    """independent exact reference: python ints, explicit loops over all multi-indices"""
    n = [G.shape[1] for G in Y]
    out = np.empty(n, dtype=object)
    for idx in itertools.product(*[range(k) for k in n]):
        v = [1]
        for G, i in zip(Y, idx):
            r1, _, r2 = G.shape
            v = [sum(v[a] * int(G[a, i, b]) for a in range(r1)) for b in range(r2)]
        out[idx] = v[0]
    return out


# ---------------------------------------------------------------------------------------------
# correspondence
# ---------------------------------------------------------------------------------------------

def correspondence(R, ctx):
    tn = C.import_teneva()
    rng = ctx['rng']
    N = 420 if not ctx['thorough'] else 4000
    items = []
    dist = dict(d={}, kinds={}, big_rank=0, mode1=0)
    kinds = ['get', 'get_many', 'full', 'sum', 'mean_P', 'mean_none', 'mul_scalar', 'add', 'sub', 'mul', 'mulnum',
             'outer', 'outer_many', 'iface', 'iface_P', 'iface_sum', 'grad', 'copy', 'expr', 'addnum']
    for t in range(N):
        kind = kinds[t % len(kinds)]
        d = rng.choice([2, 2, 3, 3, 4, 5])
        n = [rng.randint(1, 4) for _ in range(d)]
        if kind in ('full', 'add', 'sub', 'mul', 'outer', 'outer_many', 'expr', 'addnum', 'copy', 'mulnum') and np.prod(n) > 64:
            n = [min(k, 2) for k in n]
        big = rng.random() < 0.15
        r1, r2 = rand_profile(rng, d, big=big), rand_profile(rng, d)
        Y1, Y2 = rand_int_tt(rng, n, r1), rand_int_tt(rng, n, r2)
        idx = [rng.randrange(k) for k in n]
        dist['d'][d] = dist['d'].get(d, 0) + 1
        dist['kinds'][kind] = dist['kinds'].get(kind, 0) + 1
        dist['big_rank'] += int(big)
        dist['mode1'] += int(1 in n)
        y1, y2 = coq_tt(Y1, ileaf), coq_tt(Y2, ileaf)
        inp = dict(kind=kind, n=n, r1=r1, r2=r2, idx=idx, Y1=[G.tolist() for G in Y1], Y2=[G.tolist() for G in Y2])
        try:
            if kind == 'get':
                coq, impl = f'[get OZ {y1} {C.natlist(idx)}]', [tn.get(Y1, idx)]
            elif kind == 'get_many':
                I = [[rng.randrange(k) for k in n] for _ in range(rng.randint(1, 5))]
                inp['I'] = I
                coq = f'get_many OZ {y1} [{"; ".join(C.natlist(i) for i in I)}]'
                impl = list(tn.get_many(Y1, np.array(I)))
            elif kind == 'full':
                coq, impl = f'showY {y1}', showY_impl(tn, Y1)
            elif kind == 'sum':
                coq, impl = f'[sum OZ {y1}]', [tn.sum(Y1)]
            elif kind == 'mean_P':
                P = [[rng.randint(-3, 3) for _ in range(k + rng.randint(0, 1))] for k in n]
                inp['P'] = P
                coq = f'[mean OZ {y1} (Some {C.nested(P, ileaf)}) true]'
                impl = [tn.mean(Y1, P=[np.array(p, dtype=float) for p in P])]
            elif kind == 'mean_none':
                coq, impl = f'[mean OZ {y1} None false]', [tn.mean(Y1, norm=False)]
            elif kind == 'mul_scalar':
                coq, impl = f'[mul_scalar_x OZ {y1} {y2}]', [tn.mul_scalar(Y1, Y2)]
            elif kind in ('add', 'sub', 'mul'):
                coq, impl = f'showY ({kind} OZ {y1} {y2})', showY_impl(tn, getattr(tn, kind)(Y1, Y2))
            elif kind == 'mulnum':
                x = rng.randint(-4, 4)
                inp['x'] = x
                if rng.random() < 0.5:
                    impl = showY_impl(tn, tn.mul(Y1, float(x)))
                else:
                    impl = showY_impl(tn, tn.mul(float(x), Y1))
                coq = f'showY (mul_num OZ {y1} {C.zlit(x)})'
            elif kind == 'addnum':
                x = rng.choice([-1, 0, 1])
                inp['x'] = x
                which = rng.choice(['add', 'radd', 'sub', 'rsub'])
                inp['which'] = which
                if which == 'add':
                    impl, coq = tn.add(Y1, float(x)), f'add OZ {y1} (cst {C.natlist(n)} {C.zlit(x)})'
                elif which == 'radd':
                    impl, coq = tn.add(float(x), Y1), f'add OZ (cst {C.natlist(n)} {C.zlit(x)}) {y1}'
                elif which == 'sub':
                    impl, coq = tn.sub(Y1, float(x)), f'add OZ {y1} (cst {C.natlist(n)} {C.zlit(-x)})'
                else:
                    impl, coq = tn.sub(float(x), Y1), f'add OZ (cst {C.natlist(n)} {C.zlit(x)}) (mul_num OZ {y1} (-1))'
                impl, coq = showY_impl(tn, impl), f'showY ({coq})'
            elif kind == 'outer':
                coq, impl = f'showY (outer {y1} {y2})', showY_impl(tn, tn.outer(Y1, Y2))
            elif kind == 'outer_many':
                Y3 = rand_int_tt(rng, [2], [1, 1])
                inp['Y3'] = [G.tolist() for G in Y3]
                coq = f'showY (outer_many [{y1}; {coq_tt(Y3, ileaf)}; {y2}])'
                impl = showY_impl(tn, tn.outer_many([Y1, Y3, Y2]))
            elif kind in ('iface', 'iface_P', 'iface_sum'):
                ltr = rng.random() < 0.5
                inp['ltr'] = ltr
                P = None
                i_arg = None if kind == 'iface_sum' else idx
                if kind == 'iface_P' or (kind == 'iface_sum' and rng.random() < 0.5):
                    P = [[rng.randint(-3, 3) for _ in range(k)] for k in n]
                    inp['P'] = P
                phi = tn.interface(Y1, P=None if P is None else [np.array(p, dtype=float) for p in P],
                                   i=None if i_arg is None else np.array(i_arg), norm=None, ltr=ltr)
                impl = [x for v in phi for x in np.asarray(v).reshape(-1)]
                cP = 'None' if P is None else f'(Some {C.nested(P, ileaf)})'
                ci = 'None' if i_arg is None else f'(Some {C.natlist(i_arg)})'
                coq = f'concat (interface OZ {y1} {cP} {ci} NormNone {"true" if ltr else "false"})'
            elif kind == 'grad':
                v, g = tn.get_and_grad(Y1, np.array(idx))
                impl = [v] + [x for G in g for x in G.reshape(-1)]
                coq = f'(let r := get_and_grad OZ {y1} {C.natlist(idx)} in fst r :: showG (snd r))'
            elif kind == 'copy':
                coq, impl = f'showY (copy {y1})', showY_impl(tn, tn.copy(Y1))
            elif kind == 'expr':
                e = gen_expr(rng, n, rng.randint(1, 3))
                inp = dict(kind=kind, n=n, expr=repr(e)[:4000])
                coq = f'showY (eval_tt OZ rootZ {coq_expr(e)})'
                impl = showY_impl(tn, eval_expr_impl(tn, e))
            if not all_int(impl):
                impl = ['non-integer', [float(x) for x in np.asarray(impl, dtype=float).reshape(-1)[:8]]]
            else:
                impl = [int(x) for x in np.asarray(impl, dtype=float).reshape(-1)]
        except Exception as ex:  # the implementation must not raise on valid input
            impl = ['raised', repr(ex)[:300]]
        items.append(dict(coq=coq, impl=impl, input=inp))
    bad = C.exact_corr(R, 'Z-exact', HEADER_Z, items, chunk=30, distribution=dist)
    bad += float_stream(R, ctx, tn)
    bad += reals_exact_stream(R, ctx, tn)
    return bad


def float_stream(R, ctx, tn):
    """PrimFloat instance of the same model terms on random doubles: the implementation must lie within the
    rounding bound of a sum of products, evaluated by the model itself on absolute values."""
    rng = ctx['rng']
    N = 150 if not ctx['thorough'] else 1500
    fl = C.flit
    cases, meta = [], []
    kinds = ['get', 'sum', 'mean', 'mul_scalar', 'add_get', 'mul_get', 'norm', 'accuracy', 'acc_data', 'erank',
             'iface_l', 'iface_n']
    for t in range(N):
        kind = kinds[t % len(kinds)]
        d = rng.choice([2, 3, 4, 5])
        n = [rng.randint(1, 4) for _ in range(d)]
        r1, r2 = rand_profile(rng, d), rand_profile(rng, d)
        if t % 7 == 6:
            # long chains: more than 2^63 elements, far beyond anything a dense reference (or an int64 element count)
            # can hold; the chain contraction itself stays representable
            kind = ['mean', 'sum', 'get', 'mul_scalar', 'norm'][(t // 7) % 5]
            d = rng.randint(64, 90)
            n = [rng.choice([2, 2, 3, 4, 10]) for _ in range(d)]
            r1 = [1] + [rng.randint(1, 2) for _ in range(d - 1)] + [1]
            r2 = [1] + [rng.randint(1, 2) for _ in range(d - 1)] + [1]
        Y1, Y2 = rand_float_tt(rng, n, r1), rand_float_tt(rng, n, r2)
        idx = [rng.randrange(k) for k in n]
        y1, y2 = coq_tt(Y1, fl), coq_tt(Y2, fl)
        inp = dict(kind=kind, n=n, r1=r1, r2=r2, idx=idx, Y1=[G.tolist() for G in Y1], Y2=[G.tolist() for G in Y2])
        tol = 'bound'
        try:
            if kind == 'get':
                term, ab = f'get OF {y1} {C.natlist(idx)}', f'get OF (absY {y1}) {C.natlist(idx)}'
                impl = [tn.get(Y1, idx)]
            elif kind == 'sum':
                term, ab, impl = f'sum OF {y1}', f'sum OF (absY {y1})', [tn.sum(Y1)]
            elif kind == 'mean':
                term, ab, impl = f'mean OF {y1} None true', f'mean OF (absY {y1}) None true', [tn.mean(Y1)]
            elif kind == 'mul_scalar':
                term, ab = f'mul_scalar_x OF {y1} {y2}', f'mul_scalar_x OF (absY {y1}) (absY {y2})'
                impl = [tn.mul_scalar(Y1, Y2)]
            elif kind == 'add_get':
                term = f'get OF (add OF {y1} {y2}) {C.natlist(idx)}'
                ab = f'get OF (add OF (absY {y1}) (absY {y2})) {C.natlist(idx)}'
                impl = [tn.get(tn.add(Y1, Y2), idx)]
            elif kind == 'mul_get':
                term = f'get OF (mul OF {y1} {y2}) {C.natlist(idx)}'
                ab = f'get OF (mul OF (absY {y1}) (absY {y2})) {C.natlist(idx)}'
                impl = [tn.get(tn.mul(Y1, Y2), idx)]
            elif kind == 'norm':
                term, ab, impl, tol = f'norm OF {y1}', f'norm OF (absY {y1})', [tn.norm(Y1)], 'rel'
            elif kind == 'accuracy':
                term, ab, impl, tol = f'accuracy OF {y1} {y2}', '1', [tn.accuracy(Y1, Y2)], 'rel'
            elif kind == 'acc_data':
                I = [[rng.randrange(k) for k in n] for _ in range(rng.randint(1, 6))]
                y = [rng.uniform(-3, 3) for _ in I]
                inp['I'], inp['y'] = I, y
                term = (f'accuracy_on_data OF {y1} [{"; ".join(C.natlist(i) for i in I)}] '
                        f'[{"; ".join(fl(v) for v in y)}]')
                ab, impl, tol = '1', [tn.accuracy_on_data(Y1, np.array(I), np.array(y))], 'rel'
            elif kind == 'erank':
                term, ab, impl, tol = f'erank OF {y1}', '1', [float(tn.erank(Y1))], 'rel'
            elif kind in ('iface_l', 'iface_n'):
                ltr = rng.random() < 0.5
                nm = 'linalg' if kind == 'iface_l' else 'natural'
                inp['ltr'] = ltr
                phi = tn.interface(Y1, i=np.array(idx), norm=nm, ltr=ltr)
                impl = [x for v in phi for x in np.asarray(v).reshape(-1)]
                term = (f'concat (interface OF {y1} None (Some {C.natlist(idx)}) '
                        f'{"NormLinalg" if kind == "iface_l" else "NormNatural"} {"true" if ltr else "false"})')
                cases.append(f'(sh ({term}), sh [1])')
                meta.append((inp, [float(x) for x in impl], 'relvec'))
                continue
            cases.append(f'(sh [{term}], sh [{ab}])')
            meta.append((inp, [float(x) for x in impl], tol))
        except Exception as ex:
            cases.append('(sh [0], sh [0])')
            meta.append((inp, ['raised', repr(ex)[:300]], 'raised'))
    vals = C.run_cases('C01_float', HEADER_F, cases, chunk=25)
    bad = []
    eps = 2.0 ** -52
    for (inp, impl, tol), (mv, av) in zip(meta, vals):
        R.add_distinct(('float', repr(inp)[:2000]))
        mvals = [C.float_of_show(p) for p in mv]
        if tol == 'raised':
            bad.append(dict(stream='float', input=inp, impl=impl, model=mvals))
            continue
        ok = len(mvals) == len(impl)
        if ok:
            if tol == 'bound':
                a = abs(C.float_of_show(av[0]))
                ok = all(abs(x - m) <= 4096 * eps * a + 1e-300 for x, m in zip(impl, mvals))
            elif tol == 'rel':
                ok = all((math.isfinite(x) and abs(x - m) <= 1e-9 * max(abs(m), 1e-300)) or (x == m)
                         for x, m in zip(impl, mvals))
            else:
                sc = max([abs(m) for m in mvals] + [1e-300])
                ok = all(abs(x - m) <= 1e-9 * sc for x, m in zip(impl, mvals))
        if not ok:
            bad.append(dict(stream='float', input=inp, impl=impl, model=mvals))
    R.corr.append(dict(name='float-rounding-bound', cases=len(cases), mismatches=len(bad),
                       comparison='|impl - model| <= 4096*eps*model(|inputs|) for sums of products; relative 1e-9 for '
                                  'norm / accuracy / accuracy_on_data / erank / normalised interfaces',
                       distribution=dict(kinds=kinds), first_mismatches=bad[:3]))
    if meta:
        R.samples.append(dict(stream='float', input=meta[0][0], impl=meta[0][1]))
    return bad


HEADER_Q = """From Coq Require Import List ZArith QArith Qcanon.
From TV Require Import Num.Ops Lin.Tab TT.Chain Model.ActOne Model.ActOneX Model.Interface Model.ActOneR.
Import ListNotations. Open Scope Z_scope.
Definition c := @mk_core Qc.
Definition cz := @mk_core Z.
Definition q (z : Z) : Qc := Q2Qc (inject_Z z).
Definition sq (x : Qc) : Z * Z := (Qnum (this x), Zpos (Qden (this x))).
Definition shq (l : list Qc) : list (Z * Z) := map sq l.
Definition zz (l : list Z) : list (Z * Z) := map (fun z => (z, 1)) l.
"""

PYTH = [(3, 4), (4, 3), (5, 12), (8, 15), (6, 8), (0, 1), (2, 0), (1, 2, 2), (2, 3, 6), (4, 4, 7), (1, 4, 8), (2, 4, 4),
        (0, 0, 5), (1, 1, 1, 1), (2, 2, 2, 2), (1, 2, 2, 4), (7,), (1,)]


def is_square(v):
    return v >= 0 and math.isqrt(v) ** 2 == v


def qleaf(x):
    return f'(q {C.zlit(int(x))})'


def coq_tt_with(Y, leaf, ctor):
    return '[' + '; '.join(f'({ctor} {G.shape[0]} {G.shape[1]} {G.shape[2]} {C.nested(G.tolist(), leaf)})' for G in Y) + ']'


def pyth_tt(rng, d):
    """rank-1 tensor whose cores are Pythagorean vectors: its Frobenius norm is the integer prod ||g_k||"""
    vs = [list(rng.choice(PYTH)) for _ in range(d)]
    vs = [[x * rng.choice([1, -1]) for x in v] for v in vs]
    return [np.array(v, dtype=float).reshape(1, -1, 1) for v in vs], math.prod(math.isqrt(sum(x * x for x in v)) for v in vs)


def reals_exact_stream(R, ctx, tn):
    """The clauses proved at the reals (norm, accuracy, accuracy_on_data, erank, uniform mean, normalised interfaces),
    executed at the EXACT instances of the same model terms (Z, Qc) on inputs where sqrt / division are exact in binary64:
    the implementation must return the correctly rounded exact value (erank, accuracy_on_data, norm, mean, natural
    interface: equality) or agree to 1e-12 (accuracy: stabilised arithmetic; linalg interface: one sqrt + division)."""
    rng = ctx['rng']
    N = 168 if not ctx['thorough'] else 1680
    kinds = ['erank', 'norm', 'accuracy', 'acc_data', 'mean', 'iface_nat', 'iface_lin']
    cases, meta = [], []
    dist = dict(kinds={}, erank_family={}, d={})
    for t in range(N):
        kind = kinds[t % len(kinds)]
        dist['kinds'][kind] = dist['kinds'].get(kind, 0) + 1
        try:
            if kind == 'erank':
                fam = ['d2', 'uniform', 'square', 'square'][(t // len(kinds)) % 4]
                if fam == 'd2':
                    n, r = [rng.randint(1, 6), rng.randint(1, 6)], [1, rng.randint(1, 9), 1]
                elif fam == 'uniform':
                    d = rng.randint(3, 6)
                    x = rng.randint(1, 6)
                    n, r = [rng.randint(1, 6) for _ in range(d)], [1] + [x] * (d - 1) + [1]
                else:
                    for _ in range(2000):   # rank profiles whose discriminant is a perfect square: the root is rational
                        d = rng.randint(3, 5)
                        n = [rng.randint(1, 6) for _ in range(d)]
                        r = [1] + [rng.randint(1, 6) for _ in range(d - 1)] + [1]
                        sz = sum(r[k] * n[k] * r[k + 1] for k in range(d))
                        a, b = sum(n[1:d - 1]), n[0] + n[d - 1]
                        if is_square(b * b + 4 * a * sz) and len(set(r[1:d])) > 1:
                            break
                    else:
                        fam, r = 'uniform', [1] + [2] * (d - 1) + [1]
                dist['erank_family'][fam] = dist['erank_family'].get(fam, 0) + 1
                Y = [np.zeros((r[k], n[k], r[k + 1])) for k in range(len(n))]
                term = '[sq (erank OQc [' + '; '.join(f'c {r[k]} {n[k]} {r[k + 1]} []' for k in range(len(n))) + '])]'
                inp = dict(kind=kind, family=fam, n=n, r=r)
                impl = float(tn.erank(Y))
                cases.append(term)
                meta.append((inp, impl, 'round'))
                continue
            d = rng.choice([2, 2, 3, 3, 4, 5])
            dist['d'][d] = dist['d'].get(d, 0) + 1
            n = [rng.randint(1, 4) for _ in range(d)]
            r1, r2 = rand_profile(rng, d, 3), rand_profile(rng, d, 3)
            Y1, Y2 = rand_int_tt(rng, n, r1, -4, 4), rand_int_tt(rng, n, r2, -4, 4)
            inp = dict(kind=kind, n=n, r1=r1, r2=r2, Y1=[G.tolist() for G in Y1], Y2=[G.tolist() for G in Y2])
            if kind == 'norm':
                sub = (t // len(kinds)) % 3
                if sub == 1:
                    Y1, _ = pyth_tt(rng, d)
                    inp = dict(kind=kind, family='pythagorean rank-1', Y1=[G.tolist() for G in Y1])
                elif sub == 2 and rng.random() < 0.3:
                    Y1 = [np.zeros_like(G) for G in Y1]
                    inp = dict(kind=kind, family='zero', n=n, r1=r1)
                y1 = coq_tt_with(Y1, ileaf, 'cz')
                cases.append(f'zz [mul_scalar_x OZ {y1} {y1}; norm OZ {y1}]')
                meta.append((inp, float(tn.norm(Y1)), 'norm'))
            elif kind == 'accuracy':
                sub = (t // len(kinds)) % 3
                if sub == 0:      # Y1 = k * Y2 with ||Y2|| an integer: accuracy = |k - 1| exactly, all sqrt exact over Qc
                    Y2, _ = pyth_tt(rng, d)
                    k = rng.choice([-3, -2, -1, 0, 1, 2, 3, 5])
                    Y1 = [G.copy() for G in Y2]
                    Y1[rng.randrange(d)] *= k
                    inp = dict(kind=kind, family='multiple of a pythagorean rank-1 tensor', k=k, Y2=[G.tolist() for G in Y2])
                    cases.append(f'[sq (accuracy OQc {coq_tt_with(Y1, qleaf, "c")} {coq_tt_with(Y2, qleaf, "c")})]')
                    meta.append((inp, float(tn.accuracy(Y1, Y2)), 'acc_q'))
                else:
                    if sub == 2 and rng.random() < 0.3:
                        Y1 = [G.copy() for G in Y2]
                        inp['family'] = 'Y1 == Y2'
                    y1, y2 = coq_tt_with(Y1, ileaf, 'cz'), coq_tt_with(Y2, ileaf, 'cz')
                    cases.append(f'zz [mul_scalar_x OZ (sub OZ {y1} {y2}) (sub OZ {y1} {y2}); mul_scalar_x OZ {y2} {y2}]')
                    meta.append((inp, float(tn.accuracy(Y1, Y2)), 'acc_z'))
            elif kind == 'acc_data':
                D1 = dense_int(Y1)
                found = None
                for _ in range(300):
                    m = rng.randint(1, 4)
                    I = [[rng.randrange(k) for k in n] for _ in range(m)]
                    g = [int(D1[tuple(i)]) for i in I]
                    qs = [p for p in PYTH if len(p) == m] + [tuple([0] * m)]
                    qv = list(rng.choice(qs))
                    rng.shuffle(qv)
                    qv = [x * rng.choice([1, -1]) * 1 for x in qv]
                    y = [gi - qi for gi, qi in zip(g, qv)]
                    if is_square(sum(v * v for v in y)):
                        found = (I, y)
                        break
                if found is None or (t // len(kinds)) % 5 == 4:
                    I = [[rng.randrange(k) for k in n] for _ in range(rng.randint(1, 4))]
                    y = [0] * len(I)          # all reference values zero: the documented sentinel -1
                    dist['acc_data_sentinel'] = dist.get('acc_data_sentinel', 0) + 1
                else:
                    I, y = found
                    dist['acc_data_rational'] = dist.get('acc_data_rational', 0) + 1
                inp['I'], inp['y'] = I, y
                cases.append(f'[sq (accuracy_on_data OQc {coq_tt_with(Y1, qleaf, "c")} '
                             f'[{"; ".join(C.natlist(i) for i in I)}] [{"; ".join(qleaf(v) for v in y)}])]')
                meta.append((inp, float(tn.accuracy_on_data(Y1, np.array(I), np.array(y, dtype=float))), 'round'))
            elif kind == 'mean':
                n = [rng.choice([1, 2, 2, 4, 8]) for _ in range(d)]     # ones(k)/k is exact in binary64
                Y1 = rand_int_tt(rng, n, r1, -4, 4)
                inp = dict(kind=kind, n=n, r1=r1, Y1=[G.tolist() for G in Y1])
                cases.append(f'[sq (mean OQc {coq_tt_with(Y1, qleaf, "c")} None true)]')
                meta.append((inp, [float(tn.mean(Y1))], 'exactq'))
            elif kind in ('iface_nat', 'iface_lin'):
                if kind == 'iface_nat':
                    n = [rng.choice([1, 2, 2, 4]) for _ in range(d)]     # division by the mode size is exact in binary64
                Y1 = rand_int_tt(rng, n, r1, -3, 3)
                ltr = rng.random() < 0.5
                P = [[rng.randint(-2, 2) for _ in range(k)] for k in n] if rng.random() < 0.4 else None
                idx = [rng.randrange(k) for k in n] if rng.random() < 0.7 else None
                inp = dict(kind=kind, n=n, r1=r1, Y1=[G.tolist() for G in Y1], P=P, idx=idx, ltr=ltr)
                with np.errstate(all='ignore'):       # a zero partial product makes the linalg branch divide 0 by 0
                    phi = tn.interface(Y1, P=None if P is None else [np.array(p, dtype=float) for p in P],
                                       i=None if idx is None else np.array(idx),
                                       norm='natural' if kind == 'iface_nat' else 'linalg', ltr=ltr)
                impl = [float(x) for v in phi for x in np.asarray(v).reshape(-1)]
                ci = 'None' if idx is None else f'(Some {C.natlist(idx)})'
                lt = 'true' if ltr else 'false'
                if kind == 'iface_nat':
                    cP = 'None' if P is None else f'(Some {C.nested(P, qleaf)})'
                    cases.append(f'shq (concat (interface OQc {coq_tt_with(Y1, qleaf, "c")} {cP} {ci} NormNatural {lt}))')
                    meta.append((inp, impl, 'exactq'))
                else:
                    cP = 'None' if P is None else f'(Some {C.nested(P, ileaf)})'
                    cases.append(f'zz (concat (interface OZ {coq_tt_with(Y1, ileaf, "cz")} {cP} {ci} NormNone {lt}))')
                    meta.append((inp, impl, ('unit', r1, ltr)))
        except Exception as ex:
            cases.append('zz [0]')
            meta.append((dict(kind=kind, t=t), ['raised', repr(ex)[:300]], 'raised'))
    vals = C.run_cases('C01_reals', HEADER_Q, cases, chunk=28)
    bad = []

    def close(x, e, tol=1e-12):
        return math.isfinite(x) and abs(x - e) <= tol * max(abs(e), 1e-300)
    for (inp, impl, how), mv in zip(meta, vals):
        R.add_distinct(('reals', repr(inp)[:2000]))
        fr = [Fraction(a, b) for a, b in mv]
        if how == 'raised':
            ok = False
        elif how == 'round':          # the exact value is rational: binary64 must return its correct rounding
            ok = impl == float(fr[0])
        elif how == 'exactq':         # the exact value is a dyadic rational: equality as rationals
            ok = len(impl) == len(fr) and all(math.isfinite(x) and Fraction(x) == e for x, e in zip(impl, fr))
        elif how == 'norm':           # v = <Y,Y> exactly (an integer < 2^53): norm must be the correctly rounded sqrt(v)
            v, mn = int(fr[0]), int(fr[1])
            ok = impl == math.sqrt(v) and (not is_square(v) or float(mn) == impl)
        elif how == 'acc_q':
            ok = close(impl, float(fr[0])) or (fr[0] == 0 and impl == 0.0)
        elif how == 'acc_z':          # ||Y1 - Y2||^2 and ||Y2||^2 from the exact model
            d2, f2 = int(fr[0]), int(fr[1])
            if f2 == 0:
                ok = True             # undefined relative error: no claim (Model/ActOneR.accuracy models the plain branch)
            else:
                ok = (impl == 0.0) if d2 == 0 else close(impl, math.sqrt(d2) / math.sqrt(f2))
        else:                         # linalg interface: each vector = u_k / ||u_k||, u_k from the exact model (norm=None)
            _, r, ltr = how
            u = [int(x) for x in fr]
            lens = list(r)            # vector k of either sweep has length r_k
            ok = len(u) == len(impl) == sum(lens)
            pos = 0
            for k, L in enumerate(lens):
                if not ok:
                    break
                uk, vk = u[pos:pos + L], impl[pos:pos + L]
                pos += L
                boundary = (k == len(lens) - 1) if not ltr else (k == 0)
                nk = math.sqrt(sum(x * x for x in uk))
                if boundary:
                    ok = vk == [1.0]
                elif nk == 0:
                    continue          # 0/0 in the code: outside every claim (C01_interface_linalg_* assume u_k <> 0)
                else:
                    ok = all(math.isfinite(x) and abs(x - e / nk) <= 1e-12 for x, e in zip(vk, uk))
        if not ok:
            bad.append(dict(stream='reals-exact', input=inp, impl=impl, model=[[int(a), int(b)] for a, b in mv]))
    R.corr.append(dict(name='reals-exact', cases=len(cases), mismatches=len(bad),
                       comparison='Z / Qc instances of norm, accuracy, accuracy_on_data, erank, mean, interface on inputs where '
                                  'sqrt and division are exact: equality with the correctly rounded exact value (erank incl. '
                                  'non-uniform profiles with rational root, accuracy_on_data incl. the -1 sentinel, norm, uniform '
                                  'mean, natural interface); 1e-12 for accuracy and for linalg interface vs u_k/||u_k||',
                       distribution=dist, first_mismatches=bad[:3]))
    for (inp, impl, how), mv in list(zip(meta, vals))[:2]:
        R.samples.append(dict(stream='reals-exact', input=inp, impl=impl, model=[[int(a), int(b)] for a, b in mv]))
    return bad


# ---------------------------------------------------------------------------------------------
# property-level search on the implementation (dense exact-integer reference, independent of the model)
# ---------------------------------------------------------------------------------------------

def oracle_case(tn, rng, n, r1, r2, Y1, Y2):
    """returns a failure dict or None; everything is exact integer arithmetic"""
    D1, D2 = dense_int(Y1), dense_int(Y2)
    d = len(n)

    def eq(name, got, exp, extra=None):
        got = np.asarray(got, dtype=float)
        exp = np.asarray(exp.astype(float) if isinstance(exp, np.ndarray) else exp, dtype=float)
        if got.shape != exp.shape or not np.array_equal(got, exp):
            return dict(what=f'{name} differs from the dense exact-integer reference', function=name,
                        input=dict(n=n, r1=r1, r2=r2, Y1=[G.tolist() for G in Y1], Y2=[G.tolist() for G in Y2], extra=extra),
                        got=got.tolist() if got.size < 200 else 'large', expected=exp.tolist() if exp.size < 200 else 'large')
        return None
    idx = tuple(rng.randrange(k) for k in n)
    I = [[rng.randrange(k) for k in n] for _ in range(4)]
    x = rng.randint(-3, 3)
    P = [[rng.randint(-2, 2) for _ in range(k)] for k in n]
    W = np.ones((), dtype=object)
    for p in P:
        W = np.multiply.outer(W, np.array(p, dtype=object))
    checks = [
        lambda: eq('full', tn.full(Y1), D1),
        lambda: eq('get', tn.get(Y1, list(idx)), np.array(D1[idx], dtype=object)),
        lambda: eq('get_many', tn.get_many(Y1, np.array(I)), np.array([D1[tuple(i)] for i in I], dtype=object)),
        lambda: eq('sum', tn.sum(Y1), np.array(D1.sum(), dtype=object)),
        lambda: eq('mean(P)', tn.mean(Y1, P=[np.array(p, dtype=float) for p in P]), np.array((D1 * W).sum(), dtype=object), P),
        lambda: eq('mul_scalar', tn.mul_scalar(Y1, Y2), np.array((D1 * D2).sum(), dtype=object)),
        lambda: eq('add', tn.full(tn.add(Y1, Y2)), D1 + D2),
        lambda: eq('sub', tn.full(tn.sub(Y1, Y2)), D1 - D2),
        lambda: eq('mul', tn.full(tn.mul(Y1, Y2)), D1 * D2),
        lambda: eq('mul(number)', tn.full(tn.mul(Y1, float(x))), D1 * x, x),
        lambda: eq('mul(number, Y)', tn.full(tn.mul(float(x), Y1)), D1 * x, x),
        lambda: eq('add(Y, 1)', tn.full(tn.add(Y1, 1.)), D1 + 1),
        lambda: eq('add(-1, Y)', tn.full(tn.add(-1., Y1)), D1 - 1),
        lambda: eq('sub(Y, 1)', tn.full(tn.sub(Y1, 1.)), D1 - 1),
        lambda: eq('sub(1, Y)', tn.full(tn.sub(1., Y1)), 1 - D1),
        lambda: eq('add(Y, 0)', tn.full(tn.add(Y1, 0.)), D1),
        lambda: eq('outer', tn.full(tn.outer(Y1, Y2)), np.multiply.outer(D1, D2)),
        lambda: eq('copy', tn.full(tn.copy(Y1)), D1),
        lambda: eq('shape', tn.shape(Y1), np.array(n)),
        lambda: eq('ranks', tn.ranks(Y1), np.array(r1)),
        lambda: eq('size', tn.size(Y1), np.array(sum(r1[k] * n[k] * r1[k + 1] for k in range(d)))),
        lambda: eq('interface[0] (norm=None)', tn.interface(Y1, i=np.array(idx), norm=None)[0], np.array([D1[idx]], dtype=object)),
        lambda: eq('interface[-1] (ltr, norm=None)', tn.interface(Y1, i=np.array(idx), norm=None, ltr=True)[-1],
                   np.array([D1[idx]], dtype=object)),
        lambda: eq('interface[0] (P, i, norm=None)', tn.interface(Y1, P=[np.array(p, dtype=float) for p in P], i=np.array(idx), norm=None)[0],
                   np.array([D1[idx] * W[idx]], dtype=object), P),
        lambda: eq('interface[-1] (P, i, ltr, norm=None)', tn.interface(Y1, P=[np.array(p, dtype=float) for p in P], i=np.array(idx), norm=None, ltr=True)[-1],
                   np.array([D1[idx] * W[idx]], dtype=object), P),
        lambda: eq('interface[0] (P, norm=None)', tn.interface(Y1, P=[np.array(p, dtype=float) for p in P], norm=None)[0],
                   np.array([(D1 * W).sum()], dtype=object), P),
        lambda: eq('interface[-1] (P, ltr, norm=None)', tn.interface(Y1, P=[np.array(p, dtype=float) for p in P], norm=None, ltr=True)[-1],
                   np.array([(D1 * W).sum()], dtype=object), P),
        lambda: eq('interface[0] (sum, norm=None)', tn.interface(Y1, norm=None)[0], np.array([D1.sum()], dtype=object)),
    ]
    for ch in checks:
        try:
            f = ch()
        except Exception as ex:
            f = dict(what='public function raised on a valid tensor: ' + repr(ex)[:200],
                     input=dict(n=n, r1=r1, r2=r2, Y1=[G.tolist() for G in Y1], Y2=[G.tolist() for G in Y2]))
        if f:
            return f
    # element gradient: replace core k by a random E, compare with sum E * grad_k
    try:
        v, g = tn.get_and_grad(Y1, np.array(idx))
        if v != D1[idx]:
            return dict(what='get_and_grad value differs from the entry', input=dict(n=n, r1=r1, Y1=[G.tolist() for G in Y1], idx=idx))
        k = rng.randrange(d)
        E = np.array([[[rng.randint(-3, 3) for _ in range(r1[k + 1])] for _ in range(n[k])] for _ in range(r1[k])], dtype=float).reshape(r1[k], n[k], r1[k + 1])
        Yk = [G if j != k else E for j, G in enumerate(Y1)]
        if float((E * g[k]).sum()) != float(dense_int(Yk)[idx]):
            return dict(what='element gradient is not the derivative of the entry w.r.t. core k',
                        input=dict(n=n, r1=r1, Y1=[G.tolist() for G in Y1], idx=idx, k=k, E=E.tolist()))
    except Exception as ex:
        return dict(what='get_and_grad raised: ' + repr(ex)[:200], input=dict(n=n, r1=r1, Y1=[G.tolist() for G in Y1]))
    # float-valued scalars against the dense reference (tolerance: these are not exact)
    F1, F2 = D1.astype(float), D2.astype(float)
    nr = math.sqrt(float((D1 * D1).sum()))
    try:
        if abs(tn.norm(Y1) - nr) > 1e-9 * max(nr, 1):
            return dict(what='norm differs from the dense Frobenius norm', input=dict(n=n, r1=r1, Y1=[G.tolist() for G in Y1]),
                        got=tn.norm(Y1), expected=nr)
        n2 = np.linalg.norm(F2)
        if n2 > 0 and np.linalg.norm(F1 - F2) > 0:
            acc = np.linalg.norm(F1 - F2) / n2
            if abs(tn.accuracy(Y1, Y2) - acc) > 1e-9 * max(acc, 1):
                return dict(what='accuracy differs from ||Y1-Y2||/||Y2||', input=dict(n=n, r1=r1, r2=r2, Y1=[G.tolist() for G in Y1], Y2=[G.tolist() for G in Y2]),
                            got=tn.accuracy(Y1, Y2), expected=acc)
        yd = np.array([rng.randint(-5, 5) for _ in I], dtype=float)
        if np.linalg.norm(yd) > 0:
            ref = np.linalg.norm(np.array([float(D1[tuple(i)]) for i in I]) - yd) / np.linalg.norm(yd)
            got = tn.accuracy_on_data(Y1, np.array(I), yd)
            if abs(got - ref) > 1e-9 * max(ref, 1):
                return dict(what='accuracy_on_data differs from the reference', input=dict(n=n, r1=r1, Y1=[G.tolist() for G in Y1], I=I, y=yd.tolist()),
                            got=got, expected=ref)
        # effective rank: non-negative root of its defining quadratic (r_1 for d = 2)
        er = float(tn.erank(Y1))
        if d == 2:
            ok = er == r1[1]
        else:
            sz = sum(r1[k] * n[k] * r1[k + 1] for k in range(d))
            a, b = sum(n[1:d - 1]), r1[0] * n[0] + n[d - 1] * r1[d]
            ok = er >= 0 and abs(a * er * er + b * er - sz) <= 1e-9 * sz
        if not ok:
            return dict(what='erank is not the root of its defining quadratic', input=dict(n=n, r1=r1), got=er)
    except Exception as ex:
        return dict(what='scalar function raised: ' + repr(ex)[:200], input=dict(n=n, r1=r1, Y1=[G.tolist() for G in Y1]))
    return None


def oracle_forms(tn, rng, n, r1, Y1):
    """argument forms: number operands of every magnitude (incl. |c| <= 1e-16, where const takes its special branch), cores of
    mixed dtype (an int64 core next to float cores with fractional dyadic entries), index arguments as list / int64 / int32
    arrays / tuples.  Exact: entries are multiples of 1/8, so every value is a dyadic rational that floats represent exactly."""
    from fractions import Fraction
    d = len(n)
    j = rng.randrange(d)
    Yi = [np.array(G, dtype=np.int64) if k == j else np.array(G, dtype=float) / 8.0 for k, G in enumerate(Y1)]
    Dq = dense_int(Y1).astype(object)            # numerators: entry = Dq / 8^(d-1)
    sc = Fraction(1, 8 ** (d - 1))
    inp = dict(family='argument forms', n=n, r1=r1, int_core=j, Y1=[G.tolist() for G in Y1])

    def bad(name, got, exp, extra=None):
        got = np.asarray(got, dtype=float)
        expf = np.array([float(x) for x in np.asarray(exp, dtype=object).reshape(-1)]).reshape(np.shape(exp))
        if got.shape != expf.shape or not np.array_equal(got, expf):
            return dict(what=f'{name} differs from the exact reference (mixed-dtype cores / argument forms)', function=name,
                        input=dict(inp, extra=extra), got=got.tolist() if got.size < 100 else 'large',
                        expected=expf.tolist() if expf.size < 100 else 'large')
        return None
    idx = [rng.randrange(k) for k in n]
    ex_idx = Dq[tuple(idx)] * sc
    for form, ii in [('list', list(idx)), ('int64', np.array(idx, dtype=np.int64)), ('int32', np.array(idx, dtype=np.int32)),
                     ('tuple', tuple(idx))]:
        try:
            f = bad(f'get(index as {form})', tn.get(Yi, ii), np.array(ex_idx, dtype=object))
        except Exception as e:
            f = dict(what=f'get(index as {form}) raised {e!r}'[:300], input=inp)
        if f:
            return f
    try:
        f = bad('full', tn.full(Yi), Dq * sc) or bad('sum', tn.sum(Yi), np.array(Dq.sum() * sc, dtype=object))
        if f:
            return f
        v, g = tn.get_and_grad(Yi, np.array(idx))
        f = bad('get_and_grad value', v, np.array(ex_idx, dtype=object))
        if f:
            return f
        # gradient wrt core k at slice idx[k]: left interface x right interface (exact, from multilinearity)
        for k in range(d):
            L = np.ones((1, 1), dtype=object)
            for t in range(k):
                L = L.dot(np.array(Y1[t], dtype=object)[:, idx[t], :] if True else None)
            Rr = np.ones((1, 1), dtype=object)
            for t in range(d - 1, k, -1):
                Rr = np.array(Y1[t], dtype=object)[:, idx[t], :].dot(Rr)
            nfl = sum(1 for t in range(d) if t != k and t != j)       # float cores among the others
            exg = np.zeros(np.shape(Y1[k]), dtype=object)
            exg[:, idx[k], :] = np.outer(L.reshape(-1), Rr.reshape(-1)) * Fraction(1, 8 ** nfl)
            f = bad(f'get_and_grad gradient of core {k}', g[k], exg)
            if f:
                return f
    except Exception as e:
        return dict(what=f'evaluation of a tensor with mixed-dtype cores raised {e!r}'[:300], input=inp)
    # exact power-of-two rescaling of one core (values stay exactly representable): every multilinear routine scales with it
    Yf = [np.array(G, dtype=float) for G in Y1]
    D = dense_int(Y1).astype(object)
    snap = [G.copy() for G in Yf]
    for ex in (-1000, -300, -60, 60, 300, 900):
        jj = rng.randrange(d)
        Ys = [G * 2.0 ** ex if k == jj else G for k, G in enumerate(Yf)]
        fs = Fraction(2) ** ex
        try:
            f = bad(f'full (core {jj} scaled by 2^{ex})', tn.full(Ys), D * fs) or \
                bad(f'sum (core {jj} scaled by 2^{ex})', tn.sum(Ys), np.array(D.sum() * fs, dtype=object)) or \
                bad(f'get (core {jj} scaled by 2^{ex})', tn.get(Ys, idx), np.array(D[tuple(idx)] * fs, dtype=object)) or \
                bad(f'mul_scalar (core {jj} scaled by 2^{ex})', tn.mul_scalar(Ys, Yf), np.array((D * D).sum() * fs, dtype=object)) or \
                bad(f'add (core {jj} scaled by 2^{ex})', tn.full(tn.add(Ys, Ys)), D * (2 * fs)) or \
                bad(f'mul by tensor (core {jj} scaled by 2^{ex})', tn.full(tn.mul(Ys, Yf)), D * D * fs)
        except Exception as e:
            f = dict(what=f'evaluation of a tensor with a core scaled by 2^{ex} raised {e!r}'[:300], input=dict(inp, scale=ex))
        if f:
            f['input'] = dict(f.get('input', inp), scale=ex, scaled_core=jj)
            return f
    # every core scaled by the same power of two (tiny and huge tensors; all values stay exact): accuracy is scale invariant,
    # the stabilised norm / scalar product return (z, p) with z * 2^p the exact value although the plain number under/overflows
    Y2f = [np.array(G, dtype=float) for G in rand_int_tt(rng, n, r1, -4, 4)]
    D2 = dense_int([np.array(G) for G in Y2f]).astype(object)
    nn1, nn2, dd, dot = int((D * D).sum()), int((D2 * D2).sum()), int(((D - D2) * (D - D2)).sum()), int((D * D2).sum())
    for ex in (-250, -100, -37, 41, 100, 250):
        if abs(ex) * d > 1000:
            continue
        Ya, Yb = [G * 2.0 ** ex for G in Yf], [G * 2.0 ** ex for G in Y2f]
        sinp = dict(inp, Y2=[G.tolist() for G in Y2f], all_cores_scaled_by=f'2^{ex}')
        try:
            if nn2 > 0:
                got, exp = float(tn.accuracy(Ya, Yb)), math.sqrt(dd / nn2)
                if not abs(got - exp) <= 1e-9 * max(exp, 1e-3):
                    return dict(what=f'accuracy of two tensors with every core scaled by 2^{ex} differs from ||Y1-Y2||/||Y2||',
                                function='accuracy', input=sinp, got=got, expected=exp)
            if nn1 > 0:
                z, p = tn.norm(Ya, use_stab=True)
                got = math.log2(float(z)) + float(p) if float(z) > 0 else -math.inf
                exp = 0.5 * (math.log2(nn1)) + ex * d
                if not abs(got - exp) <= 1e-6:
                    return dict(what=f'norm(use_stab=True) of a tensor with every core scaled by 2^{ex}: log2(z)+p differs from log2 ||Y||',
                                function='norm', input=sinp, got=[float(z), float(p), got], expected=exp)
            if dot != 0:
                z, p = tn.mul_scalar(Ya, Yb, use_stab=True)
                got = math.log2(abs(float(z))) + float(p) if float(z) != 0 else -math.inf
                exp = math.log2(abs(dot)) + 2 * ex * d
                if not (abs(got - exp) <= 1e-6 and (float(z) > 0) == (dot > 0)):
                    return dict(what=f'mul_scalar(use_stab=True) of tensors with every core scaled by 2^{ex}: z*2^p differs from <Y1,Y2>',
                                function='mul_scalar', input=sinp, got=[float(z), float(p), got], expected=exp)
        except Exception as e:
            return dict(what=f'accuracy / stabilised norm / scalar product with every core scaled by 2^{ex} raised {e!r}'[:300], input=sinp)
    # the documented one-list form of the weights (one vector shared by all modes, all modes equal): must give exactly what
    # the per-mode form with that vector repeated gives (which the correspondence ties to the model), both sweeps, with / without i
    du = rng.choice([2, 3, 4])
    mu = rng.choice([2, 3])
    nu = [mu] * du
    Yu = [np.array(G, dtype=float) for G in rand_int_tt(rng, nu, rand_profile(rng, du, 3), -4, 4)]
    pf = [float(rng.randint(-3, 3)) for _ in range(mu)]
    if pf == pf[::-1]:
        pf[0] += 1.0
    iu = [rng.randrange(mu) for _ in range(du)]
    for ltr in (False, True):
        for ii in (None, np.array(iu)):
            for nm in (None, 'natural'):
                for form, pflat in (('list of floats', list(pf)), ('float64 array', np.array(pf)), ('list of ints', [int(x) for x in pf])):
                    try:
                        a = tn.interface(Yu, P=pflat, i=ii, norm=nm, ltr=ltr)
                        b = tn.interface(Yu, P=[np.array(pf) for _ in range(du)], i=ii, norm=nm, ltr=ltr)
                        if len(a) != len(b) or any(np.shape(x) != np.shape(y) or not np.array_equal(x, y) for x, y in zip(a, b)):
                            return dict(what=f'interface with the shared weight vector given as one {form} differs from the per-mode form '
                                             f'with that vector repeated (ltr={ltr}, i={"given" if ii is not None else "None"}, norm={nm})',
                                        function='interface', input=dict(inp, shared_P=pf, nu=nu, Yu=[G.tolist() for G in Yu], iu=iu),
                                        got=[np.asarray(x).tolist() for x in a], expected=[np.asarray(x).tolist() for x in b])
                    except Exception as e:
                        return dict(what=f'interface with a shared weight vector ({form}) raised {e!r}'[:300],
                                    input=dict(inp, shared_P=pf, nu=nu))
    # history: the same objects went through every call above and must be bit-identical
    for G0, G1 in zip(snap, Yf):
        if G0.tobytes() != G1.tobytes() or G0.shape != G1.shape:
            return dict(what='an evaluation / algebra routine modified its argument (bytes of a core changed)', input=inp)
    # number operands on either side, every magnitude
    D = dense_int(Y1).astype(float)
    mx = max(1.0, float(np.abs(D).max()))
    for c in [0.0, 1.0, -2.5, 3, np.float64(0.5), 1e-17, -7e-20, 5e-300, 2.5e-17, 1e-16, -1e-16, 1.0000001e-16, -1e-15]:
        for name, fn, ref in [('add(Y, c)', lambda: tn.add(Yf, c), D + float(c)), ('add(c, Y)', lambda: tn.add(c, Yf), D + float(c)),
                              ('sub(Y, c)', lambda: tn.sub(Yf, c), D - float(c)), ('sub(c, Y)', lambda: tn.sub(c, Yf), float(c) - D),
                              ('mul(Y, c)', lambda: tn.mul(Yf, c), D * float(c)), ('mul(c, Y)', lambda: tn.mul(c, Yf), D * float(c))]:
            try:
                got = np.asarray(tn.full(fn()), dtype=float)
                tol = 1e-12 * mx * max(1.0, abs(float(c))) if 'mul' not in name else 1e-12 * mx * abs(float(c)) + 1e-320
                if got.shape != ref.shape or not np.all(np.abs(got - ref) <= tol):
                    return dict(what=f'{name} with the number c = {float(c)!r} differs from the dense reference', function=name,
                                input=dict(inp, c=float(c)), got=got.reshape(-1)[:8].tolist(), expected=ref.reshape(-1)[:8].tolist())
            except Exception as e:
                return dict(what=f'{name} with the number c = {float(c)!r} raised {e!r}'[:300], input=dict(inp, c=float(c)))
    return None


def search(R, ctx, deep, hints):
    tn = C.import_teneva()
    rng = ctx['rng']
    fails, n_eval = [], 0
    cases = []
    for h in hints[:20]:
        inp = h.get('input', {})
        if 'Y1' in inp and 'Y2' in inp and 'n' in inp:
            try:
                Y1 = [np.array(G, dtype=float) for G in inp['Y1']]
                Y2 = [np.array(G, dtype=float) for G in inp['Y2']]
                if all_int(np.concatenate([G.reshape(-1) for G in Y1 + Y2])):
                    cases.append((inp['n'], inp['r1'], inp['r2'], Y1, Y2))
            except Exception:
                pass
    # degenerate families first: d = 2, mode size 1, rank 1, over-ranked, zero tensor
    for n, r1, r2 in [([2, 3], [1, 1, 1], [1, 2, 1]), ([1, 1], [1, 3, 1], [1, 1, 1]), ([3, 1, 2], [1, 4, 5, 1], [1, 1, 1, 1]),
                      ([2, 2, 2, 2], [1, 2, 5, 2, 1], [1, 3, 1, 2, 1]), ([1, 3, 1, 2, 2], [1, 2, 2, 2, 2, 1], [1, 1, 2, 1, 2, 1])]:
        cases.append((n, r1, r2, rand_int_tt(rng, n, r1), rand_int_tt(rng, n, r2)))
    n0 = [2, 3, 2]
    cases.append((n0, [1, 2, 2, 1], [1, 1, 1, 1], [np.zeros((1, 2, 2)), np.zeros((2, 3, 2)), np.zeros((2, 2, 1))], rand_int_tt(rng, n0, [1, 1, 1, 1])))
    for _ in range(300 if deep else 40):
        d = rng.choice([2, 3, 4, 5])
        n = [rng.randint(1, 3) for _ in range(d)]
        r1, r2 = rand_profile(rng, d, 3, big=rng.random() < 0.1), rand_profile(rng, d, 3)
        cases.append((n, r1, r2, rand_int_tt(rng, n, r1, -4, 4), rand_int_tt(rng, n, r2, -4, 4)))
    for n, r1, r2, Y1, Y2 in cases:
        n_eval += 1
        f = oracle_case(tn, rng, n, r1, r2, Y1, Y2)
        if f:
            fails.append(f)
            if len(fails) >= 3:
                break
    # argument forms (dtype of cores, form of indices, magnitude / type of number operands)
    for n, r1, r2, Y1, Y2 in cases[:(60 if deep else 12)]:
        if len(fails) >= 3:
            break
        if int(np.prod(n)) > 200:
            continue
        n_eval += 1
        f = oracle_forms(tn, rng, n, r1, Y1)
        if f:
            fails.append(f)
    # expression trees against dense integer evaluation
    for _ in range(60 if deep else 15):
        d = rng.choice([2, 3])
        n = [rng.randint(1, 3) for _ in range(d)]
        e = gen_expr(rng, n, rng.randint(1, 3))
        n_eval += 1
        try:
            got = np.asarray(tn.full(eval_expr_impl(tn, e)), dtype=float)
            exp = eval_expr_dense(e).astype(float)
            if got.shape != exp.shape or not np.array_equal(got, exp):
                fails.append(dict(what='expression tree evaluated in TT form differs from dense evaluation',
                                  input=dict(n=n, expr=repr(e)[:3000]), got=got.tolist(), expected=exp.tolist()))
        except Exception as ex:
            fails.append(dict(what='expression tree raised: ' + repr(ex)[:200], input=dict(n=n, expr=repr(e)[:3000])))
        if len(fails) >= 3:
            break
    # long separable chains (more elements than an int64 can count): exact reference by Fraction, factor by factor
    from fractions import Fraction
    for _ in range(40 if deep else 10):
        if len(fails) >= 3:
            break
        d = rng.randint(64, 100)
        n = [rng.choice([2, 3, 4, 5, 10]) for _ in range(d)]
        terms = []
        for _t in range(rng.randint(1, 2)):
            terms.append([[rng.choice([1, 1, 2, -1, 3]) for _ in range(k)] for k in n])
        Y = [np.array(v, dtype=float).reshape(1, -1, 1) for v in terms[0]]
        for vs in terms[1:]:
            Y = tn.add(Y, [np.array(v, dtype=float).reshape(1, -1, 1) for v in vs])
        idx = [rng.randrange(k) for k in n]
        ex_sum = sum(math.prod(Fraction(sum(v)) for v in vs) for vs in terms)
        ex_mean = sum(math.prod(Fraction(sum(v), len(v)) for v in vs) for vs in terms)
        ex_get = sum(math.prod(Fraction(v[i]) for v, i in zip(vs, idx)) for vs in terms)
        ex_dot = sum(math.prod(Fraction(sum(a * b for a, b in zip(v, w))) for v, w in zip(vs, ws)) for vs in terms for ws in terms)
        n_eval += 1
        inp = dict(family='long separable chain', n=n, terms=terms, idx=idx)
        for nm, got, ex in [('sum', lambda: tn.sum(Y), ex_sum), ('mean', lambda: tn.mean(Y), ex_mean),
                            ('get', lambda: tn.get(Y, idx), ex_get), ('mul_scalar', lambda: tn.mul_scalar(Y, Y), ex_dot),
                            ('norm', lambda: tn.norm(Y) ** 2, ex_dot)]:
            try:
                g = float(got())
                sc = sum(abs(math.prod(Fraction(sum(abs(x) for x in v)) for v in vs)) for vs in terms) if nm != 'mean' else \
                    sum(abs(math.prod(Fraction(sum(abs(x) for x in v), len(v)) for v in vs)) for vs in terms)
                if nm in ('mul_scalar', 'norm'):
                    sc = sc * sc
                if nm == 'get':
                    sc = sum(abs(math.prod(Fraction(abs(v[i])) for v, i in zip(vs, idx))) for vs in terms)
                if not (math.isfinite(g) and abs(Fraction(g) - ex) <= Fraction(1, 10 ** 9) * max(sc, Fraction(1, 10 ** 300))):
                    fails.append(dict(what=f'{nm} of a long separable chain (d={d}, {float(math.prod(n)):.3g} elements) differs from the exact value',
                                      input=inp, got=g, expected=float(ex)))
                    break
            except Exception as ex_:
                fails.append(dict(what=f'{nm} of a long separable chain raised {ex_!r}'[:300], input=inp))
                break
    R.search.append(dict(name='dense exact-integer reference (python ints, explicit loops)', evaluations=n_eval,
                         failures=len(fails), deep=deep))
    return fails


def replay(data):
    tn = C.import_teneva()
    p = data['payload']
    print(data['what'])
    inp = p.get('input', {})
    if 'Y1' in inp and 'Y2' in inp:
        Y1 = [np.array(G, dtype=float) for G in inp['Y1']]
        Y2 = [np.array(G, dtype=float) for G in inp['Y2']]
        f = oracle_case(tn, C.Rng(0), inp['n'], inp['r1'], inp['r2'], Y1, Y2)
        print('replayed:', f)
        return 1 if f else 0
    if inp.get('family') == 'argument forms':
        f = oracle_forms(tn, C.Rng(0), inp['n'], inp['r1'], [np.array(G, dtype=float) for G in inp['Y1']])
        print('replayed:', f and f['what'])
        return 1 if f else 0
    if inp.get('family') == 'long separable chain':
        from fractions import Fraction
        terms, n = inp['terms'], inp['n']
        Y = [np.array(v, dtype=float).reshape(1, -1, 1) for v in terms[0]]
        for vs in terms[1:]:
            Y = tn.add(Y, [np.array(v, dtype=float).reshape(1, -1, 1) for v in vs])
        ex_mean = sum(math.prod(Fraction(sum(v), len(v)) for v in vs) for vs in terms)
        ex_sum = sum(math.prod(Fraction(sum(v)) for v in vs) for vs in terms)
        g1, g2 = float(tn.mean(Y)), float(tn.sum(Y))
        print('mean', g1, 'exact', float(ex_mean), '| sum', g2, 'exact', float(ex_sum))
        bad = lambda g, e: not (math.isfinite(g) and abs(Fraction(g) - e) <= Fraction(1, 10 ** 6) * max(abs(e), Fraction(1, 10 ** 300)))
        return 1 if (bad(g1, ex_mean) or bad(g2, ex_sum)) else 0
    print(inp)
    return 1
