"""C19 — explicit constructors build exactly the tensor they describe."""
import itertools
import math
import numpy as np
from harness import common as C

THEOREMS = 'Properties/C19.v'
CLAIM = dict(
    text='Coq theorems (all d, all shapes, ring-generic; Qc instance where the sign law |v|/v*|v| = v is needed) about '
         'the model Model/Tensors.v: const = v everywhere given the root law rho^d=|v| (v>0, v<0, v=0, tiny branch); the '
         'round-robin zeroing loop (exact model of cursor / skiped / wraps): values in {v,0}, zero at every listed index, '
         'v at the protected index, Err ValueError iff a listed index equals the protected one, never another error on '
         'in-range inputs; delta / vector_delta / matrix_delta: v at the position (negative positions normalised) and 0 '
         'elsewhere, out-of-range => error; poly = scale*sum_k (i_k+shift_k)^power; rand_custom layout '
         '(Fortran-ordered cut of ONE flat vector), well-formedness, shape and rank profile, every entry is a drawn value; '
         'rand_stab = chain of rectangular identities + noise, all-ones for zero noise, and a perturbation bound over R.',
    note='vector_delta / matrix_delta theorems carry q <= 53: _vector_index_expand uses int(i/2) (float division), which '
         'is modelled exactly (py_half) and is inexact from 2^53 on. power is a natural exponent in the model. '
         'Range / distribution of random entries is the generator contract (oracle); the theorem transports any '
         'predicate of the drawn values to the core entries.',
    technique='Coq proof (induction over the chain, cursor invariant of the zeroing loop, binary digits) + exact '
              'model/implementation correspondence (PrimFloat / Z instances, cores compared exactly) + dense numpy oracle')
TRUSTED = ['Coq 8.16.1 kernel + vm_compute (case evaluation only)',
           'hand-written model Model/Tensors.v tied to tensors.py / vectors.py / matrices.py / utils.py by exact '
           'correspondence of the returned cores',
           'oracle contracts: d-th root (rho^d = |v|, validated to 1e-12 on every case), numpy Generator '
           '(uniform/normal return `size` values; normal(0, s) = s * standard normal), Python int true division '
           'correctly rounded (py_half)',
           'numpy semantics of reshape(order=F), negative indexing, np.eye as re-expressed in the model']
ASSUMPTIONS = ['indices of const (I_zero, i_non_zero) are in range 0 <= i < n_k and of length d in the theorems '
               '(numpy negative / out-of-range indices are modelled and compared, not part of the property)',
               'vector_delta / matrix_delta theorems: 1 <= q <= 53']

TINY = 1e-16

HEADER = r'''From Coq Require Import List ZArith Floats.
From TV Require Import Num.Ops Num.InstF TT.Chain Model.Tensors.
Import ListNotations.
Definition dimsZ {T} (G : core T) : list Z := [Z.of_nat (cr1 G); Z.of_nat (cn G); Z.of_nat (cr2 G)].
Definition showZ (r : result (list (core Z))) : Z * list (list Z * list (list (list Z))) :=
  match r with Ok Y => (0%Z, map (fun G => (dimsZ G, dat G)) Y) | Err e => (err_code e, []) end.
Definition showF (r : result (list (core float))) : Z * list (list Z * list (list (list (Z * Z)))) :=
  match r with Ok Y => (0%Z, map (fun G => (dimsZ G, map (map (map F_show)) (dat G))) Y) | Err e => (err_code e, []) end.
Definition aran (n : nat) : list Z := map Z.of_nat (seq 0 n).
Definition lk3 {T} (dflt : T) (REC : list (list (list (list T)))) (k a p b : nat) : T :=
  nth b (nth p (nth a (nth k REC []) []) []) dflt.
Definition tinyF : float := (0x1.cd2b297d889bcp-54)%float.
'''
assert (1e-16).hex() == '0x1.cd2b297d889bcp-54'


# ----------------------------------------------------------------------------------------------
# helpers
# ----------------------------------------------------------------------------------------------

def F(x):
    return f'({C.flit(float(x))})%float'


def Zv(x):
    return f'({int(x)})%Z'


def Zl(xs):
    return '[' + '; '.join(C.zlit(x) for x in xs) + ']%Z'


def Nl(xs):
    return '[' + '; '.join(str(int(x)) for x in xs) + ']%nat'


def ZZl(xss):
    return '[' + '; '.join(Zl(x) for x in xss) + ']'


def opt(x, f):
    return 'None' if x is None else f'(Some {f(x)})'


def rarg(r):
    return f'(inl {int(r)}%nat)' if isinstance(r, int) else f'(inr {Nl(r)})'


def impl_cores(f, *a, reshape4=False, **k):
    """[code, [[dims, data], ...]] of an implementation call"""
    try:
        Y = f(*a, **k)
    except Exception as e:  # noqa
        return [C.errclass(e), []]
    out = []
    for G in Y:
        G = np.asarray(G)
        if reshape4:
            if G.ndim != 4 or G.shape[1:3] != (2, 2):
                return [99, [list(G.shape)]]
            G = G.reshape(G.shape[0], 4, G.shape[3])
        if G.ndim != 3 or G.dtype != np.float64:
            return [98, [list(G.shape), str(G.dtype)]]
        out.append([list(G.shape), G.tolist()])
    return [0, out]


def normZ(v):
    code, cores = v
    return [code, [[list(dims), [[list(row) for row in sl] for sl in dat]] for dims, dat in cores]]


def normF(v):
    code, cores = v
    return [code, [[list(dims), [[[C.float_of_show(x) for x in row] for row in sl] for sl in dat]]
                   for dims, dat in cores]]


def root(v, d):
    """the oracle value: what `abs(v)**(1./d)` is for a Python float"""
    return abs(v) ** (1. / d)


V_FAMILY = [1., -1., 2., -2., 8., -27., 0.5, -0.125, 3.7, -41.25, 1e10, -1e-10, 1e300, -1e-300,
            0., -0., 1e-17, -1e-17, 1e-16, -1e-16, 1.0000000000000002e-16, 5e-324, 7e-16]


def gen_shape(rng, dmin=1, dmax=5, nmax=4, nmin=1):
    d = rng.randint(dmin, dmax)
    return [rng.randint(nmin, nmax) for _ in range(d)]


def gen_zero_case(rng, ns, kind):
    """(I_zero, i_non_zero) of the given kind"""
    d = len(ns)
    rnd = lambda: [rng.randrange(n) for n in ns]  # noqa
    inz = rnd() if kind != 'noprot' else None
    m = rng.choice([0, 1, 2, d, d + 1, 2 * d + 3])
    Iz = []
    for _ in range(m):
        if kind in ('noprot', 'random'):
            Iz.append(rnd())
        elif kind == 'near':        # equal to the protected index except in one or two modes: forces skips
            z = list(inz)
            for k in rng.sample(range(d), min(d, rng.choice([1, 1, 2]))):
                z[k] = rng.randrange(ns[k])
            Iz.append(z)
        elif kind == 'repeat':
            Iz.append(Iz[0] if Iz and rng.random() < 0.6 else rnd())
        elif kind == 'conflict':
            Iz.append(rnd())
    if kind == 'conflict':
        Iz.insert(rng.randint(0, len(Iz)), list(inz))
    return Iz, inz


# ----------------------------------------------------------------------------------------------
# correspondence
# ----------------------------------------------------------------------------------------------

def correspondence(R, ctx):
    tn = C.import_teneva()
    rng = ctx['rng']
    T = ctx['thorough']
    bad = []

    # ---------- const (PrimFloat instance, cores exact) ----------
    items, dist = [], dict(v_family=len(V_FAMILY), plain=0, zero_kinds={}, malformed=0, root_residual_max=0.)
    def const_item(ns, v, Iz, inz, tag):
        d = len(ns)
        rho = root(v, d) if d else 1.
        if d and abs(v) > TINY and rho ** d != 0 and math.isfinite(rho ** d):
            dist['root_residual_max'] = max(dist['root_residual_max'], abs(rho ** d - abs(v)) / abs(v))
        coq = (f'showF (const OF tinyF (fun _ => {F(rho)}) {Nl(ns)} {F(v)} {opt(Iz, ZZl)} {opt(inz, Zl)})')
        kw = {}
        if Iz is not None:
            kw['I_zero'] = Iz
        if inz is not None:
            kw['i_non_zero'] = inz
        items.append(dict(coq=coq, impl=impl_cores(tn.const, ns, v, **kw), input=['const', tag, ns, v.hex(), Iz, inz]))
    for v in V_FAMILY:
        for d in [1, 2, 3, 5]:
            ns = [rng.randint(1, 3) for _ in range(d)]
            const_item(ns, v, None, None, 'plain')
            dist['plain'] += 1
    for _ in range(40 if not T else 400):
        const_item(gen_shape(rng, 1, 6), rng.choice([1, -1]) * math.ldexp(rng.random() + 0.5, rng.randint(-60, 60)),
                   None, None, 'plain')
        dist['plain'] += 1
    for kind in ['noprot', 'random', 'near', 'repeat', 'conflict']:
        for _ in range(40 if not T else 600):
            ns = gen_shape(rng, 1, 5, 4, 1 if rng.random() < 0.3 else 2)
            v = rng.choice(V_FAMILY + [float(rng.randint(-9, 9)) for _ in range(8)])
            Iz, inz = gen_zero_case(rng, ns, kind)
            const_item(ns, v, Iz, inz, kind)
            dist['zero_kinds'][kind] = dist['zero_kinds'].get(kind, 0) + 1
    # malformed: numpy negative / out-of-range indices, short index lists, I_zero given but i_non_zero None
    for _ in range(30 if not T else 200):
        ns = gen_shape(rng, 2, 4, 4, 2)
        d = len(ns)
        Iz, inz = gen_zero_case(rng, ns, 'random')
        if not Iz:
            Iz = [[0] * d]
        z = rng.randrange(len(Iz))
        k = rng.randrange(d)
        how = rng.choice(['neg', 'oob', 'oobneg', 'short', 'protneg'])
        Iz = [list(x) for x in Iz]
        if how == 'neg':
            Iz[z][k] = -rng.randint(1, ns[k])
        elif how == 'oob':
            Iz[z][k] = ns[k] + rng.randint(0, 2)
        elif how == 'oobneg':
            Iz[z][k] = -ns[k] - rng.randint(1, 2)
        elif how == 'short':
            Iz[z] = Iz[z][:d - 1]
        elif how == 'protneg':
            inz[k] = inz[k] - ns[k]
        const_item(ns, float(rng.randint(1, 5)), Iz, inz, 'malformed-' + how)
        dist['malformed'] += 1
    bad += C.exact_corr(R, 'const', HEADER, items, chunk=40, norm=normF, distribution=dist)

    # ---------- delta (PrimFloat instance, cores exact) ----------
    items, dist = [], dict(valid=0, negative=0, out_of_range=0, short=0)
    for v in V_FAMILY + [float(rng.randint(-9, 9)) for _ in range(20 if not T else 200)]:
        for _ in range(2):
            ns = gen_shape(rng, 1, 5)
            d = len(ns)
            i = [rng.randrange(n) for n in ns]
            how = rng.choice(['valid', 'valid', 'negative', 'negative', 'out_of_range', 'short'])
            if how == 'negative':
                for k in rng.sample(range(d), rng.randint(1, d)):
                    i[k] -= ns[k]
            elif how == 'out_of_range':
                k = rng.randrange(d)
                i[k] = rng.choice([ns[k], ns[k] + 1, -ns[k] - 1])
            elif how == 'short':
                i = i[:d - 1]
            dist[how] += 1
            rho = root(v, d)
            items.append(dict(coq=f'showF (delta OF tinyF (fun _ => {F(rho)}) {Nl(ns)} {Zl(i)} {F(v)})',
                              impl=impl_cores(tn.delta, ns, i, v), input=['delta', how, ns, i, v.hex()]))
    bad += C.exact_corr(R, 'delta', HEADER, items, chunk=40, norm=normF, distribution=dist)

    # ---------- vector_delta / matrix_delta (Z instance, exhaustive positions, cores exact) ----------
    qmax = 6 if T else 4
    items, dist = [], dict(exhaustive_q=qmax, vector=0, matrix=0, large_q=0, q0=0)
    for q in range(0, qmax + 1):
        n = 2 ** q
        for i in range(-n - 2, n + 2):
            v = rng.choice([1, 2, -3, 7, 0, 5])
            items.append(dict(coq=f'showZ (vector_delta OZ {q} {Zv(i)} {Zv(v)})',
                              impl=impl_cores(tn.vector_delta, q, i, float(v)), input=['vector_delta', q, i, v]))
            dist['vector'] += 1
    for q in range(0, qmax + 1):
        n = 2 ** q
        rngq = range(-n - 1, n + 1)
        for i in rngq:
            for j in rngq:
                v = rng.choice([1, 2, -3, 7, 0, 5])
                items.append(dict(coq=f'showZ (matrix_delta OZ {q} {Zv(i)} {Zv(j)} {Zv(v)})',
                                  impl=impl_cores(tn.matrix_delta, q, i, j, float(v), reshape4=True),
                                  input=['matrix_delta', q, i, j, v]))
                dist['matrix'] += 1
    # large q: the float division int(i/2) of _vector_index_expand is modelled exactly (py_half)
    for _ in range(60 if not T else 600):
        q = rng.choice([10, 20, 31, 32, 33, 52, 53, 54, 55, 60, 64])
        n = 2 ** q
        i = rng.choice([rng.randrange(-n, n), n - 1, -n, n, -n - 1, -1, 0, rng.randrange(n) | 1,
                        n - rng.randint(1, 9), rng.randrange(max(1, n // 2), n)])
        items.append(dict(coq=f'showZ (vector_delta OZ {q} {Zv(i)} 3%Z)',
                          impl=impl_cores(tn.vector_delta, q, i, 3.), input=['vector_delta', q, i, 3]))
        if rng.random() < 0.3:
            j = rng.randrange(-n, n)
            items.append(dict(coq=f'showZ (matrix_delta OZ {q} {Zv(i)} {Zv(j)} 3%Z)',
                              impl=impl_cores(tn.matrix_delta, q, i, j, 3., reshape4=True),
                              input=['matrix_delta', q, i, j, 3]))
        dist['large_q'] += 1
    bad += C.exact_corr(R, 'qtt_delta', HEADER, items, chunk=200, norm=normZ, distribution=dist)

    # ---------- poly (Z instance, integer shifts / powers / scales, cores exact) ----------
    items, dist = [], dict(scalar_shift=0, list_shift=0, short_shift=0, d1=0, d2=0)
    for _ in range(120 if not T else 1500):
        ns = gen_shape(rng, 1, 5, 5)
        d = len(ns)
        power = rng.randint(0, 5)
        scale = rng.choice([1, -1, 2, 3, -5, 0, 10])
        how = rng.choice(['scalar', 'list', 'list', 'short'])
        if how == 'scalar':
            sh = rng.randint(-4, 4)
            coq_sh, py_sh = f'(inl {Zv(sh)})', float(sh)
            dist['scalar_shift'] += 1
        else:
            sh = [rng.randint(-4, 4) for _ in range(d)]
            if how == 'short':
                sh = sh[:rng.randint(0, d - 1)]
                dist['short_shift'] += 1
            else:
                dist['list_shift'] += 1
            coq_sh, py_sh = f'(inr {Zl(sh)})', [float(x) for x in sh]
        dist['d1'] += d == 1
        dist['d2'] += d == 2
        items.append(dict(coq=f'showZ (poly OZ {Nl(ns)} {coq_sh} {power}%nat {Zv(scale)})',
                          impl=impl_cores(tn.poly, ns, py_sh, power, float(scale)),
                          input=['poly', ns, sh, power, scale]))
    bad += C.exact_corr(R, 'poly', HEADER, items, chunk=60, norm=normZ, distribution=dist)

    # ---------- rand_custom / rand / rand_norm (Z instance; the generator is an auditing one) ----------
    class Audit:
        """stands for a numpy Generator (teneva._rand returns a non-int seed unchanged): the arguments of the
        call are visible in the values it returns"""
        def __init__(self):
            self.calls = 0
        def uniform(self, a, b, size=None):
            self.calls += 1
            return a + b * np.arange(int(size), dtype=float) + 1000 * (self.calls - 1)
        def normal(self, m, s, size=None):
            self.calls += 1
            if isinstance(size, tuple):   # rand_stab: loc + scale * (1000 * call + C-order position)
                N = int(np.prod(size))
                return m + s * (1000. * (self.calls - 1) + np.arange(N, dtype=float).reshape(size))
            return m + s * np.arange(int(size), dtype=float) + 1000 * (self.calls - 1)
    def gen_ranks(d):
        if rng.random() < 0.4:
            return rng.randint(1, 4)
        return [1] + [rng.randint(1, 4) for _ in range(d - 1)] + [1]
    items, dist = [], dict(rand_custom=0, rand=0, rand_norm=0, scalar_rank=0, per_bond=0, open_ranks=0)
    for _ in range(150 if not T else 1500):
        ns = gen_shape(rng, 1, 5, 4)
        d = len(ns)
        r = gen_ranks(d)
        if not isinstance(r, int) and rng.random() < 0.1:   # the code does not insist on boundary ranks 1
            r[0], r[-1] = rng.randint(1, 3), rng.randint(1, 3)
            dist['open_ranks'] += 1
        dist['scalar_rank' if isinstance(r, int) else 'per_bond'] += 1
        which = rng.choice(['rand_custom', 'rand', 'rand_norm'])
        dist[which] += 1
        rpy = r if isinstance(r, int) else list(r)
        if which == 'rand_custom':
            items.append(dict(coq=f'showZ (rand_custom OZ {Nl(ns)} {rarg(r)} aran)',
                              impl=impl_cores(tn.rand_custom, ns, rpy, lambda size: np.arange(size)),
                              input=[which, ns, r]))
        else:
            a, b = rng.randint(-5, 5), rng.randint(1, 5)
            gen = '(fun a b size => map (fun t => a + b * t) (aran size))%Z'
            items.append(dict(coq=f'showZ ({which} OZ {Nl(ns)} {rarg(r)} {Zv(a)} {Zv(b)} {gen})',
                              impl=impl_cores(getattr(tn, which), ns, rpy, float(a), float(b), Audit()),
                              input=[which, ns, r, a, b]))
    bad += C.exact_corr(R, 'rand_layout', HEADER, items, chunk=60, norm=normZ, distribution=dist)

    # ---------- rand_stab ----------
    items, dist = [], dict(audit=0, zero_noise_real_generator=0)
    for _ in range(60 if not T else 600):
        ns = gen_shape(rng, 1, 5, 3)
        d = len(ns)
        r = gen_ranks(d)
        rpy = r if isinstance(r, int) else list(r)
        if rng.random() < 0.7:
            noise = rng.randint(-3, 3)
            gen = ('(fun k loc s sz a p b => let \'(r1, n, r2) := sz in '
                   'loc + s * (1000 * Z.of_nat k + Z.of_nat ((a * n + p) * r2 + b)))%Z')
            items.append(dict(coq=f'showZ (Ok (rand_stab OZ {Nl(ns)} {rarg(r)} {Zv(noise)} {gen}))',
                              impl=impl_cores(tn.rand_stab, ns, rpy, float(noise), Audit()),
                              input=['rand_stab-audit', ns, r, noise]))
            dist['audit'] += 1
        else:
            seed = rng.randrange(10 ** 6)
            items.append(dict(coq=f'showZ (Ok (rand_stab OZ {Nl(ns)} {rarg(r)} 0%Z (fun _ _ _ _ _ _ _ => 0)%Z))',
                              impl=impl_cores(tn.rand_stab, ns, rpy, 0., seed),
                              input=['rand_stab-zero-noise', ns, r, seed]))
            dist['zero_noise_real_generator'] += 1
    bad += C.exact_corr(R, 'rand_stab', HEADER, items, chunk=60, norm=normZ, distribution=dist)

    # rand_stab with the real generator and small noise: PrimFloat instance, the draws are replayed as the oracle
    items, dist = [], dict(real_generator_small_noise=0)
    for _ in range(30 if not T else 300):
        ns = gen_shape(rng, 1, 4, 3)
        d = len(ns)
        r = gen_ranks(d)
        rs = [1] + [r] * (d - 1) + [1] if isinstance(r, int) else list(r)
        seed = rng.randrange(10 ** 6)
        noise = rng.choice([1e-15, 1e-10, 1e-3, 0.5])
        g = np.random.default_rng(seed)
        rec = [g.normal(0., noise, size=(rs[k], ns[k], rs[k + 1])).tolist() for k in range(d)]
        items.append(dict(coq=f'showF (Ok (rand_stab OF {Nl(ns)} {rarg(r)} {F(noise)} '
                              f'(fun k _ _ _ a p b => lk3 0%float {C.nested(rec, F)} k a p b)))',
                          impl=impl_cores(tn.rand_stab, ns, r if isinstance(r, int) else list(r), noise, seed),
                          input=['rand_stab-real', ns, r, noise, seed]))
        dist['real_generator_small_noise'] += 1
    bad += C.exact_corr(R, 'rand_stab_float', HEADER, items, chunk=10, norm=normF, distribution=dist)
    return bad


# ----------------------------------------------------------------------------------------------
# property-level oracle on the implementation (independent of the model)
# ----------------------------------------------------------------------------------------------

def _dense(Y):
    """dense export by explicit contraction (independent of teneva.full)"""
    Z = np.ones((1, 1))
    for G in Y:
        G = np.asarray(G)
        r1, r2 = G.shape[0], G.shape[-1]
        Z = (Z @ G.reshape(r1, -1)).reshape(-1, r2)
    return Z


def _full(Y):
    return _dense(Y).reshape([np.asarray(G).shape[1] for G in Y])


def _close(a, b, tol=1e-10):
    return abs(a - b) <= tol * max(abs(a), abs(b), 1e-300)


def check_const(tn, inp):
    ns, v, Iz, inz = inp['ns'], float.fromhex(inp['v']), inp['Iz'], inp['inz']
    conflict = inz is not None and Iz is not None and any(list(z) == list(inz) for z in Iz)
    kw = {}
    if Iz is not None:
        kw['I_zero'] = Iz
    if inz is not None:
        kw['i_non_zero'] = inz
    try:
        Y = tn.const(ns, v, **kw)
    except ValueError as e:
        if conflict:
            return None
        return dict(what='const raised ValueError without a conflicting request: ' + repr(e)[:100])
    except Exception as e:  # noqa
        return dict(what='const raised ' + repr(e)[:150])
    if conflict:
        return dict(what='const accepted a zero index equal to the protected index')
    if [np.asarray(G).shape for G in Y] != [(1, k, 1) for k in ns]:
        return dict(what='const: wrong core shapes', got=[list(np.asarray(G).shape) for G in Y])
    A = _full(Y)
    for idx in itertools.product(*[range(k) for k in ns]):
        x = A[idx]
        if not (x == 0 or _close(x, v)):
            return dict(what='const: an entry is neither v nor 0', got=[list(idx), float(x)], expected=v)
        if Iz is None and not (_close(x, v) and (x != 0 or v == 0)):
            return dict(what='const without zero list is not v everywhere', got=[list(idx), float(x)], expected=v)
    for z in (Iz or []):
        if A[tuple(z)] != 0:
            return dict(what='const is not zero at a listed zero index', got=[list(z), float(A[tuple(z)])])
    if inz is not None and not (_close(A[tuple(inz)], v) and (A[tuple(inz)] != 0 or v == 0)):
        return dict(what='const is not v at the protected index', got=[list(inz), float(A[tuple(inz)])], expected=v)
    return None


def check_delta(tn, inp):
    ns, i, v = inp['ns'], inp['i'], float.fromhex(inp['v'])
    ns0, i0 = list(ns), list(i)
    try:
        A = _full(tn.delta(ns0, i0, v))
    except Exception as e:  # noqa
        return dict(what='delta raised on a valid position: ' + repr(e)[:150])
    if ns0 != list(ns) or i0 != list(i):
        return dict(what='delta modified its shape / position argument (a reused index object would address another entry)',
                    got=[ns0, i0], expected=[list(ns), list(i)])
    E = np.zeros(ns)
    E[tuple(x % n for x, n in zip(i, ns))] = v
    if A.shape != E.shape or not np.allclose(A, E, rtol=1e-10, atol=0) or np.count_nonzero(A) != np.count_nonzero(E):
        return dict(what='delta tensor is not v at the position and 0 elsewhere', got=A.tolist(), expected=E.tolist())
    return None


def check_vector_delta(tn, inp):
    q, i, v = inp['q'], inp['i'], float(inp['v'])
    n = 2 ** q
    try:
        Y = tn.vector_delta(q, i, v)
    except ValueError:
        return None if not (-n <= i < n) else dict(what='vector_delta raised ValueError on an in-range position')
    except Exception as e:  # noqa
        return dict(what='vector_delta raised ' + repr(e)[:150])
    if not (-n <= i < n):
        return dict(what='vector_delta accepted an out-of-range position')
    pos = i % n
    if q <= 12:
        A = _full(Y).reshape(-1, order='F')      # little-endian digits: first mode is the lowest bit
        E = np.zeros(n)
        E[pos] = v
        if not np.array_equal(A, E):
            return dict(what='vector_delta is not v at the position and 0 elsewhere', got=A.tolist(), expected=E.tolist())
    else:
        for p in {pos, 0, n - 1, pos ^ 1, pos ^ (n >> 1)}:
            x = tn.get(Y, [(p >> k) & 1 for k in range(q)])
            if x != (v if p == pos else 0.):
                return dict(what='vector_delta: wrong value', got=[p, float(x)], expected=(v if p == pos else 0.))
    return None


def check_matrix_delta(tn, inp):
    q, i, j, v = inp['q'], inp['i'], inp['j'], float(inp['v'])
    n = 2 ** q
    ok = (-n <= i < n) and (-n <= j < n)
    try:
        Y = tn.matrix_delta(q, i, j, v)
    except ValueError:
        return None if not ok else dict(what='matrix_delta raised ValueError on an in-range position')
    except Exception as e:  # noqa
        return dict(what='matrix_delta raised ' + repr(e)[:150])
    if not ok:
        return dict(what='matrix_delta accepted an out-of-range position')
    if any(np.asarray(G).shape != (1, 2, 2, 1) for G in Y) or len(Y) != q:
        return dict(what='matrix_delta: wrong core shapes')
    # M[i, j] with i = sum c_k 2^k, j = sum r_k 2^k
    A = _dense(Y).reshape([2, 2] * q)
    E = np.zeros((n, n))
    E[i % n, j % n] = v
    M = np.zeros((n, n))
    for bits in itertools.product(range(2), repeat=2 * q):
        ii = sum(bits[2 * k] << k for k in range(q))
        jj = sum(bits[2 * k + 1] << k for k in range(q))
        M[ii, jj] = A[bits]
    if not np.array_equal(M, E):
        return dict(what='matrix_delta is not v at the position and 0 elsewhere', got=M.tolist(), expected=E.tolist())
    return None


def check_poly(tn, inp):
    ns, sh, power, scale = inp['ns'], inp['shift'], inp['power'], inp['scale']
    d = len(ns)
    try:
        A = _full(tn.poly(ns, float(sh) if not isinstance(sh, list) else [float(x) for x in sh], power, float(scale)))
    except Exception as e:  # noqa
        return dict(what='poly raised ' + repr(e)[:150])
    shl = sh if isinstance(sh, list) else [sh] * d
    E = np.zeros(ns)
    for idx in itertools.product(*[range(k) for k in ns]):
        E[idx] = scale * sum((idx[k] + shl[k]) ** power for k in range(d))
    if A.shape != E.shape or not np.array_equal(A, E):
        return dict(what='poly tensor differs from scale*sum (i+shift)^power', got=A.tolist(), expected=E.tolist())
    return None


def check_poly_forms(tn, inp):
    """poly with the shift given in every documented form (int / float scalar, list of ints, list of floats, int64 / float64
    ndarray) and powers large enough that (index + shift)^power leaves the int64 range; relative comparison with exact integers"""
    ns, shl, power, scale = inp['ns'], inp['shift'], inp['power'], inp['scale']
    d = len(ns)
    E = np.zeros(ns)
    for idx in itertools.product(*[range(k) for k in ns]):
        E[idx] = float(scale * sum((idx[k] + shl[k]) ** power for k in range(d)))
    forms = [('list of ints', [int(x) for x in shl]), ('list of floats', [float(x) for x in shl]),
             ('int64 ndarray', np.array(shl, dtype=np.int64)), ('float64 ndarray', np.array(shl, dtype=float))]
    if len(set(shl)) == 1:
        forms += [('int scalar', int(shl[0])), ('float scalar', float(shl[0]))]
    for name, sh in forms:
        try:
            A = _full(tn.poly(ns, sh, power, float(scale)))
        except Exception as e:  # noqa
            return dict(what=f'poly (shift as {name}) raised ' + repr(e)[:150])
        if A.shape != E.shape or not np.allclose(A, E, rtol=1e-11, atol=0.0):
            k = int(np.argmax(np.abs(A - E).reshape(-1))) if A.shape == E.shape else 0
            return dict(what=f'poly tensor (shift as {name}) differs from scale*sum (i+shift)^power',
                        got=float(A.reshape(-1)[k]) if A.shape == E.shape else list(A.shape), expected=float(E.reshape(-1)[k]))
    return None


def _ranks(r, d):
    return [1] + [int(r)] * (d - 1) + [1] if isinstance(r, int) else list(r)


def check_rand(tn, inp):
    which, ns, r = inp['which'], inp['ns'], inp['r']
    d = len(ns)
    rs = _ranks(r, d)
    N = sum(rs[k] * ns[k] * rs[k + 1] for k in range(d))
    seed = inp.get('seed', 0)
    try:
        if which == 'rand_custom':
            Y = tn.rand_custom(ns, r, lambda size: np.arange(size) + 0.5)
            flat = np.arange(N) + 0.5
        elif which == 'rand':
            a, b = inp['a'], inp['b']
            Y = tn.rand(ns, r, a, b, seed)
            flat = np.random.default_rng(seed).uniform(a, b, size=N)
        else:
            a, b = inp['a'], inp['b']
            Y = tn.rand_norm(ns, r, a, b, seed)
            flat = np.random.default_rng(seed).normal(a, b, size=N)
    except Exception as e:  # noqa
        return dict(what=which + ' raised ' + repr(e)[:150])
    if [list(np.asarray(G).shape) for G in Y] != [[rs[k], ns[k], rs[k + 1]] for k in range(d)]:
        return dict(what=which + ': wrong shape / rank profile', got=[list(np.asarray(G).shape) for G in Y], expected=rs)
    off = 0
    for k in range(d):
        G = np.asarray(Y[k])
        for a_ in range(rs[k]):
            for i in range(ns[k]):
                for b_ in range(rs[k + 1]):
                    e = flat[off + a_ + rs[k] * (i + ns[k] * b_)]
                    if G[a_, i, b_] != e:
                        return dict(what=which + ': core entry is not the Fortran-ordered cut of the one flat draw',
                                    got=[k, a_, i, b_, float(G[a_, i, b_])], expected=float(e))
        off += rs[k] * ns[k] * rs[k + 1]
    allv = np.concatenate([np.asarray(G).ravel() for G in Y]) if d else np.zeros(0)
    if which == 'rand' and N and not (allv.min() >= inp['a'] and allv.max() < inp['b']):
        return dict(what='rand: an entry is outside [a, b)', got=[float(allv.min()), float(allv.max())])
    if which == 'rand_norm' and N >= 30:
        m, s = inp['a'], inp['b']
        if abs(allv.mean() - m) > 8 * s / math.sqrt(N) or not (0.3 * s < allv.std() < 3 * s):
            return dict(what='rand_norm: sample mean / deviation implausible for N(m, s)',
                        got=[float(allv.mean()), float(allv.std())], expected=[m, s])
    return None


def check_rand_stab(tn, inp):
    ns, r, noise, seed = inp['ns'], inp['r'], inp['noise'], inp['seed']
    d = len(ns)
    rs = _ranks(r, d)
    try:
        Y = tn.rand_stab(ns, r, noise, seed)
    except Exception as e:  # noqa
        return dict(what='rand_stab raised ' + repr(e)[:150])
    if [list(np.asarray(G).shape) for G in Y] != [[rs[k], ns[k], rs[k + 1]] for k in range(d)]:
        return dict(what='rand_stab: wrong shape / rank profile', got=[list(np.asarray(G).shape) for G in Y])
    for k in range(d):
        for p in range(ns[k]):
            D = np.asarray(Y[k])[:, p, :] - np.eye(rs[k], rs[k + 1])
            if np.abs(D).max(initial=0) > 8 * noise:
                return dict(what='rand_stab: core slice is not the rectangular identity + noise', got=[k, p, D.tolist()])
    # "perturbed by the requested noise": the perturbation is really there (lower bound) - with at least 100 perturbed entries
    # the sample deviation of N(0, noise) draws lies in [noise/2, 2 noise] except with probability < 1e-20
    if noise > 0:
        dev = np.concatenate([(np.asarray(Y[k]) - np.eye(rs[k], rs[k + 1])[:, None, :]).reshape(-1) for k in range(d)])
        if dev.size >= 100:
            sd = float(np.sqrt(np.mean(dev ** 2)))
            if not (0.5 * noise <= sd <= 2 * noise):
                return dict(what='rand_stab: the cores are not perturbed by the requested noise (deviation from the rectangular '
                                 'identities has the wrong size)', got=sd, expected=noise)
    if np.prod([float(k) for k in ns]) <= 1e5:
        A = _full(Y)
    else:       # large d: sampled entries
        g = np.random.default_rng(seed + 1)
        A = []
        for _ in range(50):
            z = np.ones((1, 1))
            for k in range(d):
                z = z @ np.asarray(Y[k])[:, g.integers(ns[k]), :]
            A.append(z[0, 0])
        A = np.array(A)
    rm = max(rs)
    bound = (1 + 8 * noise * rm) ** d - 1
    if not np.all(np.isfinite(A)) or np.abs(A - 1).max(initial=0) > bound + 1e-13:
        return dict(what='rand_stab: tensor is not all-ones up to the noise', got=float(np.abs(A - 1).max()), expected=bound)
    return None


CHECKS = dict(const=check_const, delta=check_delta, vector_delta=check_vector_delta, matrix_delta=check_matrix_delta,
              poly=check_poly, poly_forms=check_poly_forms, rand=check_rand, rand_stab=check_rand_stab)


def check_forms(tn, kind, inp):
    """argument forms and call history: the same constructor call with the shape / index arguments as tuple, int64 and int32
    ndarrays, the value as np.float64 / Python int where integral, must build bit-identically the same cores as the canonical
    (list, float) call, twice in a row, without modifying its arguments.  Undocumented forms may raise, never differ."""
    def cores(Y):
        return [np.asarray(G, dtype=float) for G in Y]

    def same(A, B):
        return len(A) == len(B) and all(a.shape == b.shape and np.array_equal(a, b) for a, b in zip(A, B))

    def num(x):
        return float.fromhex(x) if isinstance(x, str) else float(x)
    try:
        if kind == 'const':
            ns, v, Iz, inz = inp['ns'], num(inp['v']), inp['Iz'], inp['inz']
            kw = lambda f: {k: x for k, x in (('I_zero', None if Iz is None else f(Iz)), ('i_non_zero', None if inz is None else f(inz))) if x is not None}
            call = lambda f, vv=v: tn.const(f(ns), vv, **kw(f))
        elif kind == 'delta':
            ns, i, v = inp['ns'], inp['i'], num(inp['v'])
            call = lambda f, vv=v: tn.delta(f(ns), f(i), vv)
        elif kind == 'poly':
            ns, sh, power, scale = inp['ns'], inp['shift'], inp['power'], num(inp['scale'])
            shf = float(sh) if not isinstance(sh, list) else [float(x) for x in sh]
            call = lambda f, vv=scale: tn.poly(f(ns), shf, power, vv)
        else:
            return None
        base = cores(call(lambda x: [list(r) if isinstance(r, (list, tuple)) else r for r in x] if isinstance(x, list) else x))
    except Exception:
        return None            # the canonical call is judged by the main oracle
    # history: the very same argument objects (lists, then int64 arrays) passed twice - they must come back unchanged and the
    # second call must build the same tensor (a constructor that normalises a negative position in place corrupts a reused index)
    import copy as _copy
    for name, mk in (('list', lambda x: _copy.deepcopy(x)), ('int64 ndarray', lambda x: np.array(x, dtype=np.int64))):
        store, snap = {}, {}

        def keep(x, _mk=mk, _store=store, _snap=snap):
            key = repr(x)
            if key not in _store:
                _store[key] = _mk(x)
                _snap[key] = _copy.deepcopy(_store[key])
            return _store[key]
        try:
            first = cores(call(keep))
            second = cores(call(keep))
        except Exception:
            continue
        for k in store:
            a, b = snap[k], store[k]
            if not (np.array_equal(np.asarray(a, dtype=object), np.asarray(b, dtype=object)) if not isinstance(a, np.ndarray)
                    else (a.shape == b.shape and np.array_equal(a, b))):
                return dict(what=f'{kind}: an argument given as {name} was modified by the call', got=repr(b)[:200], expected=repr(a)[:200])
        if not same(first, base) or not same(second, base):
            return dict(what=f'{kind}: calling twice with the same argument objects ({name}) builds a different tensor')
    forms = [('tuple', lambda x: tuple(tuple(r) if isinstance(r, (list, tuple)) else r for r in x)),
             ('int64 ndarray', lambda x: np.array(x, dtype=np.int64)), ('int32 ndarray', lambda x: np.array(x, dtype=np.int32))]
    for name, f in forms:
        for rep in (1, 2):
            args = None
            try:
                got = cores(call(f))
            except Exception:
                break               # a form that raises is tolerated
            if not same(got, base):
                return dict(what=f'{kind}: shape / index arguments given as {name} (call {rep}) build a different tensor than lists')
    for name, vv in (('np.float64', np.float64), ('int', int)):
        val = num(inp['v'] if kind in ('const', 'delta') else inp['scale'])
        if name == 'int' and val != int(val):
            continue
        try:
            got = cores(call(lambda x: x, vv(val)))
        except Exception:
            continue
        if not same(got, base):
            return dict(what=f'{kind}: value given as {name} builds a different tensor than the same float')
    return None


def _run(tn, kind, inp):
    import copy as _copy
    inp0 = _copy.deepcopy(inp)
    try:
        f = CHECKS[kind](tn, inp)
        if f is None and inp != inp0:
            f = dict(what=f'{kind}: the constructor modified one of its (list) arguments in place', got=repr(inp)[:300],
                     expected=repr(inp0)[:300])
            inp = inp0
        if f is None and kind in ('const', 'delta', 'poly'):
            f = check_forms(tn, kind, inp)
    except Exception as e:  # noqa
        f = dict(what=f'{kind}: oracle could not evaluate the result: ' + repr(e)[:200])
    if f:
        f['kind'] = kind
        f['input'] = inp
    return f


def _hint_cases(hints):
    out = []
    for h in hints:
        x = h['input']
        try:
            if x[0] == 'const' and not x[1].startswith('malformed'):
                out.append(('const', dict(ns=x[2], v=x[3], Iz=x[4], inz=x[5])))
            elif x[0] == 'delta' and x[1] in ('valid', 'negative'):
                out.append(('delta', dict(ns=x[2], i=x[3], v=x[4])))
            elif x[0] == 'vector_delta' and x[1] >= 1:
                out.append(('vector_delta', dict(q=x[1], i=x[2], v=x[3])))
            elif x[0] == 'matrix_delta' and 1 <= x[1] <= 6:
                out.append(('matrix_delta', dict(q=x[1], i=x[2], j=x[3], v=x[4])))
            elif x[0] == 'poly' and len(x[1]) >= 2 and (not isinstance(x[2], list) or len(x[2]) == len(x[1])):
                out.append(('poly', dict(ns=x[1], shift=x[2], power=x[3], scale=x[4])))
            elif x[0] in ('rand_custom', 'rand', 'rand_norm'):
                out.append(('rand', dict(which=x[0], ns=x[1], r=x[2], a=-1., b=2., seed=1)))
            elif x[0].startswith('rand_stab'):
                out.append(('rand_stab', dict(ns=x[1], r=x[2], noise=1e-8, seed=1)))
                out.append(('rand_stab', dict(ns=x[1], r=x[2], noise=0., seed=1)))
        except Exception:  # noqa
            pass
    return out[:400]


def search(R, ctx, deep, hints):
    tn = C.import_teneva()
    rng = ctx['rng']
    cases = _hint_cases(hints)
    N = 400 if deep else 60
    # const: degenerate families first
    for v in [1., -1., 0., 1e-17, -1e-17, 8., -8., 1e-16, 3.3, -1e5]:
        for ns in [[2, 2], [1, 1], [3, 2, 2], [2, 1, 3, 2], [2] * 6]:
            cases.append(('const', dict(ns=ns, v=v.hex(), Iz=None, inz=None)))
    for _ in range(N):
        ns = gen_shape(rng, 2, 5, 4, 1 if rng.random() < 0.3 else 2)
        kind = rng.choice(['noprot', 'random', 'near', 'repeat', 'conflict'])
        Iz, inz = gen_zero_case(rng, ns, kind)
        v = rng.choice([1., -2., 0., 1e-17, 5.5, -1e-3, float(rng.randint(-9, 9))])
        cases.append(('const', dict(ns=ns, v=v.hex(), Iz=Iz, inz=inz)))
    for _ in range(N):
        ns = gen_shape(rng, 2, 5, 4)
        i = [rng.randrange(-n, n) for n in ns]
        cases.append(('delta', dict(ns=ns, i=i, v=rng.choice([1., -2., 0., 1e-17, -1e-17, 5.5, -1e-3, 1e8]).hex())))
    for q in range(1, (6 if deep else 4) + 1):
        n = 2 ** q
        for i in range(-n - 1, n + 1):
            cases.append(('vector_delta', dict(q=q, i=i, v=rng.choice([1, -3, 2, 0]))))
    for q in range(1, (4 if deep else 3) + 1):
        n = 2 ** q
        for i in range(-n - 1, n + 1):
            for j in range(-n - 1, n + 1):
                cases.append(('matrix_delta', dict(q=q, i=i, j=j, v=rng.choice([1, -3, 2]))))
    for _ in range(N // 4):
        q = rng.choice([13, 20, 30, 40, 50, 53])
        cases.append(('vector_delta', dict(q=q, i=rng.randrange(-2 ** q, 2 ** q), v=2)))
    for _ in range(N):
        ns = gen_shape(rng, 2, 5, 4)
        sh = rng.randint(-3, 3) if rng.random() < 0.4 else [rng.randint(-3, 3) for _ in ns]
        cases.append(('poly', dict(ns=ns, shift=sh, power=rng.randint(0, 5), scale=rng.choice([1, -1, 2, 7, 0]))))
    for _ in range(max(6, N // 4)):
        ns = [rng.randint(2, 12) for _ in range(rng.randint(2, 3))]
        shl = [rng.randint(0, 3)] * len(ns) if rng.random() < 0.3 else [rng.randint(0, 3) for _ in ns]
        cases.append(('poly_forms', dict(ns=ns, shift=shl, power=rng.choice([1, 2, 3, 7, 12, 18, 20, 25]), scale=rng.choice([1, -1, 2]))))
    for _ in range(N):
        ns = gen_shape(rng, 2, 5, 4)
        d = len(ns)
        r = rng.randint(1, 4) if rng.random() < 0.4 else [1] + [rng.randint(1, 4) for _ in range(d - 1)] + [1]
        which = rng.choice(['rand_custom', 'rand', 'rand_norm'])
        a = rng.choice([-1., 0., 2.5, -7.])
        cases.append(('rand', dict(which=which, ns=ns, r=r, a=a, b=(a + rng.choice([0.5, 1., 3.]) if which == 'rand'
                                                                   else rng.choice([0.1, 1., 4.])),
                                   seed=rng.randrange(10 ** 6))))
        cases.append(('rand_stab', dict(ns=ns, r=r, noise=rng.choice([0., 1e-15, 1e-10, 1e-4]),
                                        seed=rng.randrange(10 ** 6))))
    # any dimension: entries stay of order one
    for d in ([50, 200] if not deep else [50, 200, 1000]):
        cases.append(('rand_stab', dict(ns=[2] * d, r=3, noise=1e-15, seed=d)))
    fails, n_eval = [], 0
    for kind, inp in cases:
        n_eval += 1
        f = _run(tn, kind, inp)
        if f:
            fails.append(f)
            if len(fails) >= 8:
                break
    R.search.append(dict(name='dense numpy references from the property text (const / delta / qtt delta / poly / '
                              'rand layout / rand_stab)', evaluations=n_eval, failures=len(fails), deep=deep))
    return fails


def replay(data):
    tn = C.import_teneva()
    p = data['payload']
    print(data['what'])
    if isinstance(p, dict) and p.get('kind') in CHECKS:
        f = _run(tn, p['kind'], p['input'])
        print('input:', p['input'])
        print('replayed:', {k: v for k, v in (f or {}).items() if k != 'input'} or 'no failure')
        return 1 if f else 0
    print(p)
    return 1
