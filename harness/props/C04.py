"""C04 — orthogonalize / orthogonalize_left / orthogonalize_right (teneva/transformation.py, core_stab of core.py)."""
import math

import numpy as np
import scipy as sp
import scipy.linalg  # noqa: F401

from harness import common as C

THEOREMS = 'Properties/C04.v'
CLAIM = dict(
    text='Coq theorems about the model Model/Transformation.v (orth_left, orth_right, core_stab, orthogonalize; '
         'integer-index entry points in Proofs/OrthP2.v), for every d, every rank profile (rank-deficient, '
         'over-ranked, mode size 1 included), every pivot, BOTH settings of use_stab, over every commutative ring with '
         'exact powers of two, for every QR / RQ routine meeting the reduced-QR / economic-RQ contract and every log2 '
         'routine: orthogonalize returns (Z, p) with 2^p Z = Y entrywise (p = 0, Z = Y entrywise without '
         'stabilisation), same mode sizes, cores left of the pivot with orthonormal columns, cores right of it with '
         'orthonormal rows, no rank larger than before, ranks cut to r2 <= r1 n (left) / r1 <= n r2 (right) '
         '(C04_orthogonalize_spec), and the exact profile r2\' = min(r1\' n, r2) left / r1\' = min(r1, n r2\') right of the '
         'pivot (C04_ranks_exact); the default pivot is d-1 (C04_orthogonalize_default_pivot); the pivot core alone '
         'carries the Frobenius norm, ||Y||^2 = (2^p)^2 ||Z[k]||^2, from a ring-generic isometry theorem for any '
         'TT-tensor with orthonormal cores around a mode (C04_pivot_carries_norm, C04_orthonormal_cores_isometry); '
         'at the reals, for every log2 routine with lo 2^p <= v < 2^(p+1) and d >= 2, all entries of the non-pivot '
         'cores are <= 1 in modulus, all entries of the pivot core are < 2 and one is >= lo unless the pivot core is '
         'zero (C04_stab_magnitude); the single steps keep the tensor, change only cores i and i+-1, make core i '
         'orthonormal with new rank exactly min(r1 n, r2) resp. min(r1, n r2) (C04_orthogonalize_left_step, '
         '_right_step); out-of-range pivots / mode numbers, negative ones included, give ValueError for every oracle '
         '(C04_bad_pivot, C04_bad_mode_left, C04_bad_mode_right). All statements are at full strength; nothing is '
         'partial. Not covered by a theorem: object identity of the in-place variants (that the returned list IS the '
         'argument and the untouched cores are the same arrays) and non-mutation of the argument — these are checked '
         'numerically by the search on every run (and are the subject of C09). The model is tied to /repo by a '
         'PrimFloat replay of the model with the recorded LAPACK outputs plugged into the oracle slots (the model '
         'checks that it feeds the oracle the same matrix the implementation did), comparing error class, exponent p, '
         'all shapes exactly and every core entry to 2^-38 relative (oracle inputs to 2^-40; the rare stabilised cases '
         'whose max-modulus lies within 1e-9 of a power of two are counted and not compared); every recorded QR / RQ / '
         'log2 call is validated against its contract; out-of-range pivots are compared exactly (error class). Both the '
         'correspondence and the search hand the same values over in varying ARGUMENT FORMS: pivot / mode number as '
         'Python int, np.int64, np.int32, np.intp, 0-d array or None (valid, out of range, negative); cores C-ordered, '
         'F-ordered, non-contiguous views, int64 (and, search only, float32) — also mixed per core; the same array object '
         'several times in the list ([A] + [G]*(d-2) + [B]); list or tuple; the boolean options inplace / use_stab spelled '
         'True / 1 / np.True_ / np.bool_(True) resp. False / 0 / np.False_ / np.bool_(False) / None / omitted (Python '
         'truthiness decides: argument returned and replaced resp. untouched and a new list returned); the frame clause compares '
         'every other core bitwise, aliased ones included. HISTORIES (search): orthogonalize applied to its own result at '
         'other pivots and twice at the same pivot (all clauses again, ranks and Gram matrices stable), repeated calls on '
         'the same argument objects (bit-identical afterwards), the sweep made by hand with in-place resp. copying single '
         'steps (+ core_stab) equals orthogonalize (cores to 1e-12, p exactly). SCALES / degenerate shapes: one core at '
         '2^+-(400..480) with and without use_stab (correspondence and search), a zero core at every position, mode size 1 '
         'at the pivot, rank 1, d = 1, d = 2, pivots at both ends; nearly orthonormal inputs (an orthogonalised tensor with '
         'relative noise 1e-6 .. 1e-10 or after a float32 round trip) with the Gram matrices and the norm on the pivot checked '
         'at 1e-12; subnormal inputs are NOT generated (their products lose '
         'bits, the 1e-9 reference comparison does not apply).',
    note='Trusted: Coq kernel, vm_compute for case evaluation, the hand-written model (validated by the correspondence), '
         'the oracle contracts qr_ok / rq_ok / ilog2k_ok (validated on every recorded call; np.log2 meets the log2 '
         'contract with lo = 1 - 2^-53), IEEE rounding is not modelled (theorems speak about exact arithmetic). The '
         'contracts are not vacuous: total functions qrR / rqR on real matrices meeting qr_ok / rq_ok are constructed '
         '(Gram-Schmidt with completion, Proofs/OrthPQ.v; C04_contracts_satisfiable) and the magnitude theorem is '
         'instantiated with them without any oracle hypothesis (C04_real_instance); concrete exact factorisations over '
         'Qc and a model run with them are given as Examples. Range of the numerical validation: per-core scales up to '
         '2^+-420 (2^+-300 in mixed directions); the implementation rescales AFTER the product R @ G, so adjacent cores '
         'whose scales multiply beyond the double range overflow (OverflowError in core_stab) or underflow to zero even '
         'with use_stab — outside every theorem (exact arithmetic) and outside the generators; this is the KNOWN finding '
         'C04/stab-adjacent-scale-overflow, whose two inputs are fixed regression cases of the search.',
    technique='Coq proof (induction over the sweeps, ring-generic isometry / Gram lemmas, Reals for magnitudes) + '
              'PrimFloat replay correspondence with recorded LAPACK oracles + dense-reference search')
TRUSTED = ['Coq 8.16.1 kernel + vm_compute (case evaluation only)',
           'hand-written model Model/Transformation.v (+ orth_left_z / orth_right_z in Proofs/OrthP2.v) tied to '
           'transformation.py / core.py by PrimFloat replay with recorded oracle outputs',
           'oracle contract qr_ok: np.linalg.qr(A, mode=reduced) = (Q, R), A = Q R, Q^T Q = I, Q is m x min(m,n) '
           '(validated on every recorded call)',
           'oracle contract rq_ok: scipy.linalg.rq(A, mode=economic) = (R, Q), A = R Q, Q Q^T = I, Q is min(m,n) x n '
           '(validated on every recorded call)',
           'oracle contract ilog2k_ok lo: floor(np.log2(v)) = p with lo 2^p <= v < 2^(p+1) (validated on every recorded call)',
           'IEEE-754 rounding is not modelled: theorems speak about exact arithmetic; the PrimFloat instance of the '
           'same terms is only executed',
           'numpy reshape(order=F) / matmul semantics as re-expressed by unfoldL / unfoldR / foldL / foldR / mmul']
TIME_LIMIT = {'quick': 900, 'thorough': 5400}

HEADER = r'''From Coq Require Import List ZArith Bool Floats.
From TV Require Import Num.Ops Num.InstF Lin.Tab Lin.Mat TT.Chain Model.Transformation Proofs.OrthP2.
Import ListNotations.
Open Scope Z_scope.
Definition FC (r1 n r2 : nat) (cs : list float) : core float :=
  mkcore r1 n r2 (fun a i b => nth ((a * n + i) * r2 + b)%nat cs 0%float).
Definition FM (m n : nat) (cs : list float) : mat float :=
  mkmat m n (fun i j => nth (i * n + j)%nat cs 0%float).
Definition fmaxabs (l : list float) : float :=
  fold_left (fun m x => if PrimFloat.ltb m (PrimFloat.abs x) then PrimFloat.abs x else m) l 0%float.
Definition mflat (A : mat float) : list float := concat (md A).
(* the matrix the model hands to the oracle must be the matrix the implementation handed to LAPACK (2^-40 relative) *)
Definition mclose (A B : mat float) : bool :=
  Nat.eqb (mr A) (mr B) && Nat.eqb (mc A) (mc B) && Nat.eqb (length (mflat A)) (length (mflat B)) &&
  (let tol := PrimFloat.mul 0x1p-40 (fmaxabs (mflat B)) in
   forallb (fun xy => PrimFloat.leb (PrimFloat.abs (PrimFloat.sub (fst xy) (snd xy))) tol) (combine (mflat A) (mflat B))).
Definition badm : mat float := mk_mat 0 0 [].
Definition otab := list (nat * (mat float * mat float * mat float)).
Fixpoint lookup (k : nat) (tb : otab) : option (mat float * mat float * mat float) :=
  match tb with [] => None | (j, x) :: tb' => if Nat.eqb j k then Some x else lookup k tb' end.
Definition orac (tb : otab) (k : nat) (A : mat float) : mat float * mat float :=
  match lookup k tb with
  | Some (Ain, X, Y) => if mclose A Ain then (X, Y) else (badm, badm)
  | None => (badm, badm)
  end.
(* exact floor(log2 v) of a positive finite float *)
Definition ilog2F (_ : nat) (v : float) : Z := let '(m, e) := F_show v in e + Z.log2 m.
Definition showf (x : float) : list Z := let '(m, e) := F_show x in [m; e].
Definition showcore (G : core float) : list Z :=
  Z.of_nat (cr1 G) :: Z.of_nat (cn G) :: Z.of_nat (cr2 G) :: flat_map showf (concat (concat (dat G))).
Definition showR (r : result (list (core float) * Z)) : list (list Z) :=
  match r with Ok (Zs, p) => [0; p] :: map showcore Zs | Err e => [[err_code e]] end.
Definition showL (r : result (list (core float))) : list (list Z) :=
  match r with Ok Zs => [0; 0] :: map showcore Zs | Err e => [[err_code e]] end.
Definition ORTH (qt rt : otab) (Y : list (core float)) (k : option Z) (s : bool) : list (list Z) :=
  showR (orthogonalize OF (orac qt) (orac rt) ilog2F Y k s).
Definition OL (qt : otab) (Y : list (core float)) (i : Z) : list (list Z) := showL (orth_left_z OF (orac qt) Y i).
Definition ORR (rt : otab) (Y : list (core float)) (i : Z) : list (list Z) := showL (orth_right_z OF (orac rt) Y i).
'''


# ----------------------------------------------------------------------------
# literals
# ----------------------------------------------------------------------------

def flist(a):
    return '[' + '; '.join(C.flit(x) for x in np.asarray(a, dtype=float).ravel()) + ']%float'


def core_lit(G):
    r1, n, r2 = G.shape
    return f'(FC {r1} {n} {r2} {flist(G)})'


def mat_lit(A):
    m, n = A.shape
    return f'(FM {m} {n} {flist(A)})'


def tt_lit(Y):
    return '[' + '; '.join(core_lit(G) for G in Y) + ']'


def tab_lit(entries):
    """entries: list of (key, A, X, Y)"""
    return '[' + '; '.join(f'({k}%nat, ({mat_lit(A)}, {mat_lit(X)}, {mat_lit(Yy)}))' for k, A, X, Yy in entries) + ']'


def tt_desc(Y):
    return [[int(G.shape[0]), int(G.shape[1]), int(G.shape[2]), [float(x).hex() for x in G.ravel()]] for G in Y]


def tt_of_desc(D):
    return [np.array([float.fromhex(h) for h in d[3]], dtype=float).reshape(d[0], d[1], d[2]) for d in D]


# ----------------------------------------------------------------------------
# generators (all randomness from ctx['rng'])
# ----------------------------------------------------------------------------

FAMILIES = ['generic', 'generic', 'over', 'deficient', 'n1', 'd2', 'zero', 'int', 'scaled', 'scaled_mixed', 'd1', 'r1',
            'extreme', 'alias', 'single']


def rand_core(rng, r1, n, r2, kind='float'):
    if kind == 'int':
        return np.array([float(rng.randint(-3, 3)) for _ in range(r1 * n * r2)]).reshape(r1, n, r2)
    return np.array([rng.uniform(-1, 1) for _ in range(r1 * n * r2)]).reshape(r1, n, r2)


def gen_tt(rng, fam, big=False):
    """returns (Y, scales): Y list of float cores; scales[j] = power of two applied to core j (0 unless scaled)"""
    dmax, nmax, rmax = (6, 4, 5) if big else (5, 3, 4)
    d = rng.randint(2, dmax)
    if fam == 'd2':
        d = 2
    if fam == 'd1':
        d = 1
    n = [rng.randint(1, nmax) for _ in range(d)]
    if fam == 'n1':
        n = [1 if rng.random() < 0.6 else rng.randint(1, nmax) for _ in range(d)]
        if rng.random() < 0.3:
            n = [1] * d
    r = [1] + [rng.randint(1, rmax) for _ in range(d - 1)] + [1]
    if fam == 'over':
        r = [1] + [rng.randint(2, rmax + 3) for _ in range(d - 1)] + [1]
    if fam == 'r1':
        r = [1] * (d + 1)
    kind = 'int' if fam == 'int' else 'float'
    Y = [rand_core(rng, r[j], n[j], r[j + 1], kind) for j in range(d)]
    if fam == 'alias':        # the idiom [A] + [G] * (d - 2) + [B]: the same core (object, see apply_form) several times
        d = rng.randint(4, dmax + 1)
        rr, nn = rng.randint(1, 3), rng.randint(1, nmax)
        G = rand_core(rng, rr, nn, rr, rng.choice(['int', 'float']))
        Y = [rand_core(rng, 1, rng.randint(1, nmax), rr)] + [G.copy() for _ in range(d - 2)] + \
            [rand_core(rng, rr, rng.randint(1, nmax), 1)]
    scales = [0] * d
    if fam == 'deficient':
        for j in range(d):
            G = Y[j]
            if G.shape[2] >= 2 and rng.random() < 0.7:
                b = rng.randrange(1, G.shape[2])
                G[:, :, b] = G[:, :, 0] * rng.choice([1.0, -2.0, 0.5, 0.0])
            if G.shape[0] >= 2 and rng.random() < 0.5:
                a = rng.randrange(1, G.shape[0])
                G[a, :, :] = G[0, :, :] * rng.choice([1.0, -1.0, 3.0, 0.0])
    if fam == 'zero':
        Y[rng.randrange(d)][...] = 0.0
    if fam == 'scaled':
        sg = rng.choice([-1, 1])
        scales = [sg * rng.randint(250, 300) for _ in range(d)]
    if fam == 'scaled_mixed':
        scales = [rng.choice([-1, 1]) * rng.randint(200, 300) for _ in range(d)]
    if fam == 'single':       # ONE core carries 2^+-(400..480), representable with and without stabilisation
        scales = [0] * d
        scales[rng.randrange(d)] = rng.choice([-1, 1]) * rng.randint(400, 480)
    if fam == 'extreme':      # every core far below 1e-100 or far above 1e+100 (pairwise products stay representable)
        sg = rng.choice([-1, 1])
        scales = [sg * rng.randint(335, 420) for _ in range(d)]
    Y = [G * 2.0 ** s for G, s in zip(Y, scales)]
    return Y, scales


def plain_ok(scales):
    """without stabilisation the weight travels through the cores: keep every partial sum of exponents representable"""
    d = len(scales)
    for k in range(d):
        a = 0
        for s in scales[:k + 1]:
            a += s
            if abs(a) > 900:
                return False
        a = 0
        for s in reversed(scales[k:]):
            a += s
            if abs(a) > 900:
                return False
    return abs(sum(scales)) <= 900


# ----------------------------------------------------------------------------
# argument forms: how the same VALUES are handed to the implementation
# ----------------------------------------------------------------------------

KFORMS = ['int', 'int64', 'int32', 'intp', 'arr0']
LAYOUTS = ['C', 'F', 'view', 'int', 'f32']


def wrap_k(k, kform):
    """pivot / mode number as Python int, NumPy integer scalar or 0-d integer array (None stays None)"""
    if k is None:
        return None
    return dict(int=int, int64=np.int64, int32=np.int32, intp=np.intp, arr0=np.array)[kform or 'int'](k)


FLAGFORMS = ['bool', 'int', 'np', 'npb', 'none', 'default']


def wrap_flag(flag, ff):
    """a boolean option in its different spellings; Python truthiness decides in the unchanged code:
    True / 1 / np.True_ / np.bool_(True);  False / 0 / np.False_ / np.bool_(False) / None / (argument omitted)"""
    ff = ff or 'bool'
    if flag:
        return {'int': 1, 'np': np.True_, 'npb': np.bool_(True)}.get(ff, True)
    return {'int': 0, 'np': np.False_, 'npb': np.bool_(False), 'none': None}.get(ff, False)


def flag_kw(name, flag, ff):
    """keyword dict for a boolean option: omitted for the form 'default' of a false flag"""
    if not flag and ff == 'default':
        return {}
    return {name: wrap_flag(flag, ff)}


def norm_form(form):
    f = dict(layouts='C', alias=False, container='list', kform='int', flagform='bool')
    if isinstance(form, str):
        f['layouts'] = form
    elif isinstance(form, dict):
        f.update(form)
    return f


def one_core(G, lay):
    G = np.array(G, dtype=float)
    if lay == 'F':
        return np.asfortranarray(G)
    if lay == 'view':         # non-contiguous view into a larger buffer
        big = np.full((G.shape[0], 2 * G.shape[1], G.shape[2]), 7.5)
        big[:, ::2, :] = G
        return big[:, ::2, :]
    if lay == 'int' and np.all(G == np.round(G)) and np.all(np.abs(G) < 2 ** 40):
        return G.astype(np.int64)
    if lay == 'f32':
        return G.astype(np.float32)
    return G


def apply_form(Yv, form):
    """the argument handed to the implementation: per-core layout / dtype, optionally ONE array object for cores with
    identical values (aliasing inside the list), list or tuple"""
    f = norm_form(form)
    lays = f['layouts'] if isinstance(f['layouts'], list) else [f['layouts']]
    out, pool = [], []
    for j, G in enumerate(Yv):
        lay = lays[j % len(lays)]
        obj = None
        if f['alias']:
            for l0, V0, o in pool:
                if l0 == lay and V0.shape == G.shape and np.array_equal(V0, G):
                    obj = o
                    break
        if obj is None:
            obj = one_core(G, lay)
            pool.append((lay, np.array(G, dtype=float), obj))
        out.append(obj)
    return tuple(out) if f['container'] == 'tuple' else out


def has_f32(form):
    lays = norm_form(form)['layouts']
    return 'f32' in (lays if isinstance(lays, list) else [lays])


def rand_form(rng, fam, scales, allow_f32=True, allow_tuple=True):
    lays = ['C', 'F', 'view'] + (['int'] if fam in ('int', 'alias') else []) + \
        (['f32'] if allow_f32 and not any(scales) else [])
    if fam == 'alias' or rng.random() < 0.5:
        L = rng.choice([x for x in lays if x != 'f32'] if fam == 'alias' else lays)
    else:
        L = [rng.choice(lays) for _ in range(len(scales))]
    return dict(layouts=L, alias=(fam == 'alias'), kform=rng.choice(KFORMS), flagform=rng.choice(FLAGFORMS),
                container='tuple' if allow_tuple and rng.random() < 0.25 else 'list')


# ----------------------------------------------------------------------------
# recording the oracles
# ----------------------------------------------------------------------------

class Rec:
    """records np.linalg.qr / scipy.linalg.rq / teneva.core_stab calls while active"""

    def __init__(self, tn):
        self.tn = tn
        self.qr, self.rq, self.stab, self.steps = [], [], [], []

    def __enter__(self):
        tn = self.tn
        self.saved = (np.linalg.qr, sp.linalg.rq, tn.core_stab)
        sq, srq, scs = self.saved

        def qr(A, *a, **k):
            A0 = np.array(A, dtype=float, copy=True)
            out = sq(A, *a, **k)
            self.qr.append((A0, np.array(out[0], dtype=float), np.array(out[1], dtype=float)))
            return out

        def rq(A, *a, **k):
            A0 = np.array(A, dtype=float, copy=True)
            out = srq(A, *a, **k)
            self.rq.append((A0, np.array(out[0], dtype=float), np.array(out[1], dtype=float)))
            return out

        def core_stab(G, p0=0, *a, **k):
            v = float(np.max(np.abs(G))) if np.size(G) else 0.0
            Q, p = scs(G, p0, *a, **k)
            self.stab.append((v, p - p0, Q is G))
            return Q, p

        np.linalg.qr, sp.linalg.rq, tn.core_stab = qr, rq, core_stab
        # the single steps as called from orthogonalize: size of the core that receives the weight, before and after
        T = tn.transformation
        self.saved_steps = (T.orthogonalize_left, T.orthogonalize_right)
        ol, orr = self.saved_steps

        def amax(Z, j):
            try:
                return float(np.max(np.abs(Z[j]))) if 0 <= j < len(Z) and np.size(Z[j]) else None
            except Exception:  # noqa
                return None

        def oleft(Z, i, inplace=False):
            gin, nq = amax(Z, int(i) + 1) if isinstance(i, (int, np.integer)) else None, len(self.qr)
            out = ol(Z, i, inplace=inplace)
            if len(self.qr) > nq and gin is not None:
                self.steps.append((amax([self.qr[-1][2]], 0) or 0.0, gin, amax(out, int(i) + 1) or 0.0))
            return out

        def oright(Z, i, inplace=False):
            gin, nq = amax(Z, int(i) - 1) if isinstance(i, (int, np.integer)) else None, len(self.rq)
            out = orr(Z, i, inplace=inplace)
            if len(self.rq) > nq and gin is not None:
                self.steps.append((amax([self.rq[-1][1]], 0) or 0.0, gin, amax(out, int(i) - 1) or 0.0))
            return out

        T.orthogonalize_left, T.orthogonalize_right = oleft, oright
        return self

    def __exit__(self, *a):
        np.linalg.qr, sp.linalg.rq, self.tn.core_stab = self.saved
        self.tn.transformation.orthogonalize_left, self.tn.transformation.orthogonalize_right = self.saved_steps

    def cancellation(self):
        """some core that received the weight is (nearly) pure cancellation noise: R @ G is more than 2^20 times smaller
        than |R| |G|; the summation order of BLAS then decides its entries and the case is not compared with the model"""
        return any(r > 0 and g > 0 and o < 2.0 ** -20 * r * g for r, g, o in self.steps)

    # contracts -------------------------------------------------------------
    def contract_violations(self):
        bad = []
        for A, Q, R in self.qr:
            m, n = A.shape
            kk = min(m, n)
            if Q.shape != (m, kk) or R.shape != (kk, n):
                bad.append(f'qr shapes {Q.shape} {R.shape} for input {A.shape} (reduced QR expected)')
                continue
            sc = float(np.max(np.abs(A))) if A.size else 0.0
            if sc == 0 or not math.isfinite(sc):
                sc1 = 1.0
            else:
                sc1 = 2.0 ** math.frexp(sc)[1]
            An, Rn = A / sc1, R / sc1
            if A.size and not (np.max(np.abs(Q @ Rn - An)) <= 1e-12 and np.max(np.abs(Q.T @ Q - np.eye(kk))) <= 1e-12):
                bad.append('qr contract: A = Q R / Q^T Q = I violated')
        for A, R, Q in self.rq:
            m, n = A.shape
            kk = min(m, n)
            if R.shape != (m, kk) or Q.shape != (kk, n):
                bad.append(f'rq shapes {R.shape} {Q.shape} for input {A.shape} (economic RQ expected)')
                continue
            sc = float(np.max(np.abs(A))) if A.size else 0.0
            sc1 = 1.0 if (sc == 0 or not math.isfinite(sc)) else 2.0 ** math.frexp(sc)[1]
            An, Rn = A / sc1, R / sc1
            if A.size and not (np.max(np.abs(Rn @ Q - An)) <= 1e-12 and np.max(np.abs(Q @ Q.T - np.eye(kk))) <= 1e-12):
                bad.append('rq contract: A = R Q / Q Q^T = I violated')
        return bad

    def log2_status(self):
        """(near: some v_max is within 1e-9 of a power of two without being one, violations)"""
        near, bad = False, []
        for v, dp, same in self.stab:
            if same or v == 0:
                continue
            if not (v > 0 and math.isfinite(v)):
                bad.append((v, dp))
                continue
            mant, ex = math.frexp(v)      # v = mant * 2^ex, mant in [0.5, 1)
            # contract with lo = 1 - 2^-53 (exact arithmetic: ldexp is exact here)
            q = math.ldexp(mant, ex - int(dp)) if abs(ex - int(dp)) < 1000 else float('inf')
            if not (1 - 2.0 ** -53 <= q < 2):
                bad.append((v, dp))
            # the model computes the exact floor(log2 .) of ITS max-modulus, which may differ from the implementation's
            # in the last bits: cases with v_max next to a power of two are not compared with the model
            if mant != 0.5 and (mant - 0.5 < 1e-9 or 1 - mant < 1e-9):
                near = True
        return near, bad


# ----------------------------------------------------------------------------
# running the implementation and normalising
# ----------------------------------------------------------------------------

def impl_result(f):
    """f() -> list of cores or (list, p); returns ('ok', cores, p) or ('err', code)"""
    try:
        r = f()
    except Exception as e:  # noqa
        return ('err', C.errclass(e), repr(e)[:200])
    if isinstance(r, tuple):
        Z, p = r
    else:
        Z, p = r, 0
    return ('ok', [np.array(G, dtype=float) for G in Z], p)


def compare(model, impl):
    """model: parsed showR/showL value; impl: impl_result.  Returns None or a reason string."""
    if impl[0] == 'err':
        if model != [[impl[1]]]:
            return f'error class: implementation raised code {impl[1]} ({impl[2]}), model gives {str(model)[:200]}'
        return None
    if len(model[0]) != 2 or model[0][0] != 0:
        return f'model rejects ({model[0]}), implementation returns a tensor'
    Z, p = impl[1], impl[2]
    if not isinstance(p, (int, np.integer)):
        return f'exponent p is not an integer: {p!r}'
    if int(p) != model[0][1]:
        return f'exponent p: implementation {int(p)}, model {model[0][1]}'
    if len(Z) != len(model) - 1:
        return f'number of cores: implementation {len(Z)}, model {len(model) - 1}'
    for j, (G, row) in enumerate(zip(Z, model[1:])):
        if G.ndim != 3 or list(G.shape) != row[:3]:
            return f'shape of core {j}: implementation {list(G.shape)}, model {row[:3]}'
        vals = row[3:]
        M = np.array([C.float_of_show((vals[2 * t], vals[2 * t + 1])) for t in range(len(vals) // 2)], dtype=float)
        if M.size != G.size:
            return f'size of core {j}'
        g = G.ravel()
        if not (np.all(np.isfinite(g)) and np.all(np.isfinite(M))):
            if not np.array_equal(np.isnan(g), np.isnan(M)):
                return f'non-finite entries in core {j}'
            continue
        sc = float(np.max(np.abs(g))) if g.size else 0.0
        if g.size and float(np.max(np.abs(g - M))) > 2.0 ** -38 * sc:
            return f'entries of core {j} differ: max |impl - model| = {float(np.max(np.abs(g - M))):.3g}, scale {sc:.3g}'
    return None


def pivots_for(rng, d, thorough):
    ks = list(range(d))
    if d > 4 and not thorough:
        ks = sorted(set([0, d - 1] + rng.sample(range(d), 2)))
    return ks


# ----------------------------------------------------------------------------
# correspondence
# ----------------------------------------------------------------------------

def correspondence(R, ctx):
    tn = C.import_teneva()
    rng = ctx['rng']
    th = ctx['thorough']
    hints = []
    hints += corr_orthogonalize(R, tn, rng, th)
    hints += corr_steps(R, tn, rng, th)
    hints += corr_malformed(R, tn, rng, th)
    return hints


def corr_orthogonalize(R, tn, rng, th):
    n_tt = 160 if th else 44
    terms, meta = [], []
    dist = dict(families={}, forms={}, d={}, use_stab={True: 0, False: 0}, pivots=0, default_pivot=0, qr_calls=0, rq_calls=0,
                log2_calls=0, near_pow2_skipped=0, cancellation_skipped=0, plain_overflow_skipped=0, rank_cut_cases=0)
    for t in range(n_tt):
        fam = FAMILIES[t % len(FAMILIES)]
        Y, scales = gen_tt(rng, fam, big=th)
        d = len(Y)
        for k in pivots_for(rng, d, th) + ([None] if t % 4 == 0 else []):
            for stab in (False, True):
                if not stab and not plain_ok(scales):
                    dist['plain_overflow_skipped'] += 1
                    continue
                form = rand_form(rng, fam, scales, allow_f32=False)
                Yc, kw = apply_form(Y, form), wrap_k(k, form['kform'])
                fkw = flag_kw('use_stab', stab, form['flagform'])
                ret = []
                with Rec(tn) as rec:
                    imp = impl_result(lambda: ret.append(tn.orthogonalize(Yc, kw, **fkw)) or ret[0])
                if imp[0] == 'ok' and isinstance(ret[0], tuple) != bool(stab):   # pair iff use_stab is truthy
                    imp = ('err', 7, f'use_stab={fkw.get("use_stab", "<omitted>")!r}: wrong kind of result {type(ret[0]).__name__}')
                near, l2bad = rec.log2_status()
                if near:
                    dist['near_pow2_skipped'] += 1
                    continue
                if rec.cancellation():
                    dist['cancellation_skipped'] += 1
                    continue
                kk = d - 1 if k is None else k
                qt = [(j, A, Q, Rr) for j, (A, Q, Rr) in enumerate(rec.qr)]
                rt = [(d - 1 - j, A, Rr, Q) for j, (A, Rr, Q) in enumerate(rec.rq)]
                kl = 'None' if k is None else f'(Some {C.zlit(k)})'
                terms.append(f'ORTH {tab_lit(qt)} {tab_lit(rt)} {tt_lit(Y)} {kl} {"true" if stab else "false"}')
                cv = rec.contract_violations()
                if l2bad:
                    cv.append(f'floor(np.log2(v)) violates 2^p <= v < 2^(p+1): {l2bad[:2]}')
                if len(rec.qr) != kk or len(rec.rq) != d - 1 - kk:
                    cv.append(f'number of LAPACK calls: qr {len(rec.qr)} (expected {kk}), rq {len(rec.rq)} (expected {d - 1 - kk})')
                meta.append(dict(imp=imp, contract=cv, input=['orthogonalize', fam, tt_desc(Y), k, stab, form]))
                fk = form['kform'] + '/' + str(form['layouts'] if isinstance(form['layouts'], str) else 'mixed') + '/' + form['container']
                dist['forms'][fk] = dist['forms'].get(fk, 0) + 1
                dist['families'][fam] = dist['families'].get(fam, 0) + 1
                dist['d'][d] = dist['d'].get(d, 0) + 1
                dist['use_stab'][stab] += 1
                dist['pivots'] += 1
                dist['default_pivot'] += k is None
                dist['qr_calls'] += len(rec.qr)
                dist['rq_calls'] += len(rec.rq)
                dist['log2_calls'] += len(rec.stab)
                if imp[0] == 'ok' and any(a.shape != b.shape for a, b in zip(imp[1], Y)):
                    dist['rank_cut_cases'] += 1
    vals = C.run_cases('C04_orth', HEADER, terms, chunk=12)
    bad = []
    for m, v in zip(meta, vals):
        R.add_distinct(('orth', m['input']))
        why = compare(v, m['imp'])
        if why is None and m['contract']:
            why = 'oracle contract: ' + '; '.join(m['contract'][:2])
        if why:
            bad.append(dict(stream='orthogonalize_replay', why=why, input=m['input']))
    dist['use_stab'] = {str(k): v for k, v in dist['use_stab'].items()}
    R.corr.append(dict(name='orthogonalize_replay', cases=len(meta), mismatches=len(bad),
                       comparison='PrimFloat model with recorded qr / rq outputs (oracle inputs checked to 2^-40 inside '
                                  'the model); error class, p, shapes exact; entries 2^-38 relative per core; contracts '
                                  'of every recorded qr / rq / log2 call',
                       distribution=dist, first_mismatches=bad[:3]))
    if meta:
        R.samples.append(dict(stream='orthogonalize_replay', input=meta[0]['input'][:2] + meta[0]['input'][3:5],
                              model=str(vals[0])[:300], impl=str(meta[0]['imp'])[:300]))
    return bad


def corr_steps(R, tn, rng, th):
    n_tt = 80 if th else 24
    terms, meta = [], []
    dist = dict(families={}, forms={}, left=0, right=0, inplace=0, rank_cut_cases=0, cancellation_skipped=0)
    for t in range(n_tt):
        fam = FAMILIES[(t * 5 + 1) % len(FAMILIES)]
        if fam == 'd1':
            fam = 'over'
        Y, scales = gen_tt(rng, fam, big=th)
        if not plain_ok(scales):
            Y, scales = gen_tt(rng, 'over', big=th)
        d = len(Y)
        for side in ('left', 'right'):
            idxs = list(range(d - 1)) if side == 'left' else list(range(1, d))
            if len(idxs) > 3 and not th:
                idxs = rng.sample(idxs, 3)
            for i in idxs:
                inplace = rng.random() < 0.5
                form = rand_form(rng, fam, scales, allow_f32=False, allow_tuple=not inplace)
                Yc, iw = apply_form(Y, form), wrap_k(i, form['kform'])
                f = tn.orthogonalize_left if side == 'left' else tn.orthogonalize_right
                fkw = flag_kw('inplace', inplace, form['flagform'])
                ysnap = [np.array(G, copy=True) for G in Yc]
                ret = []
                with Rec(tn) as rec:
                    imp = impl_result(lambda: ret.append(f(Yc, iw, **fkw)) or ret[0])
                cv = rec.contract_violations()
                if imp[0] == 'ok':      # what happens to the argument follows the truthiness of the flag
                    if inplace and ret[0] is not Yc:
                        cv.append(f'inplace={fkw.get("inplace")!r}: the argument was not returned')
                    if not inplace and (ret[0] is Yc or any(not same_bytes(a, b) for a, b in zip(Yc, ysnap))):
                        cv.append(f'inplace={fkw.get("inplace", "<omitted>")!r}: the argument was returned / modified')
                if imp[0] == 'ok':
                    j2 = i + 1 if side == 'left' else i - 1
                    Rm = rec.qr[0][2] if side == 'left' and rec.qr else (rec.rq[0][1] if side == 'right' and rec.rq else None)
                    if Rm is not None and Rm.size and Y[j2].size and imp[1][j2].size:
                        r_, g_, o_ = float(np.max(np.abs(Rm))), float(np.max(np.abs(Y[j2]))), float(np.max(np.abs(imp[1][j2])))
                        if r_ > 0 and g_ > 0 and o_ < 2.0 ** -20 * r_ * g_:
                            dist['cancellation_skipped'] += 1
                            continue
                if side == 'left':
                    qt = [(i, A, Q, Rr) for (A, Q, Rr) in rec.qr[:1]]
                    terms.append(f'OL {tab_lit(qt)} {tt_lit(Y)} {C.zlit(i)}')
                    dist['left'] += 1
                else:
                    rt = [(i, A, Rr, Q) for (A, Rr, Q) in rec.rq[:1]]
                    terms.append(f'ORR {tab_lit(rt)} {tt_lit(Y)} {C.zlit(i)}')
                    dist['right'] += 1
                dist['inplace'] += inplace
                dist['families'][fam] = dist['families'].get(fam, 0) + 1
                if imp[0] == 'ok' and any(a.shape != b.shape for a, b in zip(imp[1], Y)):
                    dist['rank_cut_cases'] += 1
                meta.append(dict(imp=imp, contract=cv, input=['orthogonalize_' + side, fam, tt_desc(Y), i, inplace, form]))
                fk = form['kform'] + '/' + str(form['layouts'] if isinstance(form['layouts'], str) else 'mixed') + ('/alias' if form['alias'] else '')
                dist['forms'][fk] = dist['forms'].get(fk, 0) + 1
    vals = C.run_cases('C04_steps', HEADER, terms, chunk=12)
    bad = []
    for m, v in zip(meta, vals):
        R.add_distinct(('step', m['input']))
        why = compare(v, m['imp'])
        if why is None and m['contract']:
            why = 'oracle contract / argument treatment: ' + '; '.join(m['contract'][:2])
        if why:
            bad.append(dict(stream='single_step_replay', why=why, input=m['input']))
    R.corr.append(dict(name='single_step_replay', cases=len(meta), mismatches=len(bad),
                       comparison='PrimFloat model with the recorded qr / rq output; error class, shapes exact; entries '
                                  '2^-38 relative per core (untouched cores therefore bit for bit)',
                       distribution=dist, first_mismatches=bad[:3]))
    return bad


def corr_malformed(R, tn, rng, th):
    """out-of-range pivots / mode numbers: the error class must agree exactly (no oracle is reached in the model)"""
    items = []
    dist = dict(orthogonalize=0, left=0, right=0, kforms={})
    for t in range(30 if th else 10):
        Y, _ = gen_tt(rng, rng.choice(['generic', 'd2', 'd1', 'n1', 'over']))
        d = len(Y)
        nf = 0
        for k in [-1, -2, -d, -d - 1, d, d + 1, d + 7]:
            for stab in (False, True):
                kf = KFORMS[nf % len(KFORMS)]
                nf += 1
                r = C.call_impl(lambda: tn.orthogonalize([G.copy() for G in Y], wrap_k(k, kf), use_stab=stab))
                items.append(dict(coq=f'ORTH [] [] {tt_lit(Y)} (Some {C.zlit(k)}) {"true" if stab else "false"}',
                                  impl=[[r[0]]] if r[0] else [['accepted']], input=['orthogonalize-bad', tt_desc(Y), k, stab, kf]))
                dist['orthogonalize'] += 1
                dist['kforms'][kf] = dist['kforms'].get(kf, 0) + 1
        for i in [-1, -2, -d, d - 1, d, d + 3]:
            kf = KFORMS[nf % len(KFORMS)]
            nf += 1
            r = C.call_impl(lambda: tn.orthogonalize_left([G.copy() for G in Y], wrap_k(i, kf)))
            items.append(dict(coq=f'OL [] {tt_lit(Y)} {C.zlit(i)}', impl=[[r[0]]] if r[0] else [['accepted']],
                              input=['left-bad', tt_desc(Y), i, kf]))
            dist['left'] += 1
            dist['kforms'][kf] = dist['kforms'].get(kf, 0) + 1
        for i in [0, -1, -d, d, d + 1, d + 3]:
            kf = KFORMS[nf % len(KFORMS)]
            nf += 1
            r = C.call_impl(lambda: tn.orthogonalize_right([G.copy() for G in Y], wrap_k(i, kf)))
            items.append(dict(coq=f'ORR [] {tt_lit(Y)} {C.zlit(i)}', impl=[[r[0]]] if r[0] else [['accepted']],
                              input=['right-bad', tt_desc(Y), i, kf]))
            dist['right'] += 1
            dist['kforms'][kf] = dist['kforms'].get(kf, 0) + 1
    return C.exact_corr(R, 'malformed_pivots', HEADER, items, chunk=40, distribution=dist)


# ----------------------------------------------------------------------------
# property-level oracle on the implementation (dense reference), independent of the model
# ----------------------------------------------------------------------------

def dense(Y):
    v = np.ones((1, 1))
    for G in Y:
        G = np.asarray(G, dtype=float)
        r1, n, r2 = G.shape
        v = (v @ G.reshape(r1, n * r2)).reshape(-1, r2)
    return v.reshape([G.shape[1] for G in Y])


def expected_ranks(shapes, k):
    d = len(shapes)
    r = [s[0] for s in shapes] + [shapes[-1][2]]
    n = [s[1] for s in shapes]
    for i in range(k):
        r[i + 1] = min(r[i] * n[i], r[i + 1])
    for i in range(d - 1, k, -1):
        r[i] = min(r[i], n[i] * r[i + 1])
    return r


def well_formed(Z, Y):
    if not isinstance(Z, list) or len(Z) != len(Y):
        return 'result is not a list of d cores'
    for j, (G, H) in enumerate(zip(Z, Y)):
        if not isinstance(G, np.ndarray) or G.ndim != 3 or G.shape[1] != H.shape[1]:
            return f'core {j} is not a 3-d array with the mode size of the input'
        if not np.all(np.isfinite(G)):
            return f'core {j} has non-finite entries'
    if Z[0].shape[0] != 1 or Z[-1].shape[2] != 1 or any(Z[j].shape[2] != Z[j + 1].shape[0] for j in range(len(Z) - 1)):
        return 'ranks of neighbouring cores do not match / boundary ranks are not 1'
    return None


def build(Y0, scales, form=None):
    """the argument handed to the implementation (values Y0 * 2^scales corewise, in the given argument form)"""
    return apply_form([G * 2.0 ** s for G, s in zip(Y0, scales)], form)


def same_bytes(a, b):
    return a.dtype == b.dtype and a.shape == b.shape and np.array_equal(a, b)


def check_orth(tn, Y0, scales, k, stab, form=None):
    """property oracle for orthogonalize(Y, k, use_stab); Y = Y0 * 2^scales corewise.  Returns None or (what, got, exp)."""
    form = norm_form(form)
    Y = build(Y0, scales, form)
    snap = [G.copy() for G in Y]
    # the tensor actually handed over (float32 cores round the values), without the scaling
    Y0 = [np.asarray(G, dtype=float) * 2.0 ** -s for G, s in zip(snap, scales)]
    lo = has_f32(form)
    tg, td = (2e-4, 2e-4) if lo else (1e-10, 1e-9)
    d = len(Y)
    kk = d - 1 if k is None else k
    kw = wrap_k(k, form['kform'])
    r = tn.orthogonalize(Y, kw, **flag_kw('use_stab', stab, form['flagform']))
    if len(Y) != len(snap) or any(not same_bytes(a, b) for a, b in zip(Y, snap)):
        return ('orthogonalize modified its argument', None, None)
    return verify_orth(snap, scales, r, kk, stab, lo)


def verify_orth(Y, scales, r, kk, stab, lo=False):
    """every clause of the property for the result r of orthogonalize(Y, kk, use_stab=stab); Y: the cores as handed over
    (saved copy), carrying the power-of-two scales [scales] corewise"""
    Y0 = [np.asarray(G, dtype=float) * 2.0 ** -s for G, s in zip(Y, scales)]
    tg, td = (2e-4, 2e-4) if lo else (1e-12, 1e-9)
    tnrm = 2e-4 if lo else 1e-12
    d = len(Y)
    if stab:
        if not (isinstance(r, tuple) and len(r) == 2):
            return ('orthogonalize(use_stab=True) does not return a pair (Z, p)', repr(type(r)), None)
        Z, p = r
        if not isinstance(p, (int, np.integer)):
            return ('the exponent p is not an integer', repr(p), None)
        p = int(p)
    else:
        Z, p = r, 0
    w = well_formed(Z, Y)
    if w:
        return (w, [list(np.shape(G)) for G in Z] if isinstance(Z, list) else None, None)
    er = expected_ranks([G.shape for G in Y], kk)
    gr = [G.shape[0] for G in Z] + [Z[-1].shape[2]]
    if gr != er:
        return ('ranks after orthogonalisation are not min(r1*n, r2) / min(r1, n*r2) along the sweeps', gr, er)
    old = [G.shape[0] for G in Y] + [1]
    if any(a > b for a, b in zip(gr, old)):
        return ('a rank increased', gr, old)
    for m in range(d):
        G = np.asarray(Z[m], dtype=float)
        if m < kk:
            U = G.reshape(-1, G.shape[2])
            e = float(np.max(np.abs(U.T @ U - np.eye(G.shape[2]))))
            if e > tg:
                return (f'core {m} (left of the pivot {kk}) does not have orthonormal columns', e, 0.0)
        if m > kk:
            V = G.reshape(G.shape[0], -1)
            e = float(np.max(np.abs(V @ V.T - np.eye(G.shape[0]))))
            if e > tg:
                return (f'core {m} (right of the pivot {kk}) does not have orthonormal rows', e, 0.0)
    # same tensor: Y = 2^sum(scales) dense(Y0); result 2^p dense(Z)
    D0 = dense(Y0)
    sc = float(np.max(np.abs(D0))) if D0.size else 0.0
    # orthogonalisation is backward stable relative to the product of the core norms, not to the entries of the result:
    # a tensor that vanishes by cancellation is reproduced to 1e-13 of that natural scale (a few hundred ulps)
    nat = float(np.prod([np.linalg.norm(G.ravel()) for G in Y0])) * (1e-6 if lo else 1e-13)
    shift = p - sum(scales)
    if stab or abs(shift) <= 1000:
        if stab:
            DZ = dense(Z)
            if abs(shift) > 1000:
                if sc > 0 and float(np.max(np.abs(DZ))) > 0:
                    return ('2^p Z differs from Y by more than 2^1000', shift, 0)
                DZs = DZ
            else:
                DZs = DZ * 2.0 ** shift
        else:
            Zn = [np.asarray(G, dtype=float) for G in Z]
            Zn[kk] = Zn[kk] * 2.0 ** shift       # only the pivot core carries the weight
            DZs = dense(Zn)
        e = float(np.max(np.abs(DZs - D0))) if D0.size else 0.0
        if e > td * sc + nat + 1e-290:
            return ('the result does not denote the input tensor (2^p Z != Y)', e, td * sc + nat)
        # the pivot core carries the norm
        nz = float(np.linalg.norm((np.asarray(Z[kk], dtype=float) * 2.0 ** (shift if abs(shift) <= 1000 else 0)).ravel()))
        ny = float(np.linalg.norm(D0.ravel()))
        if abs(nz - ny) > tnrm * ny + nat + 1e-290:
            return ('the pivot core does not carry the Frobenius norm', nz, ny)
    if stab:
        for m in range(d):
            mx = float(np.max(np.abs(Z[m])))
            if m != kk and mx > 1 + max(tg, 1e-10):
                return (f'entry of non-pivot core {m} larger than 1 with use_stab', mx, 1.0)
        if d >= 2:
            mx = float(np.max(np.abs(Z[kk])))
            if not (mx == 0.0 or (1 - (2.0 ** -20 if lo else 2.0 ** -52) <= mx < 2)):
                return ('max-modulus of the pivot core is not in [1, 2) with use_stab', mx, '[1,2)')
    return None


def close_tt(A, B, tol):
    """cores of two TT-tensors agree (shapes exactly, entries to tol relative to the core)"""
    if len(A) != len(B):
        return 'different number of cores'
    for j, (G, H) in enumerate(zip(A, B)):
        G, H = np.asarray(G, dtype=float), np.asarray(H, dtype=float)
        if G.shape != H.shape:
            return f'core {j}: shapes {G.shape} / {H.shape}'
        sc = float(np.max(np.abs(G))) if G.size else 0.0
        if G.size and float(np.max(np.abs(G - H))) > tol * sc:
            return f'core {j}: entries differ by {float(np.max(np.abs(G - H))):.3g} (scale {sc:.3g})'
    return None


def check_history(tn, Y0, scales, ks, stab, form=None):
    """HISTORIES: (a) orthogonalize applied repeatedly (pivots ks, the last one twice = idempotence) to its own result:
    every call keeps the tensor and all clauses; (b) a second call on the SAME argument objects; (c) the sweep done by
    hand with in-place single steps (+ core_stab) equals orthogonalize; (d) the same with the copying single steps,
    whose arguments must stay bit-identical."""
    form = norm_form(form)
    lo = has_f32(form)
    Y = build(Y0, scales, form)
    snap = [G.copy() for G in Y]
    d = len(Y)

    def call(X, k):
        return tn.orthogonalize(X, wrap_k(k, form['kform']), **flag_kw('use_stab', stab, form['flagform']))
    # (a)
    cur, cs = Y, list(scales)
    first = None
    for t, k in enumerate(ks):
        csnap = [np.array(G, copy=True) for G in cur]
        r = call(cur, k)
        if any(not same_bytes(a, b) for a, b in zip(cur, csnap)):
            return (f'call {t} (pivot {k}) of a chain of orthogonalize calls modified its argument', None, None)
        f = verify_orth(csnap, cs, r, k, stab, lo)
        if f:
            return (f'call {t} (pivot {k}) of a chain of orthogonalize calls on its own result: ' + f[0], f[1], f[2])
        if first is None:
            first = r
        cur = r[0] if stab else r
        tot = sum(cs)
        cs = [0] * d
        if not stab:
            cs[k] = tot
    # (b) the same argument objects again, other pivot
    r = call(Y, ks[-1])
    if any(not same_bytes(a, b) for a, b in zip(Y, snap)):
        return ('second orthogonalize call on the same argument objects modified them', None, None)
    f = verify_orth(snap, scales, r, ks[-1], stab, lo)
    if f:
        return ('second orthogonalize call on the same argument objects: ' + f[0], f[1], f[2])
    # (c), (d) the sweep by hand for the first pivot
    k = ks[0]
    Z1, p1 = (first[0], int(first[1])) if stab else (first, 0)
    tol = 1e-5 if lo else 1e-12
    for inplace in (True, False):
        Zh, p = [G.copy() for G in Y], 0
        for side, idxs in (('left', range(k)), ('right', range(d - 1, k, -1))):
            f_ = tn.orthogonalize_left if side == 'left' else tn.orthogonalize_right
            for i in idxs:
                before = [G.copy() for G in Zh]
                if inplace:
                    out = f_(Zh, i, inplace=True)
                    if out is not Zh:
                        return ('in-place step of a hand-made sweep does not return its argument', None, None)
                else:
                    out = f_(Zh, i)
                    if any(not same_bytes(a, b) for a, b in zip(Zh, before)):
                        return ('copying step of a hand-made sweep modified its argument', i, None)
                    Zh = out
                j2 = i + 1 if side == 'left' else i - 1
                if stab:
                    Zh[j2], p = tn.core_stab(Zh[j2], p)
        w = close_tt(Z1, Zh, tol)
        if w or int(p) != p1:
            return (f'orthogonalize differs from the sweep made by hand with {"in-place" if inplace else "copying"} '
                    f'single steps: {w or "exponent p"}', [int(p)], [p1])
    return None


def check_step(tn, Y, side, i, inplace, form=None):
    """property oracle for the single steps; Y is the built argument (see build)"""
    form = norm_form(form)
    lo = has_f32(form)
    tg, td = (2e-4, 2e-4) if lo else (1e-12, 1e-9)
    snap = [G.copy() for G in Y]
    f = tn.orthogonalize_left if side == 'left' else tn.orthogonalize_right
    iw = wrap_k(i, form['kform'])
    fw = flag_kw('inplace', inplace, form['flagform'])
    Z = f(Y, iw, **fw)
    j2 = i + 1 if side == 'left' else i - 1
    fdesc = repr(fw.get('inplace', '<omitted>'))
    if inplace:
        if Z is not Y:
            return (f'in-place variant (inplace={fdesc}) does not return its argument', None, None)
        for m in range(len(Y)):
            if m not in (i, j2) and not same_bytes(Y[m], snap[m]):
                return (f'in-place variant changed core {m} (only {i} and {j2} may change)', m, None)
    else:
        if Z is Y:
            return (f'copying variant (inplace={fdesc}) returned its argument instead of a new tensor', None, None)
        if len(Y) != len(snap) or any(not same_bytes(a, b) for a, b in zip(Y, snap)):
            return (f'copying variant (inplace={fdesc}) modified its argument', None, None)
    w = well_formed(Z, snap)
    if w:
        return (w, None, None)
    for m in range(len(snap)):
        if m not in (i, j2) and not same_bytes(Z[m], snap[m]):
            return (f'core {m} changed (only {i} and {j2} may change)', m, None)
    G = np.asarray(Z[i], dtype=float)
    r1, n, r2 = snap[i].shape
    if side == 'left':
        U = G.reshape(-1, G.shape[2])
        e = float(np.max(np.abs(U.T @ U - np.eye(G.shape[2]))))
        if G.shape[2] != min(r1 * n, r2):
            return ('new rank is not min(r1*n, r2)', G.shape[2], min(r1 * n, r2))
    else:
        V = G.reshape(G.shape[0], -1)
        e = float(np.max(np.abs(V @ V.T - np.eye(G.shape[0]))))
        if G.shape[0] != min(r1, n * r2):
            return ('new rank is not min(r1, n*r2)', G.shape[0], min(r1, n * r2))
    if e > tg:
        return (f'core {i} is not orthonormal after orthogonalize_{side}', e, 0.0)
    D0, D1 = dense(snap), dense(Z)
    sc = float(np.max(np.abs(D0))) if D0.size else 0.0
    e = float(np.max(np.abs(D1 - D0))) if D0.size else 0.0
    nat = float(np.prod([np.linalg.norm(np.asarray(G_, dtype=float).ravel()) for G_ in snap])) * (1e-6 if lo else 1e-13)
    if e > td * sc + nat + 1e-290:
        return (f'orthogonalize_{side} changed the tensor', e, td * sc + nat)
    return None


def check_reject(tn, Y, what, k, form=None):
    form = norm_form(form)
    kw = wrap_k(k, form['kform'])
    try:
        if what == 'orthogonalize':
            tn.orthogonalize(apply_form(Y, form), kw)
        elif what == 'orthogonalize_stab':
            tn.orthogonalize(apply_form(Y, form), kw, use_stab=True)
        elif what == 'left':
            tn.orthogonalize_left(apply_form(Y, form), kw)
        else:
            tn.orthogonalize_right(apply_form(Y, form), kw)
    except ValueError as e:
        if isinstance(e, np.linalg.LinAlgError):
            return ('out-of-range mode number: LinAlgError instead of ValueError', repr(e)[:100], 'ValueError')
        return None
    except Exception as e:  # noqa
        return ('out-of-range mode number: wrong exception', repr(e)[:100], 'ValueError')
    return ('out-of-range mode number accepted', None, 'ValueError')


def run_oracle(tn, inp):
    """inp = [kind, Y0 desc, scales, k, flag] (+ optional argument form: see norm_form / apply_form / wrap_k)"""
    kind, D, scales, k, flag = inp[:5]
    form = norm_form(inp[5] if len(inp) > 5 else None)
    Y0 = tt_of_desc(D)
    try:
        if kind == 'orthogonalize':
            return check_orth(tn, Y0, scales, k, flag, form)
        if kind == 'history':
            return check_history(tn, Y0, scales, k, flag, form)
        if kind in ('left', 'right'):
            return check_step(tn, build(Y0, scales, form), kind, k, flag, form)
        return check_reject(tn, Y0, kind[len('reject-'):], k, form)
    except Exception as e:  # noqa
        return (f'{kind} raised on a valid input: {e!r}'[:300], None, None)


KNOWN_KEY = 'C04/stab-adjacent-scale-overflow'
# the two regression inputs of the known finding (known_findings.json): Y0 with 2^512 resp. 2^-540 on each core, k = 1
_KF_Y0 = [np.ones((1, 2, 2)), np.array([[[1.], [2.]], [[3.], [5.]]])]


def known_cases():
    D = tt_desc(_KF_Y0)
    return [['orthogonalize', D, [512, 512], 1, True], ['orthogonalize', D, [-540, -540], 1, True]]


def in_known_family(inp):
    """use_stab=True and the scales of two ADJACENT cores multiply beyond the double range (the weight R of one is
    multiplied into the other before core_stab rescales), while every single entry is an ordinary double"""
    kind, D, scales, k, flag = inp[:5]
    if kind != 'orthogonalize' or flag is not True or len(D) < 2:
        return False
    Y0 = tt_of_desc(D)
    mx = [float(np.max(np.abs(G))) if G.size else 0.0 for G in Y0]
    if any(not (0 < x < 2.0 ** 60 and x > 2.0 ** -60) for x in mx) or any(abs(s_) > 960 for s_ in scales):
        return False
    for j in range(len(D) - 1):
        a = math.log2(mx[j]) + math.log2(mx[j + 1])
        e = scales[j] + scales[j + 1] + a
        if e + math.log2(max(Y0[j].shape[2], 1)) + 1 >= 1023 or e <= -1022:
            return True
    return False


def np_orth(Y, k):
    """reference orthogonalisation with plain numpy (independent of teneva): left-orthonormal cores before k,
    right-orthonormal cores after k"""
    Z = [np.array(G, dtype=float) for G in Y]
    d = len(Z)
    for i in range(k):
        r1, n, r2 = Z[i].shape
        Q, Rm = np.linalg.qr(Z[i].reshape(r1 * n, r2))
        Z[i] = Q.reshape(r1, n, -1)
        Z[i + 1] = np.tensordot(Rm, Z[i + 1], 1)
    for i in range(d - 1, k, -1):
        r1, n, r2 = Z[i].shape
        Q, Rm = np.linalg.qr(Z[i].reshape(r1, n * r2).T)
        Z[i] = Q.T.reshape(-1, n, r2)
        Z[i - 1] = np.tensordot(Z[i - 1], Rm.T, 1)
    return Z


def nearly_orthonormal(rng, Y, k0, eps):
    """an orthogonalised tensor whose cores are ALMOST orthonormal: relative noise eps, or (eps = 'f32') the float32
    round trip of the cores"""
    Z = np_orth(Y, k0)
    if eps == 'f32':
        return [G.astype(np.float32).astype(float) for G in Z]
    return [G * (1.0 + eps * np.array([rng.uniform(-1, 1) for _ in range(G.size)]).reshape(G.shape)) for G in Z]


def shrink(tn, inp, budget=80):
    """greedy shrinking of a failing input: drop the scaling, round the entries, cut ranks and mode sizes"""
    kind, D, scales, k, flag = inp[:5]
    tail = list(inp[5:])
    if kind not in ('orthogonalize', 'left', 'right'):
        return inp

    def fails(c):
        try:
            return run_oracle(tn, c) is not None
        except Exception:  # noqa
            return False
    cur = inp
    c = [kind, cur[1], [0] * len(D), k, flag] + tail
    if any(scales) and fails(c):
        cur = c
    for q in (1, 2, 8):
        Dr = [[d[0], d[1], d[2], [float(round(float.fromhex(h) * q) / q).hex() for h in d[3]]] for d in cur[1]]
        c = [kind, Dr, cur[2], k, flag] + tail
        if fails(c):
            cur = c
            break
    changed = True
    while changed and budget > 0:
        changed = False
        Y = tt_of_desc(cur[1])
        for j in range(len(Y)):
            cands = []
            if j + 1 < len(Y) and Y[j].shape[2] > 1:
                r = Y[j].shape[2]
                Y2 = [G.copy() for G in Y]
                Y2[j], Y2[j + 1] = Y2[j][:, :, :r - 1], Y2[j + 1][:r - 1, :, :]
                cands.append(Y2)
            if Y[j].shape[1] > 1:
                Y2 = [G.copy() for G in Y]
                Y2[j] = Y2[j][:, :Y[j].shape[1] - 1, :]
                cands.append(Y2)
            for Y2 in cands:
                budget -= 1
                c = [kind, tt_desc(Y2), cur[2], k, flag] + tail
                if fails(c):
                    cur, changed = c, True
                    break
            if changed:
                break
    return cur


def search(R, ctx, deep, hints):
    tn = C.import_teneva()
    rng = ctx['rng']
    fails, n_eval = [], 0
    cand = []
    # hints from the correspondence first
    for h in hints[:20]:
        inp = h.get('input', [])
        if not inp:
            continue
        if inp[0] == 'orthogonalize':
            cand.append(['orthogonalize', inp[2], [0] * len(inp[2]), inp[3], inp[4], inp[5] if len(inp) > 5 else None])
        elif inp[0] in ('orthogonalize_left', 'orthogonalize_right'):
            cand.append([inp[0][len('orthogonalize_'):], inp[2], [0] * len(inp[2]), inp[3], inp[4],
                         inp[5] if len(inp) > 5 else None])
        elif inp[0] == 'orthogonalize-bad':
            cand.append(['reject-orthogonalize_stab' if inp[3] else 'reject-orthogonalize', inp[1], [0] * len(inp[1]), inp[2],
                         None, dict(kform=inp[4] if len(inp) > 4 else 'int')])
        elif inp[0] in ('left-bad', 'right-bad'):
            cand.append(['reject-' + inp[0][:-4], inp[1], [0] * len(inp[1]), inp[2], None,
                         dict(kform=inp[3] if len(inp) > 3 else 'int')])
    n_tt = 150 if deep else 40
    nf = 0
    for t in range(n_tt):
        fam = FAMILIES[t % len(FAMILIES)]
        Y, scales = gen_tt(rng, fam, big=deep)
        Y0 = [G * 2.0 ** -s for G, s in zip(Y, scales)]
        D = tt_desc(Y0)
        d = len(Y)
        pl = plain_ok(scales)
        # (a) the plain form (C-ordered float64 cores in a list, Python int pivot): every pivot, every step
        base = dict(layouts='C', alias=(fam == 'alias'), kform='int', container='list')
        for k in list(range(d)) + ([None] if t % 3 == 0 else []):
            cand.append(['orthogonalize', D, scales, k, True, base])
            if pl:
                cand.append(['orthogonalize', D, scales, k, False, base])
        # (b) a random argument form per call: pivot type, per-core layout / dtype, tuple, aliasing
        for k in range(d):
            for stab in ((True, False) if pl else (True,)):
                cand.append(['orthogonalize', D, scales, k, stab, rand_form(rng, fam, scales)])
        if pl:
            for side, idxs in (('left', range(d - 1)), ('right', range(1, d))):
                for i in idxs:
                    for inplace in (True, False):
                        cand.append([side, D, scales, i, inplace,
                                     base if rng.random() < 0.3 else rand_form(rng, fam, scales, allow_tuple=not inplace)])
        # (c) systematic sweep: every pivot type x every uniform layout (and, for the aliasing idiom, every layout with
        #     ONE array object for the repeated core), on one pivot / one step of each side
        if t % 3 == 1 or fam == 'alias':
            lays = ['C', 'F', 'view'] + (['int'] if fam in ('int', 'alias') else []) + ([] if any(scales) or fam == 'alias' else ['f32'])
            for lay in lays:
                for kf in KFORMS:
                    fm = dict(layouts=lay, alias=(fam == 'alias'), kform=kf, container='tuple' if nf % 7 == 3 else 'list')
                    nf += 1
                    cand.append(['orthogonalize', D, scales, rng.randrange(d), True, fm])
                    if pl and d >= 2:
                        fl = dict(fm, container='list')
                        cand.append(['left', D, scales, rng.randrange(d - 1), True, fl])
                        cand.append(['right', D, scales, rng.randrange(1, d), True, fl])
                        cand.append(['right', D, scales, rng.randrange(1, d), False, fm])
        # (e) HISTORIES: chains of calls on the own result (last pivot twice), repeated calls on the same objects, the
        #     sweep by hand with in-place / copying single steps
        for stab in ((True, False) if pl else (True,)):
            k1, k2 = rng.randrange(d), rng.randrange(d)
            cand.append(['history', D, scales, [k1, k2, k2], stab, base if rng.random() < 0.5 else rand_form(rng, fam, scales)])
        if t % 4 == 2:
            for k1 in sorted({0, d - 1}):
                cand.append(['history', D, scales, [k1, d - 1 - k1, d - 1 - k1], True, base])
        # (f) degenerate shapes, systematically: a zero core at EVERY position, mode size 1 AT the pivot, every pivot
        if t % 5 == 2 and not any(scales):
            for j in range(d):
                Yz = [G.copy() for G in Y0]
                Yz[j][...] = 0.0
                Dz = tt_desc(Yz)
                for k in range(d):
                    cand.append(['orthogonalize', Dz, scales, k, bool((j + k) % 2), base])
                cand.append(['history', Dz, scales, [j, d - 1 - j, d - 1 - j], True, base])
            for k in range(d):
                Y1 = [G.copy() for G in Y0]
                Y1[k] = Y1[k][:, :1, :]
                D1 = tt_desc(Y1)
                for stab in (True, False):
                    cand.append(['orthogonalize', D1, scales, k, stab, base])
                if k < d - 1:
                    cand.append(['left', D1, scales, k, True, base])
                if k > 0:
                    cand.append(['right', D1, scales, k, False, base])
        # (g) NEARLY ORTHONORMAL input: an orthogonalised tensor with relative noise 1e-6 .. 1e-10 or after a float32 round
        #     trip; the result of a QR is orthonormal to machine precision whatever the input (Gram / norm at 1e-12)
        if t % 3 == 0 and not any(scales) and fam not in ('int', 'zero', 'alias', 'd1'):
            k0 = rng.randrange(d)
            for eps in (1e-6, 1e-8, 1e-9, 1e-10, 'f32'):
                Dn = tt_desc(nearly_orthonormal(rng, Y0, k0, eps))
                for k in range(d):
                    cand.append(['orthogonalize', Dn, scales, k, bool(k % 2), base])
                for i in range(d - 1):
                    cand.append(['left', Dn, scales, i, bool(i % 2), base])
                for i in range(1, d):
                    cand.append(['right', Dn, scales, i, bool(i % 2), base])
        # (h) every spelling of the boolean options (Python truthiness decides): inplace of both steps, use_stab
        if t % 3 == 1 and d >= 2:
            for ff in FLAGFORMS:
                fm = dict(base, flagform=ff)
                for flag in (False, True):
                    if flag and ff in ('none', 'default'):
                        continue
                    cand.append(['orthogonalize', D, scales, rng.randrange(d), flag, fm] if (flag or pl) else
                                ['orthogonalize', D, scales, rng.randrange(d), True, base])
                    if pl:
                        cand.append(['left', D, scales, rng.randrange(d - 1), flag, fm])
                        cand.append(['right', D, scales, rng.randrange(1, d), flag, fm])
        # (d) rejection, every pivot type
        if t % 4 == 0:
            for kf in KFORMS:
                fm = dict(kform=kf, layouts=rng.choice(['C', 'F', 'view']))
                for k in [-1, -d, d, d + 2]:
                    cand.append(['reject-orthogonalize', D, [0] * d, k, None, fm])
                    cand.append(['reject-orthogonalize_stab', D, [0] * d, k, None, fm])
                for i in [-1, -d, d - 1, d]:
                    cand.append(['reject-left', D, [0] * d, i, None, fm])
                for i in [0, -1, d, d + 1]:
                    cand.append(['reject-right', D, [0] * d, i, None, fm])
    cand += known_cases()      # fixed regression cases of the known finding (the generators stay clear of that family)
    n_known = 0
    for inp in cand:
        n_eval += 1
        f = run_oracle(tn, inp)
        if f:
            if in_known_family(inp):
                n_known += 1
                fails.append(dict(what=f[0], input=inp, got=f[1], expected=f[2], finding_key=KNOWN_KEY))
                continue
            small = shrink(tn, inp)
            f2 = run_oracle(tn, small)
            if f2:
                inp, f = small, f2
            fails.append(dict(what=f[0], input=inp, got=f[1], expected=f[2]))
            if len(fails) - n_known >= 5:
                break
    R.search.append(dict(name='dense reference: same tensor, Gram matrices, ranks, norm on the pivot, p and magnitudes, '
                              'frame (all other cores bitwise, aliased ones included) / in-place behaviour of the single '
                              'steps, rejection; argument forms: pivot as int / np.int64 / np.int32 / np.intp / 0-d array / '
                              'None, cores C- / F-ordered / non-contiguous views / int64 / float32 (mixed per core), the same '
                              'array object several times in the list, list / tuple; histories: chains of calls on the own '
                              'result (idempotence), repeated calls on the same objects, sweeps by hand with in-place / '
                              'copying steps = orthogonalize; a single core at 2^+-(400..480), a zero core at every position, '
                              'mode size 1 at the pivot; nearly orthonormal inputs (orthogonalised tensor + relative noise 1e-6 .. 1e-10 / float32 '
                              'round trip), Gram and norm on the pivot at 1e-12',
                         evaluations=n_eval, failures=len(fails) - n_known, known_finding_cases=n_known, deep=deep))
    return fails


def replay(data):
    tn = C.import_teneva()
    p = data['payload']
    print(data['what'])
    if 'input' in p and isinstance(p['input'], list) and len(p['input']) in (5, 6):
        f = run_oracle(tn, p['input'])
        print('replayed:', f)
        return 1 if f else 0
    print('no failing input recorded (broken proof / correspondence):', str(p)[:1000])
    return 1
