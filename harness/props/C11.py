"""C11 - degenerate but valid inputs yield well-formed finite tensors, never NaN."""
import contextlib
import io
import math
import re
import warnings
from fractions import Fraction

import numpy as np

from harness import common as C
from harness import coqfmt as F

THEOREMS = 'Properties/C11.v'
TIME_LIMIT = {'quick': 1200, 'thorough': 5400}
CLAIM = dict(
    text='Coq theorems (Properties/C11.v), all for every d >= 1, every mode size / rank >= 1 (mode size 1, rank 1, '
         'over-ranked cores, zero or rank-deficient data included), every threshold e and rank cap r: '
         '(1) vis.show accepts exactly the non-empty core lists whose ranks chain from 1 to 1 and reports their mode '
         'sizes and ranks, otherwise raises ValueError (C11_show_accepts / C11_show_rejects); '
         '(2) orthogonalize (every pivot, with and without stabilisation), truncate (all 8 combinations of orth / '
         'use_stab / is_eigh), svd and svd_matrix (q >= 1) return Ok with a well-formed tensor of the same mode sizes and all ranks >= 1 '
         '(C11_orthogonalize_wf, C11_truncate_wf, C11_svd_wf, C11_svd_matrix_wf) assuming only the SHAPE halves of the qr / rq / svd '
         'contracts (nothing about returned values; eigh and argsort arbitrary), and matrix_svd / matrix_skeleton '
         'always return factors with a common inner dimension >= 1 (C11_matrix_svd_inner, C11_matrix_skeleton_inner); '
         'the order-1 ANOVA cores (any data: zero, constant, repeated samples; any noise), the pair tensors of order-2 '
         'ANOVA, act_two.add and act_many.add_many (rounding routine = any validity-keeping oracle, e.g. truncate) are '
         'valid tensors of the expected mode sizes (C11_anova_cores_1_wf, C11_anova_pair_wf, C11_add_wf, C11_add_many_wf; '
         'the models Anova.v / ActOne.v behind these four are tied to the code by the C13 / C01 correspondences, here '
         'only through the implementation-level search); '
         'qtt_to_tt returns a valid tensor of mode sizes 2^q for every valid QTT chain, core_tt_to_qtt / tt_to_qtt return '
         'valid QTT chains for EVERY factorisation routine meeting only the shape half of its contract (no exactness: '
         'zero / rank-deficient / over-ranked cores, e = 0) (C11_qtt_to_tt_wf, C11_core_tt_to_qtt_wf, C11_tt_to_qtt_wf); '
         'als, als_func (every sample list and solver) and cross (however the run ends) return tensors with the mode sizes '
         'and chained ranks >= 1 of the initial approximation (C11_als_wf, C11_als_func_wf, C11_cross_wf = re-exports of the '
         'C07 / C06 invariants, storage clause not included; degenerate instances d = 2, n = 1, rank 1, repeated samples, '
         'zero data in C11_als_degenerate_example, C11_cross_degenerate_example); func_int keeps validity (DCT-I for mode '
         'sizes >= 2, size 1 rejected with an exception; DST-I always) and func_int_general returns a valid tensor whose '
         'mode sizes are the numbers of basis functions (C11_func_int_wf, C11_func_int_rejects_size1, '
         'C11_func_int_general_wf); '
         '(3) over the guarded carrier OG K (a poison flag raised by x/0 and sqrt(x<0), propagated by arithmetic, '
         'comparisons with a poisoned operand false) the repaired matrix_svd returns clean factors for every matrix '
         'and every eigh / argsort (C11_matrix_svd_no_zero_div) - indeed the guarded run returns exactly the embedding of the plain result, same values '
         'and all flags down, for matrix_svd and for accuracy_of (C11_matrix_svd_guarded_is_plain, '
         'C11_accuracy_guarded_is_plain; the same projection for truncate / matrix_skeleton / accuracy_on_data is not '
         'proved: partial) -, the pre-repair rule is poisoned on the 1x2 zero matrix '
         '(C11_matrix_svd_pinned_refuted), matrix_skeleton(rel=True) on singular values that are all zero cuts no rank '
         'and keeps its factors clean (C11_skeleton_rel_zero_rank, C11_skeleton_clean), and accuracy (the code after the two '
         'norms, with the zero-difference shortcut of 0f9009d) returns 0, the saturation value, -1 or the quotient, the '
         'quotient only when every sentinel test incl. |z2| < 1e-100 is false (C11_accuracy_cases); it returns exactly -1 '
         'when the exponents are in range and a sentinel test fires, in particular for a reference norm below the '
         'threshold, clean over OG K where the unguarded quotient is poisoned (C11_accuracy_sentinel, '
         'C11_accuracy_tiny_reference, C11_accuracy_zero_reference_clean, C11_accuracy_unguarded_poisoned); accuracy_on_data (repair 8aa69ea) returns -1 or the quotient, the quotient only after y_norm == 0 tested false (C11_accuracy_on_data_cases), and over OG K with an all-zero reference and any tensor it returns the clean -1 where the unguarded quotient is poisoned (C11_accuracy_on_data_zero_reference, C11_accuracy_on_data_unguarded). '
         'Partial: finiteness (no overflow, no NaN) of float results is not a Coq theorem; it is validated on every run: '
         'the models at binary64 with replayed LAPACK outputs agree with the implementation (shapes exactly, dense '
         'tensors to 1e-9) on the degenerate catalogue, and a search checks np.isfinite + well-formedness of every '
         'TT-returning routine and finiteness / sentinel of the scalar functions on that catalogue. Known findings (tagged, not violations): als with r given and use_stab=True raises AttributeError for every input (key C11/als-adaptive-use_stab-raises; any other outcome stays a violation); accuracy_on_data and e_vld of als / cross return NaN when max|y_data| is '
         'above 1e154, because the squared reference overflows (key C11/accuracy_on_data-reference-overflow; fixed '
         'regression inputs in the search; reference values up to 1e150 and down to 5e-324 are in the verdict). The '
         'composition of the ANOVA pieces into anova(order=2) and anova_func are covered by that search only (no C11 theorem); '
         'the models Qtt.v / Als.v / AlsFunc.v / Cross.v / Func.v are tied to the code by the C17 / C07 / C06 / C12 '
         'correspondences, here only through the implementation-level search.',
    note='Scope (documented preconditions, not in the verdict): a Chebyshev grid needs >= 2 nodes (func_gets(A, 1), func_int, func_int_full, ind_to_poi with a mode of size 1 are outside; size-1 COEFFICIENT modes and a single basis function are inside); als_func needs equal mode sizes; accuracy on dense ndarrays is a convenience branch, not a TT routine; accuracy(huge, zero) = 1e299 (saturation tested before the sentinel) is an observation recorded in DESIGN; the non-terminating cross(f = 0, e only) is a C06 finding. '
         'Trusted: Coq kernel; vm_compute for case evaluation; hand-written models Model/Svd.v, Model/Transformation.v, '
         'Model/Stab.v, Model/Wf.v tied to teneva by the correspondence; shape contracts of LAPACK qr / rq / svd '
         '(validated on every recorded call); the order facts 0<x -> x<>0, not 0<0, 0==0 about the carrier (proved for '
         'Qc, C11_laws_Qc).',
    technique='Coq proof (invariants over list updates, carrier transformer for guarded primitives) + exact (Qc with '
              'poison flags) and binary64 model/implementation correspondence + implementation-level search')
TRUSTED = ['Coq 8.16.1 kernel + vm_compute (case evaluation only)',
           'models Model/Svd.v (matrix_svd, matrix_skeleton, truncate, svd), Model/Transformation.v (orthogonalize), '
           'Model/Stab.v (accuracy_of), Model/ActOneR.v (accuracy_on_data), Model/Wf.v (show, svd_matrix, guarded carrier OG) tied to teneva by correspondence',
           'oracle shape contracts: qr (R rows = Q cols >= 1), rq (R cols = Q rows >= 1), svd (>= 1 singular value) for '
           'non-empty matrices; eigh / argsort unconstrained',
           'IEEE-754 semantics of division by zero / NaN comparison as abstracted by the poison flag of OG']
ASSUMPTIONS = ['search scale families (subnormal entries 1e-320..1e-290 in one core, 1e-160 per core, 1e+150 per core, one '
               '1e-160 core) are checked for finiteness / well-formedness on every use_stab path and accuracy; dense agreement '
               'with an extended-precision reference is required to 1e-9 only where no operand or intermediate is subnormal '
               '(coarse 1e-2 / 1e-3 bound otherwise); loss of VALUE accuracy under underflow is C16 / C04, not C11',
               'valid input: non-empty list of 3-D cores, ranks chain 1..1, every mode size and rank >= 1, finite entries',
               'overflow of huge entries is property C16, not C11']

warnings.filterwarnings('ignore')

# ====================================================================================================================
# helpers
# ====================================================================================================================


def wf_shape(Y, ns=None):
    """independent implementation of the vis.show structural predicate (+ expected mode sizes)"""
    if not isinstance(Y, list) or len(Y) == 0:
        return 'not a non-empty list'
    r = 1
    for k, G in enumerate(Y):
        if not isinstance(G, np.ndarray) or G.ndim != 3:
            return f'core {k} is not a 3-dimensional array'
        if G.dtype.kind != 'f':
            return f'core {k} has dtype {G.dtype}'
        if G.shape[0] != r:
            return f'core {k} has left rank {G.shape[0]}, expected {r}'
        if min(G.shape) < 1:
            return f'core {k} has an empty dimension {G.shape}'
        r = G.shape[2]
    if r != 1:
        return f'last right rank is {r}'
    if ns is not None and [G.shape[1] for G in Y] != list(ns):
        return f'mode sizes {[G.shape[1] for G in Y]}, expected {list(ns)}'
    return None


def finite_tt(Y):
    return all(np.isfinite(G).all() for G in Y)


def tt_json(Y):
    return [np.asarray(G, dtype=float).tolist() for G in Y]


def tt_of_json(J):
    return [np.array(G, dtype=float) for G in J]


def full(Y):
    Z = Y[0]
    for G in Y[1:]:
        Z = np.tensordot(Z, G, 1)
    return Z.reshape([G.shape[1] for G in Y])


def rand_tt(rng, ns, rs, lo=-2, hi=2):
    """integer-valued random TT with rank profile rs (len d+1)"""
    return [np.array([[[float(rng.randint(lo, hi)) for _ in range(rs[k + 1])] for _ in range(ns[k])]
                      for _ in range(rs[k])]) for k in range(len(ns))]


def catalogue(tn, rng, big=False, extra=False):
    """the degenerate input families of the property, as (family, Y); extra=True adds the exactly-rank-deficient
    families used by the search only (delta, two-level cores, padded cores)"""
    out = []
    shapes = [[3, 4], [2, 3, 2], [3, 1, 2], [1, 1, 1], [2, 2, 2, 2], [4, 4], [1, 5], [2, 2, 2]]
    if big:
        shapes += [[3, 3, 3, 3, 3], [5, 4, 3], [2] * 6, [1, 4, 1, 4]]
    for ns in shapes:
        d = len(ns)
        out.append(('zero_const', tn.const(ns, 0.)))
        Yr = rand_tt(rng, ns, [1] + [rng.randint(1, 3) for _ in range(d - 1)] + [1])
        out.append(('zero_mul', tn.mul(Yr, 0.)))
        Zc = [np.zeros_like(G) for G in Yr]
        out.append(('zero_cores', Zc))
        Zh = [G.copy() for G in Yr]
        Zh[rng.randrange(d)][:] = 0.
        out.append(('zero_one_core', Zh))
        out.append(('rank1', rand_tt(rng, ns, [1] * (d + 1), 1, 3)))
        out.append(('constant', tn.const(ns, float(rng.choice([1, -2, 3])))))
        out.append(('constant_sum', tn.add(tn.const(ns, 2.), tn.const(ns, -1.))))
        over = [1] + [rng.randint(4, 7) for _ in range(d - 1)] + [1]
        out.append(('over_ranked', rand_tt(rng, ns, over)))
        out.append(('rank_deficient', tn.add(Yr, Yr)))
        Yd = [G.copy() for G in Yr]
        k = rng.randrange(d)
        if Yd[k].shape[2] > 1:
            Yd[k][:, :, -1] = Yd[k][:, :, 0]      # two equal columns in an unfolding
        out.append(('rank_deficient_core', Yd))
        out.append(('cancel', tn.sub(Yr, Yr)))     # exactly zero tensor with non-zero cores
        out.append(('generic', Yr))
        if extra:
            out.append(('delta', tn.delta(ns, [rng.randrange(n) for n in ns], float(rng.choice([1, 2, -4])))))
            out.append(('two_level', [np.array([[[float(rng.randint(0, 1)) for _ in range(G.shape[2])]] * G.shape[1]
                                                for _ in range(G.shape[0])]) for G in Yr]))
            pad = [1] + [rng.randint(2, 4) for _ in range(d - 1)] + [1]
            Yp = [np.zeros((pad[k], ns[k], pad[k + 1])) for k in range(d)]
            for k in range(d):
                Yp[k][0, :, 0] = [float(rng.choice([1, 2, 4])) for _ in range(ns[k])]   # rank 1 inside padded cores
            out.append(('padded_rank1', Yp))
            out.append(('double_constant', tn.add(tn.const(ns, 2.), tn.const(ns, 2.))))
    return out


# ====================================================================================================================
# correspondence stream (a): vis.show
# ====================================================================================================================
H_SHOW = r'''From Coq Require Import List ZArith.
From TV Require Import Num.Ops TT.Chain Model.Wf.
Import ListNotations.
Definition sh (l : list (nat * nat * nat)) : list (list Z) :=
  match show (map (fun t => mk_core (T:=Z) (fst (fst t)) (snd (fst t)) (snd t) []) l) with
  | Ok (n, r) => [[0%Z]; map Z.of_nat n; map Z.of_nat r]
  | Err e => [[err_code e]]
  end.
'''


def impl_show(tn, shapes):
    Y = [np.zeros(s) for s in shapes]
    buf = io.StringIO()
    try:
        with contextlib.redirect_stdout(buf):
            tn.show(Y)
    except Exception as e:  # noqa
        return [[C.errclass(e)]]
    t1, t2 = buf.getvalue().split('\n')[:2]
    n = [int(x) for x in re.findall(r'\|(\d+)\|', t1)]
    r = [int(x) for x in re.findall(r'\\(\d+)/', t2)]
    return [[0], n, [1] + r + [1]]


def stream_show(R, ctx, tn):
    rng = ctx['rng']
    items = []
    dist = dict(valid=0, bad_first=0, bad_last=0, bad_link=0, empty=1)
    items.append(dict(coq='sh []', impl=impl_show(tn, []), input=['show', []]))
    for _ in range(300 if ctx['thorough'] else 90):
        d = rng.randint(1, 6)
        rs = [1] + [rng.randint(1, 4) for _ in range(d - 1)] + [1]
        ns = [rng.randint(1, 4) for _ in range(d)]
        shapes = [[rs[k], ns[k], rs[k + 1]] for k in range(d)]
        kind = rng.choice(['valid', 'valid', 'bad_first', 'bad_last', 'bad_link'])
        if kind == 'bad_first':
            shapes[0][0] = rng.randint(2, 3)
        elif kind == 'bad_last':
            shapes[-1][2] = rng.randint(2, 3)
        elif kind == 'bad_link':
            if d == 1:
                kind = 'valid'
            else:
                k = rng.randrange(d - 1)
                shapes[k][2] = shapes[k + 1][0] + rng.choice([1, 2])
        dist[kind] += 1
        coq = 'sh [' + '; '.join(f'({a}, {b}, {c})%nat' for a, b, c in shapes) + ']'
        items.append(dict(coq=coq, impl=impl_show(tn, shapes), input=['show', shapes]))
    return C.exact_corr(R, 'vis.show (exact)', H_SHOW, items, chunk=50, distribution=dist)


# ====================================================================================================================
# correspondence stream (b): matrix_svd / matrix_skeleton over the guarded carrier OG OQc (exact, with poison flags)
# ====================================================================================================================
H_G = r'''From Coq Require Import List ZArith QArith Qcanon.
From TV Require Import Num.Ops Lin.Tab Lin.Mat TT.Chain Model.Transformation Model.Svd Model.Wf.
From TV Require Model.ActOneR.
Import ListNotations.
Close Scope Qc_scope. Close Scope Q_scope.
Definition gq : Type := (Qc * bool)%type.
Definition shq (x : gq) : list Z := [Qnum (this (fst x)); Zpos (Qden (this (fst x))); if snd x then 1 else 0]%Z.
Definition shm (A : mat gq) : list (list (list Z)) := [[Z.of_nat (mr A); Z.of_nat (mc A)]] :: map (map shq) (md A).
Definition msvdG (w0 : list Qc) (U0 : mat Qc) (perm : list nat) (A : mat Qc) (e : Qc) (rcap : Z) :=
  let UV := matrix_svd (OG OQc) (lift_eigh (fun _ _ => (w0, U0))) (lift_argsort (fun _ _ => perm)) O
                       (mat_map embed A) (embed e) rcap in [shm (fst UV); shm (snd UV)].
Definition aodG (Y : list (core Qc)) (I : list (list nat)) (y : list Qc) :=
  [[[shq (ActOneR.accuracy_on_data (OG OQc) (map (core_map embed) Y) I (map embed y))]]].
Definition mskG (U : mat Qc) (s : list Qc) (V : mat Qc) (A : mat Qc) (e : Qc) (rcap : Z) (rel : bool) (g : give) :=
  let UV := matrix_skeleton (OG OQc) (lift_svd (fun _ _ => (U, s, V))) O (mat_map embed A) (embed e) rcap rel g in
  [shm (fst UV); shm (snd UV)].
'''


def q_mat(A):
    A = np.asarray(A, dtype=float)
    if A.ndim == 1:
        A = A.reshape(1, -1)
    return f'(mk_mat {A.shape[0]} {A.shape[1]} {C.nested([[Fraction(x) for x in row] for row in A.tolist()], C.qlit)})'


def q_list(v):
    return '[' + '; '.join(C.qlit(Fraction(float(x))) for x in v) + ']'


def impl_mat(A):
    A = np.asarray(A, dtype=float)
    rows = []
    for row in A.tolist():
        rr = []
        for x in row:
            if not math.isfinite(x):
                rr.append([0, 0, 1])
            else:
                f = Fraction(x)
                rr.append([f.numerator, f.denominator, 0])
        rows.append(rr)
    return [[[A.shape[0], A.shape[1]]]] + rows


def norm_g(v):
    """model value: poisoned entries are compared as such, whatever their carried value"""
    return [[[(e if (len(e) != 3 or e[2] == 0) else [0, 0, 1]) for e in row] for row in M] for M in v]


def exact_square(x):
    if x <= 0:
        return True
    s = math.sqrt(x)
    return Fraction(s) ** 2 == Fraction(x)


def gen_sparse(rng, m, n, vals):
    """generalised permutation matrix (at most one non-zero per row and column), possibly rank deficient or zero"""
    A = np.zeros((m, n))
    fam = rng.choice(['zero', 'zero', 'deficient', 'full', 'single'])
    k = {'zero': 0, 'deficient': max(0, min(m, n) - 1), 'full': min(m, n), 'single': 1}[fam]
    rows = rng.sample(range(m), k)
    cols = rng.sample(range(n), k)
    for i, j in zip(rows, cols):
        A[i, j] = rng.choice(vals) * rng.choice([1, -1])
    return fam if k > 0 or fam == 'zero' else 'zero', A


def stream_guarded(R, ctx, tn):
    rng = ctx['rng']
    items = []
    dist = dict(matrix_svd={}, matrix_skeleton={}, skipped_inexact_oracle=0)
    ncase = 240 if ctx['thorough'] else 70
    pw2 = [0.25, 0.5, 1., 2., 4.]
    pw4 = [0.25, 1., 4., 16.]
    for t in range(ncase):
        m, n = rng.randint(1, 4), rng.randint(1, 4)
        fam, A = gen_sparse(rng, m, n, pw2)
        e = Fraction(1, 2 ** rng.choice([1, 4, 10, 30]))
        r = rng.choice([1, 2, 10 ** 12])
        with F.lapack_recorder() as rec:
            try:
                U, V = tn.matrix_svd(A.copy(), float(e), r)
                err = None
            except Exception as ex:  # noqa
                err = ex
        if err is not None:
            items.append(dict(coq='[]', impl=['raised', repr(err)[:200]], input=['matrix_svd', A.tolist(), float(e), r]))
            continue
        (_, _, (w0, U0)) = rec.calls['eigh'][0]
        perm = [c for c in rec.calls['argsort'] if True][0][2]
        if not all(exact_square(float(x)) for x in w0):
            dist['skipped_inexact_oracle'] += 1
            continue
        coq = f'msvdG {q_list(w0)} {q_mat(U0)} {C.natlist(perm.tolist())} {q_mat(A)} {C.qlit(e)} {C.zlit(int(r))}'
        items.append(dict(coq=coq, impl=[impl_mat(U), impl_mat(V)], input=['matrix_svd', A.tolist(), float(e), r]))
        key = f'{fam} {"wide" if m <= n else "tall"}'
        dist['matrix_svd'][key] = dist['matrix_svd'].get(key, 0) + 1
    for t in range(ncase):
        m, n = rng.randint(1, 4), rng.randint(1, 4)
        give = rng.choice(['l', 'r', 'm'])
        fam, A = gen_sparse(rng, m, n, pw4 if give == 'm' else pw2)
        rel = rng.random() < 0.6
        e = Fraction(1, 2 ** rng.choice([1, 4, 10, 30]))
        r = rng.choice([1, 2, 10 ** 12])
        with F.lapack_recorder() as rec:
            try:
                U, V = tn.matrix_skeleton(A.copy(), float(e), r, rel=rel, give_to=give)
                err = None
            except Exception as ex:  # noqa
                err = ex
        if err is not None:
            items.append(dict(coq='[]', impl=['raised', repr(err)[:200]],
                              input=['matrix_skeleton', A.tolist(), float(e), r, rel, give]))
            continue
        (_, _, (Us, ss, Vs)) = rec.calls['svd'][0]
        ok = all(x in (0., 1., -1.) for x in np.concatenate([Us.ravel(), Vs.ravel()])) and \
            all(float(x) == 0 or (math.log2(float(x)) == int(math.log2(float(x)))) for x in ss) and \
            (give != 'm' or all(exact_square(float(x)) for x in ss))
        if not ok:
            dist['skipped_inexact_oracle'] += 1
            continue
        g = {'l': 'GiveL', 'r': 'GiveR', 'm': 'GiveM'}[give]
        coq = (f'mskG {q_mat(Us)} {q_list(ss)} {q_mat(Vs)} {q_mat(A)} {C.qlit(e)} {C.zlit(int(r))} '
               f'{"true" if rel else "false"} {g}')
        items.append(dict(coq=coq, impl=[impl_mat(U), impl_mat(V)],
                          input=['matrix_skeleton', A.tolist(), float(e), r, rel, give]))
        key = f'{fam} rel={rel} give={give}'
        dist['matrix_skeleton'][key] = dist['matrix_skeleton'].get(key, 0) + 1
    # accuracy_on_data: all-zero reference (zero and non-zero tensor), and references whose norms are exact
    dist['accuracy_on_data'] = dict(zero_ref_zero_tensor=0, zero_ref_nonzero_tensor=0, nonzero_ref=0, skipped_inexact=0)
    for t in range(ncase // 2):
        d = rng.randint(2, 3)
        ns = [rng.randint(1, 3) for _ in range(d)]
        c = rng.choice([0, 0, 1, -1, 2, 3])
        Y = [np.full((1, n, 1), 1.) for n in ns]
        Y[0] = Y[0] * c
        m = rng.choice([1, 2, 4])
        I = [[rng.randrange(n) for n in ns] for _ in range(m)]
        kind = rng.choice(['zero', 'zero', 'one', 'const'])
        y = [0.] * m
        if kind == 'one':
            y[rng.randrange(m)] = float(rng.choice([1, -2, 4]))
        elif kind == 'const':
            y = [float(rng.choice([1, 2, -1]))] * m
        sy, sr = sum(v * v for v in y), sum((c - v) ** 2 for v in y)
        if sy > 0:
            q = Fraction(int(round(math.sqrt(sr))), int(round(math.sqrt(sy)))) if exact_square(sr) and exact_square(sy) else None
            if q is None or (q.denominator & (q.denominator - 1)):
                dist['accuracy_on_data']['skipped_inexact'] += 1
                continue
            dist['accuracy_on_data']['nonzero_ref'] += 1
        else:
            dist['accuracy_on_data']['zero_ref_zero_tensor' if c == 0 else 'zero_ref_nonzero_tensor'] += 1
        try:
            v = float(tn.accuracy_on_data([G.copy() for G in Y], np.array(I), np.array(y)))
            impl = [[[[0, 0, 1] if not math.isfinite(v) else [Fraction(v).numerator, Fraction(v).denominator, 0]]]]
        except Exception as ex:  # noqa
            impl = ['raised', repr(ex)[:200]]
        cores = '[' + '; '.join(f'(mk_core 1 {G.shape[1]} 1 {C.nested([[[Fraction(x) for x in r] for r in a] for a in G.tolist()], C.qlit)})' for G in Y) + ']'
        coq = f'aodG {cores} {C.nested(I, str)} {q_list(y)}'
        items.append(dict(coq=coq, impl=impl, input=dict(routine='accuracy_on_data', Y=tt_json(Y), I=I, y=y)))
    return C.exact_corr(R, 'matrix_svd / matrix_skeleton / accuracy_on_data at the guarded carrier OG Qc (exact values + poison flags)',
                        H_G, items, chunk=12, norm=norm_g, distribution=dist)


# ====================================================================================================================
# correspondence stream (c): truncate / orthogonalize / svd at binary64 with replayed LAPACK outputs, degenerate catalogue
# ====================================================================================================================
H_F = r"""From Coq Require Import List ZArith Floats.
From TV Require Import Num.Ops Num.InstF Lin.Tab Lin.Mat TT.Chain Model.Transformation Model.Svd Model.Wf.
Import ListNotations.
Definition dm : mat float := mk_mat 0 0 [].
Definition shc (G : core float) : list (Z * Z) :=
  (Z.of_nat (cr1 G), 0%Z) :: (Z.of_nat (cn G), 0%Z) :: (Z.of_nat (cr2 G), 0%Z) :: map F_show (concat (concat (dat G))).
Definition shtt (Y : list (core float)) : list (list (Z * Z)) := map shc Y.
Definition shr (r : result (list (core float))) : list (list (Z * Z)) :=
  match r with Ok Y => [(0, 0)%Z] :: shtt Y | Err e => [[(err_code e, 0%Z)]] end.
Definition shrp (r : result (list (core float) * Z)) : list (list (Z * Z)) :=
  match r with Ok (Y, p) => [(0%Z, p)] :: shtt Y | Err e => [[(err_code e, 0%Z)]] end.
Definition tab2 (t : list (mat float * mat float)) (k : nat) (_ : mat float) := nth k t (dm, dm).
Definition tab3 (t : list (mat float * list float * mat float)) (k : nat) (_ : mat float) := nth k t (dm, [], dm).
Definition tabe (t : list (list float * mat float)) (k : nat) (_ : mat float) := nth k t ([], dm).
Definition tabs (t : list (list nat)) (k : nat) (_ : list float) := nth k t [].
(* int(np.floor(np.log2(v))) for a positive finite double: exponent of frexp minus one (the harness checks that the
   recorded numpy values agree) *)
Definition ilogF (_ : nat) (v : float) : Z := (snd (Z.frexp v) - 1)%Z.
Definition p2f (t : list (Z * float)) (p : Z) (_ : nat) : float :=
  match find (fun q => Z.eqb (fst q) p) t with Some q => snd q | None => 1%float end.
Definition truncF svds eighs sorts qrs p2s Y e r orth us ie :=
  shr (truncate OF (tab3 svds) (tabe eighs) (tabs sorts) (tab2 qrs) (tab2 []) ilogF (p2f p2s) Y e r orth us ie).
Definition orthF qrs rqs Y k us := shrp (orthogonalize OF (tab2 qrs) (tab2 rqs) ilogF Y k us).
Definition svdF svds ns data e r := [(0, 0)%Z] :: shtt (svd OF (tab3 svds) ns data e r).
Definition svdmF svds q A e r := [(0, 0)%Z] :: shtt (svd_matrix OF (tab3 svds) q A e r).
Open Scope float_scope.
"""


def _pair(a, b):
    return f'({F.coq_mat(a)}, {F.coq_mat(b)})'


def _lst(xs):
    return '[' + '; '.join(xs) + ']'


def _decode_tt(v):
    Y = []
    for c in v:
        r1, n, r2 = c[0][0], c[1][0], c[2][0]
        vals = [C.float_of_show(p) for p in c[3:]]
        if len(vals) != r1 * n * r2:
            return None
        Y.append(np.array(vals, dtype=float).reshape(r1, n, r2))
    return Y


def _contracts_ok(rec):
    """shape halves of the LAPACK contracts on every recorded call"""
    for (a, k, (Q, Rm)) in rec.calls.get('qr', []):
        if not (Rm.shape[0] == Q.shape[1] >= 1):
            return f'qr: Q {Q.shape} R {Rm.shape}'
    for (a, k, (Rm, Q)) in rec.calls.get('rq', []):
        if not (Rm.shape[1] == Q.shape[0] >= 1):
            return f'rq: R {Rm.shape} Q {Q.shape}'
    for (a, k, (U, s, V)) in rec.calls.get('svd', []):
        if not len(s) >= 1:
            return f'svd: {len(s)} singular values'
    return None


def _stab_ok(stabs):
    """recorded core_stab calls: numpy's floor(log2(v)) equals the frexp exponent - 1 used by the model"""
    for (G, p0, Q, p1) in stabs:
        v = float(np.max(np.abs(G)))
        if v > 0 and (p1 - p0) != math.frexp(v)[1] - 1:
            return False
    return True


def _compare_tt(model_v, impl, tol=1e-9, noise=False):
    """shapes exactly, both finite, dense tensors (times 2^p for a stabilised result) within tol.
    noise=True (family `cancel`: an exactly-zero tensor held in non-zero cores, every orthogonalised core is pure
    rounding noise, which differs between BLAS and the model's summation order): ranks are not compared."""
    if impl[0] != 0:
        return None if (len(model_v) == 1 and model_v[0][0][0] == impl[0]) else f'impl raised code {impl[0]}, model {model_v[0]}'
    if model_v[0][0][0] != 0:
        return f'model returned error code {model_v[0][0][0]}, implementation returned a tensor'
    pm, pi = model_v[0][0][1], impl.get('p', 0)
    Ym = _decode_tt(model_v[1:])
    Yi = impl['Y']
    if Ym is None:
        return 'model cores have inconsistent storage'
    sm, si = [G.shape for G in Ym], [G.shape for G in Yi]
    if sm != si and not noise:
        return f'shapes: model {sm}, implementation {si}'
    if [x[1] for x in sm] != [x[1] for x in si]:
        return f'mode sizes: model {sm}, implementation {si}'
    if not finite_tt(Ym):
        return 'model result not finite'
    if not finite_tt(Yi):
        return 'implementation result not finite'
    if wf_shape(Ym) or wf_shape(Yi):
        return f'ill-formed: model {wf_shape(Ym)}, implementation {wf_shape(Yi)}'
    if abs(pm) > 2000 or abs(pi) > 2000:
        return f'exponent p out of range: model {pm}, implementation {pi}'
    Fm, Fi = full(Ym) * 2. ** pm, full(Yi) * 2. ** pi
    scale = max(1., float(np.max(np.abs(Fi))))
    err = float(np.max(np.abs(Fm - Fi)))
    if err > tol * scale:
        return f'dense tensors differ by {err:.3e} (scale {scale:.3e})'
    return None


def stream_float(R, ctx, tn):
    rng = ctx['rng']
    cat = catalogue(tn, rng)
    if not ctx['thorough']:
        cat = [c for c in cat if np.prod([G.shape[1] for G in c[1]]) <= 24]
    items, metas = [], []
    dist = dict(truncate={}, orthogonalize={}, svd={}, families={}, skipped_log2_edge=0, contract_checks=0)
    orig_stab = tn.core_stab
    for fam, Y in cat:
        d = len(Y)
        ns = [G.shape[1] for G in Y]
        dist['families'][fam] = dist['families'].get(fam, 0) + 1
        todo = []
        orth = rng.random() < 0.75
        us = orth and rng.random() < 0.5
        todo.append(('truncate', dict(e=rng.choice([1e-10, 1e-3]), r=rng.choice([1e12, 1e12, 1, 2]), orth=orth,
                                      use_stab=us, is_eigh=rng.random() < 0.6)))
        todo.append(('truncate', dict(e=1e-10, r=1e12, orth=True, use_stab=rng.random() < 0.5, is_eigh=True)))
        todo.append(('orthogonalize', dict(k=rng.choice([None] + list(range(d))), use_stab=rng.random() < 0.5)))
        if np.prod(ns) <= 36:
            todo.append(('svd', dict(e=rng.choice([1e-10, 1e-3]), r=rng.choice([1e12, 1, 2]))))
        for name, kw in todo:
            stabs = []

            def stab(G, p0=0, thr=None, _o=orig_stab):
                out = _o(G, p0) if thr is None else _o(G, p0, thr)
                stabs.append((np.array(G, copy=True), p0, np.array(out[0], copy=True), out[1]))
                return out
            tn.core_stab = stab
            inp = dict(routine=name, kwargs=kw, Y=tt_json(Y), family=fam)
            try:
                with F.lapack_recorder() as rec:
                    try:
                        if name == 'truncate':
                            Z = tn.truncate([G.copy() for G in Y], **kw)
                            impl = dict(Y=Z)
                        elif name == 'orthogonalize':
                            out = tn.orthogonalize([G.copy() for G in Y], kw['k'], kw['use_stab'])
                            impl = dict(Y=out[0], p=int(out[1])) if kw['use_stab'] else dict(Y=out, p=0)
                        else:
                            Z = tn.svd(full(Y), kw['e'], kw['r'])
                            impl = dict(Y=Z)
                        impl[0] = 0
                    except Exception as ex:  # noqa
                        impl = {0: C.errclass(ex), 'error': repr(ex)[:200]}
            finally:
                tn.core_stab = orig_stab
            cerr = _contracts_ok(rec)
            dist['contract_checks'] += sum(len(v) for v in rec.calls.values())
            if cerr:
                items.append(dict(coq='[]', meta=dict(input=inp, impl=impl, forced='LAPACK shape contract violated: ' + cerr)))
                continue
            if not _stab_ok(stabs):
                dist['skipped_log2_edge'] += 1
                continue
            qrs = _lst(_pair(Q, Rm) for (_, _, (Q, Rm)) in rec.calls['qr'])
            if name == 'truncate':
                nsw = d - 1
                eighs = ['([], dm)'] * d
                sorts = ['[]'] * d
                svds = ['(dm, [], dm)'] * d
                for j, (_, _, (w, U)) in enumerate(rec.calls['eigh']):
                    eighs[d - 1 - j] = f'({F.coq_list(w)}, {F.coq_mat(U)})'
                for j, (_, _, perm) in enumerate(rec.calls['argsort']):
                    sorts[d - 1 - j] = C.natlist(np.asarray(perm).tolist())
                for j, (_, _, (U, s_, V)) in enumerate(rec.calls['svd']):
                    svds[d - 1 - j] = f'({F.coq_mat(U)}, {F.coq_list(s_)}, {F.coq_mat(V)})'
                pfin = stabs[-1][3] if stabs else 0
                p2s = f'[({C.zlit(pfin)}%Z, {C.flit(2 ** (pfin / d))})]'
                coq = (f'truncF {_lst(svds)} {_lst(eighs)} {_lst(sorts)} {qrs} {p2s} {F.coq_tt(Y)} {C.flit(kw["e"])} '
                       f'{C.zlit(int(kw["r"]))}%Z {str(kw["orth"]).lower()} {str(kw["use_stab"]).lower()} '
                       f'{str(kw["is_eigh"]).lower()}')
                key = f'orth={kw["orth"]} stab={kw["use_stab"]} eigh={kw["is_eigh"]}'
                dist['truncate'][key] = dist['truncate'].get(key, 0) + 1
                del nsw
            elif name == 'orthogonalize':
                rqs = ['(dm, dm)'] * d
                for j, (_, _, (Rm, Q)) in enumerate(rec.calls['rq']):
                    rqs[d - 1 - j] = _pair(Rm, Q)
                kk = 'None' if kw['k'] is None else f'(Some {kw["k"]}%Z)'
                coq = f'orthF {qrs} {_lst(rqs)} {F.coq_tt(Y)} {kk} {str(kw["use_stab"]).lower()}'
                key = f'k={"None" if kw["k"] is None else ("0" if kw["k"] == 0 else ("d-1" if kw["k"] == d - 1 else "mid"))} stab={kw["use_stab"]}'
                dist['orthogonalize'][key] = dist['orthogonalize'].get(key, 0) + 1
            else:
                svds = _lst(f'({F.coq_mat(U)}, {F.coq_list(s_)}, {F.coq_mat(V)})' for (_, _, (U, s_, V)) in rec.calls['svd'])
                coq = (f'svdF {svds} {C.natlist(ns)} {F.coq_list(full(Y).reshape(-1))} {C.flit(kw["e"])} '
                       f'{C.zlit(int(kw["r"]))}%Z')
                key = f'd={d}'
                dist['svd'][key] = dist['svd'].get(key, 0) + 1
            items.append(dict(coq=coq, meta=dict(input=inp, impl=impl)))
    # svd_matrix on degenerate 2^q x 2^q matrices
    for q in (1, 2, 3) if ctx['thorough'] else (1, 2):
        N = 2 ** q
        mats = [('zero', np.zeros((N, N))), ('identity', np.eye(N)), ('constant', np.full((N, N), 2.)),
                ('rank1', np.outer(np.arange(1., N + 1), np.array([float(rng.randint(1, 3)) for _ in range(N)]))),
                ('generic', np.array([[float(rng.randint(-2, 2)) for _ in range(N)] for _ in range(N)]))]
        for famm, A in mats:
            kw = dict(e=rng.choice([1e-10, 1e-3]), r=rng.choice([1e12, 1, 2]))
            inp = dict(routine='svd_matrix', kwargs=kw, Y=[A.tolist()], family=famm, arg=dict(A=A.tolist(), kw=kw))
            with F.lapack_recorder() as rec:
                try:
                    impl = dict(Y=tn.svd_matrix(A.copy(), kw['e'], kw['r']))
                    impl[0] = 0
                except Exception as ex:  # noqa
                    impl = {0: C.errclass(ex), 'error': repr(ex)[:200]}
            svds = _lst(f'({F.coq_mat(U)}, {F.coq_list(s_)}, {F.coq_mat(V)})' for (_, _, (U, s_, V)) in rec.calls['svd'])
            coq = f'svdmF {svds} {q}%nat {F.coq_mat(A)} {C.flit(kw["e"])} {C.zlit(int(kw["r"]))}%Z'
            dist['svd'][f'svd_matrix q={q}'] = dist['svd'].get(f'svd_matrix q={q}', 0) + 1
            items.append(dict(coq=coq, meta=dict(input=inp, impl=impl)))
    real = [it for it in items if it['coq'] != '[]']
    vals = C.run_cases('C11_float', H_F, [it['coq'] for it in real], chunk=16)
    bad = []
    for it in items:
        if it['coq'] == '[]':
            bad.append(dict(stream='binary64', input=it['meta']['input'], why=it['meta']['forced']))
    for it, v in zip(real, vals):
        m = it['meta']
        R.add_distinct(('float', m['input']['routine'], str(m['input']['kwargs']), str(m['input']['Y'])))
        why = _compare_tt(v, m['impl'], noise=(m['input']['family'] == 'cancel'))
        if why:
            bad.append(dict(stream='binary64', input=m['input'], why=why))
    R.corr.append(dict(name='truncate / orthogonalize / svd / svd_matrix at binary64 with replayed LAPACK outputs on the degenerate catalogue',
                       cases=len(items), mismatches=len(bad),
                       comparison='status and shapes exact (ranks not compared for the pure-noise family `cancel`), both results finite '
                                  'and well-formed, dense tensors (times 2^p when stabilised) within 1e-9 * max(1, max|Y|); '
                                  'LAPACK shape contracts checked on every recorded call',
                       distribution=dist, first_mismatches=[dict(input=dict(b['input'], Y='<omitted>'), why=b['why'])
                                                            for b in bad[:3]]))
    if real:
        m = real[0]['meta']
        R.samples.append(dict(stream='binary64', input=dict(m['input'], Y='<%d cores>' % len(m['input']['Y'])),
                              impl_shapes=[list(G.shape) for G in m['impl'].get('Y', [])]))
    return bad


def correspondence(R, ctx):
    tn = C.import_teneva()
    bad = []
    bad += stream_show(R, ctx, tn)
    bad += stream_guarded(R, ctx, tn)
    bad += stream_float(R, ctx, tn)
    return bad


# ====================================================================================================================
# search: np.isfinite + well-formedness of every TT-returning routine on the degenerate catalogue (implementation only)
# ====================================================================================================================
def _tt_routines(tn):
    """name -> (callable(Y, **kw) -> TT, list of kwargs variants, needs)"""
    Rts = {}
    Rts['truncate'] = (lambda Y, **k: tn.truncate(Y, **k),
                       [dict(e=e, r=r, orth=o, use_stab=s, is_eigh=g)
                        for e in (1e-10, 1e-2) for r in (1e12, 1, 2) for o in (True, False) for s in (True, False)
                        for g in (True, False) if not (s and not o)] +
                       [dict(), dict(e=0.), dict(e=0., is_eigh=False), dict(e=0., orth=False), dict(e=0., use_stab=True),
                        dict(e=0., r=2), dict(r=1), dict(is_eigh=False)])
    Rts['orthogonalize'] = (lambda Y, **k: _orth(tn, Y, **k),
                            [dict(k=k, use_stab=s) for k in (0, 1, -1, None) for s in (False, True)])
    Rts['orthogonalize_left'] = (lambda Y, **k: tn.orthogonalize_left(Y, 0), [dict()])
    Rts['orthogonalize_right'] = (lambda Y, **k: tn.orthogonalize_right(Y, len(Y) - 1), [dict()])
    Rts['svd'] = (lambda Y, **k: tn.svd(full(Y), **k), [dict(), dict(e=1e-10), dict(e=1e-2, r=1), dict(e=0.), dict(e=0., r=2)])
    Rts['add_many'] = (lambda Y, **k: tn.add_many([Y] * k.pop('times'), **k),
                       [dict(times=3), dict(times=17, e=1e-8, r=3), dict(times=16, trunc_freq=2), dict(times=2, e=0.),
                        dict(times=16, e=0., trunc_freq=3)])
    Rts['add'] = (lambda Y, **k: tn.add(Y, Y), [dict()])
    Rts['sub'] = (lambda Y, **k: tn.sub(Y, Y), [dict()])
    Rts['mul'] = (lambda Y, **k: tn.mul(Y, Y), [dict()])
    Rts['mul0'] = (lambda Y, **k: tn.mul(Y, 0.), [dict()])
    return Rts


def _orth(tn, Y, k=None, use_stab=False):
    d = len(Y)
    if k == -1:
        k = d - 1
    if k is not None and k > d - 1:
        k = d - 1
    out = tn.orthogonalize(Y, k, use_stab)
    if use_stab:
        Z, p = out
        if not np.isfinite(p):
            raise FloatingPointError('non-finite exponent')
        return Z
    return out


def _scalars(tn, Y):
    out = dict(norm=tn.norm(Y), sum=tn.sum(Y), mean=tn.mean(Y), mul_scalar=tn.mul_scalar(Y, Y))
    if len(Y) >= 2:
        out['erank'] = tn.erank(Y)
    z, p = tn.norm(Y, use_stab=True)
    out['norm_stab_z'], out['norm_stab_p'] = z, p
    return out


def check_tt_call(tn, name, Y, kw):
    """one evaluation of a TT-returning routine; returns a failure dict or None"""
    fn = _tt_routines(tn)[name][0]
    ns = [G.shape[1] for G in Y]
    inp = dict(routine=name, kwargs=kw, Y=tt_json(Y))
    try:
        Z = fn([G.copy() for G in Y], **dict(kw))
    except Exception as e:  # noqa
        return dict(what=f'{name} raised on a valid degenerate input: {e!r}'[:300], input=inp)
    w = wf_shape(Z, ns)
    if w:
        return dict(what=f'{name} returned an ill-formed tensor: {w}', input=inp)
    if not finite_tt(Z):
        return dict(what=f'{name} returned non-finite entries (NaN/inf) on a finite valid input', input=inp,
                    got=[G.shape for G in Z])
    return None


def check_scalars(tn, Y):
    inp = dict(routine='scalars', Y=tt_json(Y))
    try:
        s = _scalars(tn, Y)
    except Exception as e:  # noqa
        return dict(what=f'scalar function raised on a valid degenerate input: {e!r}'[:300], input=inp)
    bad = {k: repr(v) for k, v in s.items() if not np.isfinite(v)}
    if bad:
        return dict(what=f'scalar function not finite: {bad}', input=inp)
    return None


def check_accuracy(tn, Y1, Y2):
    """relative accuracy: finite, or the documented sentinel -1 when it is undefined (zero reference)"""
    inp = dict(routine='accuracy', Y=tt_json(Y1), Y2=tt_json(Y2))
    try:
        a = tn.accuracy(Y1, Y2)
    except Exception as e:  # noqa
        return dict(what=f'accuracy raised: {e!r}'[:300], input=inp)
    zero_ref = not np.any(full(Y2))
    if not np.isfinite(a):
        return dict(what=f'accuracy returned {a!r} instead of a finite number / the sentinel -1', input=inp)
    if zero_ref and a != -1:
        return dict(what=f'accuracy against an exactly-zero reference returned {a!r}, expected the sentinel -1', input=inp)
    return None


KF_AOD = 'C11/accuracy_on_data-reference-overflow'
KF_ALS = 'C11/als-adaptive-use_stab-raises'


def _design(rr, name, d):
    """rank-deficient sample designs for the functional fitting routines (points in [-1, 1]^d)"""
    P = np.array([[rr.choice([-1., -0.5, 0., 0.5, 1.]) for _ in range(d)] for _ in range(3)])
    if name == 'three_points':          # fewer distinct points than basis functions (n = 4)
        return P
    if name == 'repeated':
        return np.vstack([P[:2]] * 4)
    if name == 'one_point':
        return np.array([[0.5] * d] * 3)
    Q = np.array([[rr.uniform(-1., 1.) for _ in range(d)] for _ in range(9 if name == 'const_coord' else 12)])
    if name == 'const_coord':           # one coordinate never varies
        Q[:, rr.randrange(d)] = 0.25
    return Q


def check_regfit(tn, what, arg):
    """fitting routine with its regularisation / cut-off parameter at the boundary on a rank-deficient design:
    a well-formed finite tensor, no exception"""
    inp = dict(routine='regfit', what=what, arg=arg)
    rr = C.Rng(arg['seed'])
    d, n = arg['d'], arg['n']
    kw = dict(arg.get('kw', {}))
    try:
        if what in ('anova_func', 'als_func'):
            X = _design(rr, arg['design'], d)
            y = {'zero': np.zeros(len(X)), 'constant': np.full(len(X), 2.)}.get(arg['kind'])
            if y is None:
                y = 1. + X.sum(axis=1)
            if what == 'anova_func':
                Z = tn.anova_func(X, y, n, **kw)
            else:
                Z = tn.als_func(X, y, tn.rand([n] * d, 2, seed=1), nswp=2, info={}, **kw)
            ns = [n] * d
        elif what == 'func_int_general':
            pts = {'two_points': np.array([-1., 1.]), 'repeated': np.array([0.5, 0.5, 0.5]),
                   'three_points': np.array([-1., 0., 1.])}[arg['design']]
            Y = tn.const([len(pts)] * d, 0.) if arg['kind'] == 'zero' else tn.rand([len(pts)] * d, 2, seed=arg['seed'] % 1000)
            Z = tn.func_int_general(Y, [pts] * d, lambda x: tn.func_basis(x, n), **kw)
            ns = [n] * d
        else:
            raise KeyError(what)
    except Exception as e:  # noqa
        return dict(what=f'{what} raised on a rank-deficient design with its regularisation at the boundary: {e!r}'[:300], input=inp)
    w = wf_shape(Z, ns)
    if w:
        return dict(what=f'{what} returned an ill-formed tensor: {w}', input=inp)
    if not finite_tt(Z):
        return dict(what=f'{what} returned non-finite entries on a rank-deficient design', input=inp)
    return None


def check_als_adaptive_stab(tn, ns, kind, seed, r):
    """rank-adaptive als (r given) with use_stab=True: expected a well-formed finite tensor.  The AttributeError raised
    because orthogonalize(Y, 0, use_stab) returns the pair (Z, p) is the known finding KF_ALS; any other exception or a
    malformed / non-finite result is a violation."""
    inp = dict(routine='als_adaptive_stab', ns=ns, kind=kind, seed=seed, r=r)
    I, y = _data_for(C.Rng(seed), ns, kind)
    try:
        Z = tn.als(I, y, tn.rand(ns, 1, seed=3), nswp=2, r=r, use_stab=True, info={})
    except AttributeError as e:
        if "'list' object has no attribute 'shape'" in str(e):
            return dict(what=f'als(r={r}, use_stab=True) raised {e!r}: the stabilised orthogonalize returns (Z, p) and the pair '
                             f'is used as the tensor', input=inp, finding_key=KF_ALS)
        return dict(what=f'als(r={r}, use_stab=True) raised {e!r}'[:300], input=inp)
    except Exception as e:  # noqa
        return dict(what=f'als(r={r}, use_stab=True) raised {e!r}'[:300], input=inp)
    w = wf_shape(Z, ns)
    if w:
        return dict(what=f'als(r={r}, use_stab=True) returned an ill-formed tensor: {w}', input=inp)
    if not finite_tt(Z):
        return dict(what=f'als(r={r}, use_stab=True) returned non-finite entries', input=inp)
    return None


def check_aod(tn, Y, I, y):
    """accuracy_on_data: finite, and exactly the sentinel -1 when every reference value is zero"""
    inp = dict(routine='accuracy_on_data', Y=tt_json(Y), I=[list(map(int, r)) for r in I], y=[float(v) for v in y])
    try:
        a = tn.accuracy_on_data([G.copy() for G in Y], np.array(I, dtype=int), np.array(y, dtype=float))
    except Exception as e:  # noqa
        return dict(what=f'accuracy_on_data raised: {e!r}'[:300], input=inp)
    if np.isnan(a) and float(np.max(np.abs(np.array(y, dtype=float)))) > 1e154:
        # known family: the squared reference overflows (inf / inf); everything else stays a violation
        return dict(what=f'accuracy_on_data returned {a!r}: max|y_data| above 1e154, the squared reference overflows',
                    input=inp, finding_key=KF_AOD)
    if not np.isfinite(a):
        return dict(what=f'accuracy_on_data returned {a!r} instead of a finite number / the sentinel -1', input=inp)
    if not np.any(np.array(y)) and a != -1:
        return dict(what=f'accuracy_on_data with an all-zero reference returned {a!r}, expected the sentinel -1', input=inp)
    return None


# ---- scale families (search only): subnormal entries, products that underflow / approach overflow, one tiny core ----
LD = np.longdouble      # x86 extended precision: exponent range +-4932, enough for a dense reference of every family


def full_ld(Y):
    Z = np.asarray(Y[0], dtype=LD)
    for G in Y[1:]:
        Z = np.tensordot(Z, np.asarray(G, dtype=LD), 1)
    return Z.reshape([G.shape[1] for G in Y])


def scale_catalogue(rng, big=False):
    """(family, Y, tol): tol = relative tolerance of the dense reference check (subnormal operands lose bits, so the
    families with subnormal entries or subnormal intermediate products only get a coarse sanity bound)"""
    out = []
    shapes = [[3, 4], [2, 3, 2], [2, 2, 2, 2]] + ([[3, 3, 3, 3, 3], [2, 1, 3]] if big else [])
    for ns in shapes:
        d = len(ns)
        Y = rand_tt(rng, ns, [1] + [rng.randint(1, 3) for _ in range(d - 1)] + [1], 1, 3)
        for sc, tol in ((1e-320, 1e-2), (1e-310, 1e-2), (1e-300, 1e-9), (1e-290, 1e-9)):
            for pos in sorted({0, d - 1, rng.randrange(d)}):
                Z = [G.copy() for G in Y]
                Z[pos] = Z[pos] * sc
                out.append((f'scale_{sc:g}_core{pos}', Z, tol))
        out.append(('per_core_1e-160', [G * 1e-160 for G in Y], 1e-2))
        out.append(('per_core_1e+150', [G * 1e150 for G in Y], 1e-9))
        for pos in range(d):
            Z = [G.copy() for G in Y]
            Z[pos] = Z[pos] * 1e-160
            out.append((f'tiny_core{pos}_1e-160', Z, 1e-9))
    return out


def check_scale(tn, what, Y, kw, tol):
    """one stabilised routine on a scaled tensor: finite, well formed, and within tol of the extended-precision dense
    reference where that is representable"""
    inp = dict(routine='scale', what=what, kwargs=kw, Y=tt_json(Y), tol=tol)
    ns = [G.shape[1] for G in Y]
    ref = full_ld(Y)
    sc = np.max(np.abs(ref))
    try:
        if what == 'orthogonalize':
            Z, pw = tn.orthogonalize([G.copy() for G in Y], kw['k'], use_stab=True)
            if not np.isfinite(pw):
                return dict(what='orthogonalize(use_stab=True) returned a non-finite exponent', input=inp)
            val = full_ld(Z) * LD(2) ** LD(int(pw))
        elif what == 'truncate':
            Z = tn.truncate([G.copy() for G in Y], kw.get('e', 1e-10), use_stab=True, is_eigh=kw['is_eigh'])
            val = full_ld(Z)
        elif what in ('norm', 'mul_scalar'):
            z, pw = tn.norm(Y, use_stab=True) if what == 'norm' else tn.mul_scalar(Y, Y, use_stab=True)
            if not (np.isfinite(z) and np.isfinite(pw)):
                return dict(what=f'{what}(use_stab=True) returned non-finite ({z!r}, {pw!r})', input=inp)
            if kw.get('value'):           # only where no square of an entry leaves the double range
                r2 = np.sum(ref * ref)
                want = np.sqrt(r2) if what == 'norm' else r2
                got = LD(z) * LD(2) ** LD(pw)
                if abs(got - want) > kw['value'] * want:
                    return dict(what=f'{what}(use_stab=True) = {z!r} * 2^{pw!r}, dense reference {want!r}', input=inp)
            return None
        elif what == 'accuracy':
            a = tn.accuracy(tn.mul([G.copy() for G in Y], 3.), Y)
            b = tn.accuracy(Y, Y)
            if not (np.isfinite(a) and np.isfinite(b)):
                return dict(what=f'accuracy returned {a!r} / {b!r} on a finite scaled tensor', input=inp)
            if kw.get('value') and abs(a - 2.) > kw['value']:
                return dict(what=f'accuracy(3 Y, Y) = {a!r}, expected 2', input=inp)
            return None
        elif what == 'als':
            rr = C.Rng(kw['seed'])
            I, _ = _data_for(rr, ns, 'zero')
            y = np.array([float(ref[tuple(r)]) for r in I])
            Z = tn.als(I, y, [G.copy() for G in Y], nswp=2, use_stab=True, info={})
            val = None
        else:
            raise KeyError(what)
    except Exception as e:  # noqa
        return dict(what=f'{what} (stabilised) raised on a finite valid scaled tensor: {e!r}'[:300], input=inp)
    w = wf_shape(Z, ns)
    if w:
        return dict(what=f'{what} (stabilised) returned an ill-formed tensor: {w}', input=inp)
    if not finite_tt(Z):
        return dict(what=f'{what} (stabilised) returned non-finite entries on a finite scaled tensor', input=inp)
    if val is not None and np.isfinite(float(sc)) and sc > 0:
        if what == 'truncate':          # rounding may move the tensor by e * ||Y||_F (that bound itself is C02's business)
            err = np.sqrt(np.sum(((val - ref) / sc) ** 2)) * sc
            tol = tol + 1.5 * kw.get('e', 1e-10) * float(np.sqrt(np.sum((ref / sc) ** 2)))
        else:
            err = np.max(np.abs(val - ref))
        if not err <= tol * sc:
            return dict(what=f'{what} (stabilised): dense tensor differs from the extended-precision reference by '
                             f'{float(err / sc):.3e} (relative)', input=inp)
    return None


# ---- mode size 1 / single basis function / one sample: func.py, func_full.py, anova_func.py, constructors ----
def _cheb_ref(F, X, a, b):
    """dense reference: sum_idx F[idx] prod_k T_{idx_k}(x_k scaled to [-1, 1])"""
    from numpy.polynomial import chebyshev as Ch
    out = []
    for x in X:
        V = np.asarray(F, dtype=float)
        for k in range(V.ndim):
            t = (2. * x[k] - b[k] - a[k]) / (b[k] - a[k])
            basis = np.array([Ch.chebval(t, [0.] * i + [1.]) for i in range(V.shape[0])])
            V = np.tensordot(basis, V, 1)
        out.append(float(V))
    return np.array(out)


def check_size1(tn, what, arg):
    inp = dict(routine='size1', what=what, arg=arg)
    rr = C.Rng(arg.get('seed', 0))
    ns = arg.get('ns', [1, 3])
    d = len(ns)
    kind = arg.get('kind', 'generic')
    rs = [1] + [1 if kind in ('rank1', 'constant') else 2] * (d - 1) + [1]
    A = rand_tt(rr, ns, rs, 1, 3)
    if kind == 'zero':
        A = [G * 0. for G in A]
    elif kind == 'constant':
        A = [np.ones_like(G) * 2. for G in A]
    a, b = [-2.] * d, [2.] * d            # func_sum_full accepts symmetric grids only
    X = np.array([[rr.choice([-2., -0.25, 0., 0.5, 2.]) for _ in range(d)] for _ in range(4)])
    F = full(A)
    exp_ns, ref, tt_out = None, None, None
    try:
        if what == 'func_get':
            got, ref = tn.func_get(X, A, a, b), _cheb_ref(F, X, a, b)
        elif what == 'func_get_full':
            got, ref = tn.func_get_full(X, F, a, b), _cheb_ref(F, X, a, b)
        elif what in ('func_sum', 'func_sum_full'):
            got = tn.func_sum(A, a, b) if what == 'func_sum' else tn.func_sum_full(F, a, b)
            V = F
            for k in range(d):
                w = np.array([0. if i % 2 else 2. / (1. - i * i) for i in range(V.shape[0])]) * (b[k] - a[k]) / 2.
                V = np.tensordot(w, V, 1)
            got, ref = np.array([float(got)]), np.array([float(V)])
        elif what == 'func_gets':
            m = arg['m']
            tt_out = tn.func_gets(A, **({} if m is None else dict(m=m)))
            exp_ns = list(ns) if m is None else ([m] * d if isinstance(m, int) else list(m))
            got = None
        elif what == 'func_gets_full':
            m = arg['m']
            got = tn.func_gets_full(F, a, b, **({} if m is None else dict(m=m)))
            want = tuple(ns) if m is None else tuple([m] * d)
            if tuple(np.shape(got)) != want:
                return dict(what=f'func_gets_full returned shape {np.shape(got)}, expected {want}', input=inp)
        elif what == 'func_int_general':
            Yv = tn.func_gets(A, 3)
            pts = [np.array([-2., 0.5, 2.])] * d
            tt_out = tn.func_int_general(Yv, pts, lambda x: tn.func_basis(x, 1))      # a single basis function
            exp_ns, got = [1] * d, None
        elif what == 'func_basis':
            got = tn.func_basis(X, 1)
            if np.shape(got) != (1,) + X.shape or not np.all(got == 1.):
                return dict(what=f'func_basis(X, 1) is not the constant function T_0 = 1 of shape {(1,) + X.shape}', input=inp)
        elif what == 'func_diff_matrix':
            got = tn.func_diff_matrix(-2., 2., arg.get('n', 1), m=arg.get('m', 1))
            got = np.concatenate([np.ravel(g) for g in got]) if isinstance(got, (list, tuple)) else got
        elif what == 'sample':
            got = np.vstack([tn.sample_lhs(ns, 1, seed=arg.get('seed', 0)), tn.sample_rand(ns, 1, seed=arg.get('seed', 0))])
            if got.shape != (2, d) or np.any(got < 0) or np.any(got >= np.array(ns)):
                return dict(what=f'sample_lhs / sample_rand with one sample returned {got.tolist()} for n = {ns}', input=inp)
        elif what == 'constructors':
            for nm, Zc in (('poly', tn.poly(ns)), ('delta', tn.delta(ns, [n - 1 for n in ns])), ('rand', tn.rand(ns, 2, seed=1)),
                           ('rand_norm', tn.rand_norm(ns, 2, seed=1)), ('rand_stab', tn.rand_stab(ns, 2, seed=1)),
                           ('const', tn.const(ns, 3.))):
                w = wf_shape(Zc, ns)
                if w or not finite_tt(Zc):
                    return dict(what=f'{nm}({ns}) is ill-formed / not finite: {w}', input=inp)
            return None
        elif what == 'optima_func':
            got = np.ravel(tn.optima_func_tt_beam(A, k=2)[1])
        else:
            raise KeyError(what)
    except Exception as e:  # noqa
        return dict(what=f'{what} raised on a valid input with a mode of size 1 / a single basis function: {e!r}'[:300], input=inp)
    if tt_out is not None:
        w = wf_shape(tt_out, exp_ns)
        if w:
            return dict(what=f'{what} returned an ill-formed tensor: {w}', input=inp)
        if not finite_tt(tt_out):
            return dict(what=f'{what} returned non-finite entries for a coefficient tensor with a mode of size 1', input=inp)
        return None
    if not np.isfinite(np.asarray(got, dtype=float)).all():
        return dict(what=f'{what} returned non-finite values for a coefficient tensor with a mode of size 1', input=inp)
    if ref is not None:
        err = float(np.max(np.abs(np.asarray(got, dtype=float).reshape(-1) - ref)))
        if err > 1e-9 * max(1., float(np.max(np.abs(ref)))):
            return dict(what=f'{what} differs from the dense Chebyshev reference by {err:.3e}', input=inp)
    return None


def _data_for(rng, ns, kind):
    """training data for the fitting routines: every slice of every mode is covered; repeated samples included"""
    I = []
    for k, n in enumerate(ns):
        for i in range(n):
            row = [rng.randrange(m) for m in ns]
            row[k] = i
            I.append(row)
    I += [list(I[rng.randrange(len(I))]) for _ in range(len(I) // 2 + 1)]      # repeated samples
    I = np.array(I, dtype=int)
    if kind == 'zero':
        y = np.zeros(len(I))
    elif kind == 'constant':
        y = np.full(len(I), 2.)
    elif kind == 'delta':
        y = np.array([3. if not any(row) else 0. for row in I.tolist()])
    elif kind == 'two_level':
        y = np.array([float(row[0] == 0) for row in I.tolist()])
    else:
        a = [np.array([float(rng.randint(1, 3)) for _ in range(n)]) for n in ns]
        y = np.array([float(np.prod([a[k][i] for k, i in enumerate(row)])) for row in I])
    return I, y


def check_fit(tn, name, ns, kind, seed, extra):
    """anova / als / cross on degenerate data"""
    rng = C.Rng(seed)
    inp = dict(routine=name, ns=ns, kind=kind, seed=seed, extra=extra)
    I, y = _data_for(rng, ns, kind)
    try:
        if name == 'anova':
            Z = tn.anova(I, y, r=extra.get('r', 2), order=extra.get('order', 1), seed=12)
        elif name == 'als':
            y0 = 'zero' if extra.get('zero_init') else extra.get('y0', 'rand')
            Y0 = {'rand': lambda: tn.rand(ns, extra.get('r', 2), seed=3),
                  'zero': lambda: tn.const(ns, 0.),
                  'zero_rand': lambda: tn.mul(tn.rand(ns, extra.get('r', 2), seed=3), 0.),
                  'const_sum': lambda: tn.add(tn.const(ns, 1.), tn.const(ns, 1.)) if len(ns) > 1 else tn.const(ns, 2.),
                  'ones': lambda: tn.const(ns, 1.)}[y0]()
            kw = {}
            if 'lamb' in extra:                       # absent = the default; None and 0. are documented values
                kw['lamb'] = extra['lamb']
            if 'adaptive_r' in extra:                 # rank-adaptive mode, use_stab off
                kw['r'] = extra['adaptive_r']
            info = {}
            vs = extra.get('vld_scale')
            yv = (y * vs if np.any(y) else np.full(len(y), vs)) if vs else (y if extra.get('vld') else None)
            Z = tn.als(I, y, Y0, nswp=extra.get('nswp', 3), info=info, I_vld=I if yv is not None else None, y_vld=yv,
                       e_vld=1e-12 if yv is not None else None, **kw)
            for key in ('e', 'e_vld'):
                if key in info and info[key] is not None and not np.isfinite(info[key]):
                    if key == 'e_vld' and np.isnan(info[key]) and vs and vs > 1e154:
                        return dict(what=f"als info['e_vld'] = nan: max|y_vld| above 1e154, the squared reference overflows",
                                    input=inp, finding_key=KF_AOD)
                    return dict(what=f"als info['{key}'] = {info[key]!r} (neither finite nor the sentinel -1)", input=inp)
        elif name == 'cross':
            val = {'zero': 0., 'constant': 2.}.get(kind)
            a = [np.array([float(1 + (i % 3)) for i in range(n)]) for n in ns]
            if kind == 'lowrank':
                f = lambda X: np.array([1. + float(np.sum(x)) for x in X])  # noqa   (TT-rank 2)
            elif val is None:
                f = lambda X: np.array([float(np.prod([a[k][int(i)] for k, i in enumerate(x)])) for x in X])  # noqa
            else:
                f = lambda X: np.full(len(X), val)  # noqa
            Y0 = tn.rand(ns, extra.get('r', 1), seed=5)
            info = {}
            vs = extra.get('vld_scale')
            kwc = {}
            if vs or 'e_vld' in extra:
                fy = f(I)
                kwc = dict(I_vld=I, y_vld=(fy * vs if np.any(fy) else np.full(len(I), vs)) if vs else fy,
                           e_vld=extra.get('e_vld', 1e-12))
            Z = tn.cross(f, Y0, m=extra.get('m', 400), e=extra.get('e'), nswp=extra.get('nswp', 3),
                         dr_min=extra.get('dr_min', extra.get('dr', 1)), dr_max=extra.get('dr_max', extra.get('dr', 1) + 1),
                         info=info, cache={} if extra.get('cache') else None, **kwc)
            for key in ('e', 'e_vld'):
                if key in info and info[key] is not None and not np.isfinite(info[key]):
                    if key == 'e_vld' and np.isnan(info[key]) and vs and vs > 1e154:
                        return dict(what=f"cross info['e_vld'] = nan: max|y_vld| above 1e154, the squared reference overflows",
                                    input=inp, finding_key=KF_AOD)
                    return dict(what=f"cross info['{key}'] = {info[key]!r} (neither finite nor the sentinel -1)", input=inp)
        else:
            raise KeyError(name)
    except Exception as e:  # noqa
        return dict(what=f'{name} raised on valid degenerate data: {e!r}'[:300], input=inp)
    w = wf_shape(Z, ns)
    if w:
        return dict(what=f'{name} returned an ill-formed tensor: {w}', input=inp)
    if not finite_tt(Z):
        return dict(what=f'{name} returned non-finite entries on finite degenerate data ({kind})', input=inp)
    return None


def check_misc(tn, what, arg):
    inp = dict(routine=what, arg=arg)
    try:
        if what == 'tt_to_qtt':
            Y = tt_of_json(arg['Y'])
            Z = tn.tt_to_qtt(Y, **arg.get('kw', {}))
            ns = None
            q = int(round(math.log2(Y[0].shape[1])))
            ns = [2] * (q * len(Y))
        elif what == 'svd_matrix':
            A = np.array(arg['A'], dtype=float)
            Z = tn.svd_matrix(A, **arg.get('kw', {}))
            ns = [4] * int(round(math.log2(A.shape[0])))
        elif what == 'func_int':
            Y = tt_of_json(arg['Y'])
            Z = tn.func_int(Y)
            ns = [G.shape[1] for G in Y]
        elif what == 'core_tt_to_qtt':
            G = np.array(arg['G'], dtype=float)
            Z = tn.core_tt_to_qtt(G, **arg.get('kw', {}))
            q = int(round(math.log2(G.shape[1])))
            bad = None
            if not isinstance(Z, list) or len(Z) != q:
                bad = f'{len(Z) if isinstance(Z, list) else type(Z)} cores, expected {q}'
            else:
                r = G.shape[0]
                for k, H in enumerate(Z):
                    if not isinstance(H, np.ndarray) or H.ndim != 3 or H.shape[0] != r or H.shape[1] != 2 or min(H.shape) < 1:
                        bad = f'core {k} has shape {getattr(H, "shape", None)}, left rank expected {r}'
                        break
                    r = H.shape[2]
                if bad is None and r != G.shape[2]:
                    bad = f'last right rank {r}, expected {G.shape[2]}'
            if bad:
                return dict(what='core_tt_to_qtt returned an ill-formed chain: ' + bad, input=inp)
            if not finite_tt(Z):
                return dict(what='core_tt_to_qtt returned non-finite entries (NaN/inf) on a finite core', input=inp)
            return None
        elif what == 'anova_func':
            rr = C.Rng(arg['seed'])
            d, m = arg['d'], arg['m']
            X = np.array([[rr.choice([-1., -0.5, 0., 0.25, 0.5, 1.]) for _ in range(d)] for _ in range(m)])
            X = np.vstack([X, X[: m // 2]])                                   # repeated samples
            kind = arg['kind']
            if kind == 'zero':
                y = np.zeros(len(X))
            elif kind == 'constant':
                y = np.full(len(X), 2.)
            elif kind == 'delta':
                y = np.zeros(len(X))
                y[0] = 3.
            else:
                y = np.array([float(np.prod(1. + x)) for x in X])
            Z = tn.anova_func(X, y, arg['n'], **arg.get('kw', {}))
            ns = [arg['n']] * d if isinstance(arg['n'], int) else list(arg['n'])
        elif what == 'als_func':
            rr = C.Rng(arg['seed'])
            d, m, n = arg['d'], arg['m'], arg['n']
            X = np.array([[rr.choice([-1., -0.5, 0., 0.25, 0.5, 1.]) for _ in range(d)] for _ in range(m)])
            X = np.vstack([X, X[: m // 2]])                                   # repeated samples
            y = {'zero': np.zeros(len(X)), 'constant': np.full(len(X), 2.)}.get(arg['kind'])
            if y is None:
                y = np.array([float(np.prod(1. + x)) for x in X])
            A0 = {'rand': lambda: tn.rand([n] * d, arg.get('r', 2), seed=4), 'zero': lambda: tn.const([n] * d, 0.),
                  'zero_rand': lambda: tn.mul(tn.rand([n] * d, arg.get('r', 2), seed=4), 0.),
                  'const_sum': lambda: tn.add(tn.const([n] * d, 1.), tn.const([n] * d, 1.))}[arg['y0']]()
            kw = {}
            if 'lamb' in arg:
                kw['lamb'] = arg['lamb']
            info = {}
            Z = tn.als_func(X, y, A0, nswp=2, info=info, **kw)
            ns = [n] * d
            if 'e' in info and info['e'] is not None and not np.isfinite(info['e']):
                return dict(what=f"als_func info['e'] = {info['e']!r} (neither finite nor the sentinel -1)", input=inp)
        elif what == '_maxvol':
            A = np.array(arg['A'], dtype=float)
            n, r = A.shape
            I, B = tn._maxvol(A.copy(), dr_min=arg['dr_min'], dr_max=arg['dr_max'])
            I = np.asarray(I)
            lo, hi = r + min(arg['dr_min'], arg['dr_max'], max(n - r, 0)), r + min(arg['dr_max'], max(n - r, 0))
            if n <= r:
                lo = hi = n
            bad = None
            if I.ndim != 1 or len(set(I.tolist())) != len(I) or (len(I) and (I.min() < 0 or I.max() >= n)):
                bad = f'row numbers {I.tolist()} are not distinct rows of a {n} x {r} matrix'
            elif not (lo <= len(I) <= hi):
                bad = f'{len(I)} rows selected, expected between {lo} and {hi}'
            elif not np.isfinite(B).all() or B.shape != (n, len(I)):
                bad = f'coefficient matrix of shape {B.shape} / non-finite'
            return dict(what='_maxvol (rank-growth window) ' + bad, input=inp) if bad else None
        elif what == 'matrix_svd':
            A = np.array(arg['A'], dtype=float)
            U, V = tn.matrix_svd(A, **{k: arg[k] for k in ('e', 'r') if k in arg})
            if not (np.isfinite(U).all() and np.isfinite(V).all()):
                return dict(what='matrix_svd returned non-finite factors for a finite matrix', input=inp)
            if U.shape[1] != V.shape[0] or U.shape[1] < 1 or U.shape[0] != A.shape[0] or V.shape[1] != A.shape[1]:
                return dict(what=f'matrix_svd returned factors of shapes {U.shape} {V.shape}', input=inp)
            return None
        elif what == 'matrix_skeleton':
            A = np.array(arg['A'], dtype=float)
            U, V = tn.matrix_skeleton(A, **{k: arg[k] for k in ('e', 'r') if k in arg}, rel=arg.get('rel', False),
                                      give_to=arg.get('give', 'm'))
            if not (np.isfinite(U).all() and np.isfinite(V).all()):
                return dict(what='matrix_skeleton returned non-finite factors for a finite matrix', input=inp)
            if U.shape[1] != V.shape[0] or U.shape[1] < 1 or U.shape[0] != A.shape[0] or V.shape[1] != A.shape[1]:
                return dict(what=f'matrix_skeleton returned factors of shapes {U.shape} {V.shape}', input=inp)
            return None
        else:
            raise KeyError(what)
    except Exception as e:  # noqa
        return dict(what=f'{what} raised on a valid degenerate input: {e!r}'[:300], input=inp)
    w = wf_shape(Z, ns)
    if w:
        return dict(what=f'{what} returned an ill-formed tensor: {w}', input=inp)
    if not finite_tt(Z):
        return dict(what=f'{what} returned non-finite entries on a finite valid input', input=inp)
    return None


def _replay_one(tn, inp):
    r = inp.get('routine')
    if r in _tt_routines(tn):
        return check_tt_call(tn, r, tt_of_json(inp['Y']), inp.get('kwargs', {}))
    if r == 'scalars':
        return check_scalars(tn, tt_of_json(inp['Y']))
    if r == 'accuracy':
        return check_accuracy(tn, tt_of_json(inp['Y']), tt_of_json(inp['Y2']))
    if r == 'accuracy_on_data':
        return check_aod(tn, tt_of_json(inp['Y']), inp['I'], inp['y'])
    if r == 'regfit':
        return check_regfit(tn, inp['what'], inp['arg'])
    if r == 'als_adaptive_stab':
        return check_als_adaptive_stab(tn, inp['ns'], inp['kind'], inp['seed'], inp['r'])
    if r == 'size1':
        return check_size1(tn, inp['what'], inp['arg'])
    if r == 'scale':
        return check_scale(tn, inp['what'], tt_of_json(inp['Y']), inp['kwargs'], inp['tol'])
    if r in ('anova', 'als', 'cross'):
        return check_fit(tn, r, inp['ns'], inp['kind'], inp['seed'], inp['extra'])
    if r in ('tt_to_qtt', 'svd_matrix', 'func_int', 'matrix_svd', 'matrix_skeleton', 'core_tt_to_qtt', 'anova_func', 'als_func', '_maxvol'):
        return check_misc(tn, r, inp['arg'])
    return None


def search(R, ctx, deep, hints):
    tn = C.import_teneva()
    rng = ctx['rng']
    fails, n_eval = [], 0
    seen = set()

    def add(f):
        if f:
            key = (f['what'][:60], f['input'].get('routine'), f['input'].get('what'), f.get('finding_key'))
            if key not in seen:          # one representative per routine and failure kind, smallest first
                seen.add(key)
                fails.append(f)

    # 0. hints from the correspondence: re-check those inputs at the property level first
    for h in hints[:20]:
        inp = h.get('input')
        if isinstance(inp, list) and inp and inp[0] == 'matrix_svd':
            n_eval += 1
            add(check_misc(tn, 'matrix_svd', dict(A=inp[1], e=inp[2], r=inp[3])))
        elif isinstance(inp, list) and inp and inp[0] == 'matrix_skeleton':
            n_eval += 1
            add(check_misc(tn, 'matrix_skeleton', dict(A=inp[1], e=inp[2], r=inp[3], rel=inp[4], give=inp[5])))
        elif isinstance(inp, dict) and inp.get('routine'):
            n_eval += 1
            add(_replay_one(tn, inp))
    # 1. the two truncated factorisations on degenerate matrices
    for m in range(1, 5):
        for n in range(1, 5):
            mats = [np.zeros((m, n)), np.ones((m, n)), np.outer(np.arange(1, m + 1.), np.arange(1, n + 1.))]
            D = np.zeros((m, n))
            D[0, 0] = 2.
            mats.append(D)
            T2 = np.zeros((m, n))
            T2[:, : (n + 1) // 2] = 1.                       # two-level, exactly rank 1
            mats.append(T2)
            mats.append(np.diag([4., 1., 0., 0.])[:m, :n])     # exactly rank-deficient diagonal block
            for A in mats:
                for ekw in (dict(e=1e-10), dict(e=0.5), dict(e=0.), dict()):      # e = 0. exactly, and the default
                    for rkw in (dict(r=1e12), dict(r=1), dict()):
                        n_eval += 1
                        add(check_misc(tn, 'matrix_svd', dict(A=A.tolist(), **ekw, **rkw)))
                        for rel in (False, True):
                            for give in ('l', 'r', 'm'):
                                n_eval += 1
                                add(check_misc(tn, 'matrix_skeleton', dict(A=A.tolist(), **ekw, **rkw, rel=rel, give=give)))
    # 2. TT-returning transformations and the scalar functions on the catalogue
    cat = catalogue(tn, rng, big=deep, extra=True)
    rts = _tt_routines(tn)
    fam_count = {}
    for fam, Y in cat:
        fam_count[fam] = fam_count.get(fam, 0) + 1
        for name, (_, variants) in rts.items():
            for kw in variants:
                if name.startswith('orthogonalize_') and len(Y) < 2:
                    continue
                n_eval += 1
                f = check_tt_call(tn, name, Y, kw)
                if f:
                    f['family'] = fam
                add(f)
        n_eval += 1
        add(check_scalars(tn, Y))
        n_eval += 2
        add(check_accuracy(tn, Y, Y))
        add(check_accuracy(tn, tn.const([G.shape[1] for G in Y], 1.), Y))
        ns = [G.shape[1] for G in Y]
        Ia = [[rng.randrange(n) for n in ns] for _ in range(rng.choice([1, 3, 5]))]
        n_eval += 2
        add(check_aod(tn, Y, Ia, [0.] * len(Ia)))                               # all-zero reference data
        add(check_aod(tn, Y, Ia, [float(rng.randint(1, 3)) for _ in Ia]))
        if all(n in (2, 4) for n in ns):
            n_eval += 1
            add(check_misc(tn, 'tt_to_qtt', dict(Y=tt_json(Y))))
            n_eval += 1
            add(check_misc(tn, 'tt_to_qtt', dict(Y=tt_json(Y), kw=dict(e=1e-2, r=2))))
            n_eval += 1
            add(check_misc(tn, 'tt_to_qtt', dict(Y=tt_json(Y), kw=dict(e=0.))))
            for G in Y:
                for kw in (dict(), dict(e=0.), dict(e=1e-10), dict(e=0., r=2)):     # default of core_tt_to_qtt is e = 0.
                    n_eval += 1
                    add(check_misc(tn, 'core_tt_to_qtt', dict(G=G.tolist(), kw=kw)))
        if all(n >= 2 for n in ns):
            n_eval += 1
            add(check_misc(tn, 'func_int', dict(Y=tt_json(Y))))
    # 3. svd_matrix on degenerate 2^q x 2^q matrices
    for q in (1, 2, 3):
        N = 2 ** q
        for A in (np.zeros((N, N)), np.eye(N), np.ones((N, N)), np.outer(np.arange(N) + 1., np.ones(N))):
            for kw in (dict(), dict(e=0.), dict(e=0., r=2)):
                n_eval += 1
                add(check_misc(tn, 'svd_matrix', dict(A=A.tolist(), kw=kw)))
    # 4. fitting routines on zero / constant / rank-1 data with repeated samples
    shapes = [[3, 4], [2, 3, 2], [3, 1, 2], [2, 2, 2, 2]] + ([[4, 3, 3, 2], [1, 3, 1]] if deep else [])
    for ns in shapes:
        for kind in ('delta', 'two_level'):
            seed = rng.randrange(10 ** 6)
            for extra in (dict(order=2, r=2), dict(order=2, r=3), dict(order=1, r=2)):
                n_eval += 1
                add(check_fit(tn, 'anova', ns, kind, seed, extra))
        for kind in ('zero', 'constant', 'delta', 'rank1'):
            for kw in (dict(), dict(e=0.)):
                n_eval += 1
                add(check_misc(tn, 'anova_func', dict(d=len(ns), m=12, n=3, kind=kind, seed=rng.randrange(10 ** 6), kw=kw)))
        for kind in ('zero', 'constant', 'rank1'):
            seed = rng.randrange(10 ** 6)
            for extra in (dict(order=1, r=2), dict(order=2, r=2), dict(order=2, r=3)):
                n_eval += 1
                add(check_fit(tn, 'anova', ns, kind, seed, extra))
            for extra in (dict(r=2), dict(r=1, vld=True), dict(r=2, zero_init=True)):
                n_eval += 1
                add(check_fit(tn, 'als', ns, kind, seed, extra))
            for extra in (dict(r=1), dict(r=2, cache=True, dr=0)):
                n_eval += 1
                add(check_fit(tn, 'cross', ns, kind, seed, extra))
    # 4b. documented values of the regularisation / accuracy parameters (default, None, 0., tiny) x singular families
    LAMB = [dict(), dict(lamb=None), dict(lamb=0.), dict(lamb=1e-300)]
    for ns in [[3, 2], [1, 3], [3, 1, 2], [2, 2, 2]] + ([[4, 3, 2], [2, 1, 1, 2]] if deep else []):
        for kind in ('zero', 'constant', 'rank1', 'delta'):
            seed = rng.randrange(10 ** 6)
            for y0 in ('rand', 'zero', 'zero_rand', 'const_sum'):
                for lk in LAMB:
                    n_eval += 1
                    add(check_fit(tn, 'als', ns, kind, seed, dict(r=2, nswp=2, y0=y0, **lk)))
            for ek in (dict(e=0.), dict(e=1e-10), dict(e_vld=0.), dict(e=0., e_vld=1e-3), dict()):
                n_eval += 1
                add(check_fit(tn, 'cross', ns, kind, seed, dict(r=1, nswp=2, m=200, **ek)))
    for d_ in (2, 3):
        for kind in ('zero', 'constant', 'rank1'):
            for y0 in ('rand', 'zero', 'zero_rand', 'const_sum'):
                for lk in LAMB:
                    n_eval += 1
                    add(check_misc(tn, 'als_func', dict(d=d_, m=10, n=3, kind=kind, y0=y0, seed=rng.randrange(10 ** 6), **lk)))
    # 4e. rank-growth window of TT-cross / _maxvol: dr_min >= 2, dr_max below and above what a core can carry, modes so
    #     small that an unfolding is taller than wide by fewer than dr_min rows, start ranks 1 .. over-ranked
    WIN = [(0, 0), (0, 2), (1, 1), (1, 3), (2, 2), (2, 3), (3, 3), (2, 50), (4, 4)]
    for ns in [[2, 2], [3, 3, 3], [3, 4, 3], [1, 3, 1, 3], [2, 2, 2], [2, 1, 3]] + ([[4, 2, 4, 2], [5, 5]] if deep else []):
        for r0 in (1, 2, 5):
            for (a_, b_) in WIN:
                for kind in rng.sample(['zero', 'constant', 'rank1', 'lowrank'], 2):
                    n_eval += 1
                    add(check_fit(tn, 'cross', ns, kind, rng.randrange(10 ** 6),
                                  dict(r=r0, nswp=rng.choice([2, 3]), m=None if rng.random() < 0.5 else 300, dr_min=a_,
                                       dr_max=b_, cache=rng.random() < 0.4)))
    for n_ in range(1, 8):
        for r_ in range(1, 5):
            Q = np.linalg.qr(np.array([[float(rng.randint(-3, 3)) + 0.25 * ((i * 7 + j * 3) % 5) for j in range(r_)]
                                       for i in range(n_)]))[0] if n_ > r_ else \
                np.array([[float(rng.randint(-3, 3)) for _ in range(r_)] for _ in range(n_)])
            for (a_, b_) in WIN:
                n_eval += 1
                add(check_misc(tn, '_maxvol', dict(A=Q.tolist(), dr_min=a_, dr_max=b_)))
    # 4f. mode size 1 / a single basis function / n = 1 / one sample, for every routine that takes a size or a count
    for ns in [[1, 3], [3, 1], [1, 1], [2, 1, 3], [1, 1, 1], [1, 2, 1, 2]] + ([[1, 4, 1], [5, 1]] if deep else []):
        for kind in ('zero', 'constant', 'rank1', 'generic'):
            base = dict(ns=ns, kind=kind, seed=rng.randrange(10 ** 6))
            for what in ('func_get', 'func_get_full', 'func_sum', 'func_sum_full', 'func_int_general', 'func_basis',
                         'optima_func'):
                n_eval += 1
                add(check_size1(tn, what, dict(base)))
            for m in (2, 3, [2] * len(ns), [3, 2] * (len(ns) // 2) + [2] * (len(ns) % 2), None):
                n_eval += 1
                add(check_size1(tn, 'func_gets', dict(base, m=m)))
            for m in (2, 3, None):
                n_eval += 1
                add(check_size1(tn, 'func_gets_full', dict(base, m=m)))
        n_eval += 2
        add(check_size1(tn, 'sample', dict(ns=ns, seed=rng.randrange(10 ** 6))))
        add(check_size1(tn, 'constructors', dict(ns=ns)))
    for n_ in (1, 2):
        for m_ in (1, 2):
            n_eval += 1
            add(check_size1(tn, 'func_diff_matrix', dict(n=n_, m=m_)))
    for d_ in (2, 3):
        for kind in ('zero', 'constant', 'delta', 'rank1'):
            for kw in (dict(), dict(e=0.)):
                n_eval += 1
                add(check_misc(tn, 'anova_func', dict(d=d_, m=8, n=1, kind=kind, seed=rng.randrange(10 ** 6), kw=kw)))
            for lk in LAMB:
                n_eval += 1
                add(check_misc(tn, 'als_func', dict(d=d_, m=8, n=1, kind=kind, y0='rand', r=1, seed=rng.randrange(10 ** 6), **lk)))
    # 4c. reference values whose squares underflow / approach overflow: finite value or the sentinel -1, never NaN
    for ns in ([3, 2], [2, 3, 2]):
        Ia = [[rng.randrange(n) for n in ns] for _ in range(4)]
        for Yt in (tn.const(ns, 0.), tn.const(ns, 1.), rand_tt(rng, ns, [1] + [2] * (len(ns) - 1) + [1], 1, 3),
                   tn.const(ns, 1e-200), tn.const(ns, 1e150)):
            big_t = float(np.max(np.abs(full(Yt)))) > 1e100
            for v in (1e-200, 5e-324, 1e-162, 1e-150, 1e150):
                if big_t and v == 1e-162:
                    continue       # true relative error ~1e+312 is not a double: inf is the right answer, nothing to check
                n_eval += 2
                add(check_aod(tn, Yt, Ia, [v] * len(Ia)))
                add(check_aod(tn, Yt, Ia, [v * (1 + (k % 2)) * (-1) ** k for k in range(len(Ia))]))
        for kind in ('zero', 'constant', 'rank1'):
            seed = rng.randrange(10 ** 6)
            for v in (1e-200, 5e-324, 1e-162, 1e150):
                n_eval += 2
                add(check_fit(tn, 'als', ns, kind, seed, dict(r=2, nswp=2, vld_scale=v)))
                add(check_fit(tn, 'cross', ns, kind, seed, dict(r=1, nswp=2, m=200, vld_scale=v)))
    # 4d. fixed regression cases of the known finding C11/accuracy_on_data-reference-overflow (tagged, not a violation)
    Ik = [[0, 0], [1, 1], [2, 0], [1, 1]]
    for Yk in (tn.const([3, 2], 0.), tn.const([3, 2], 1.), tn.const([3, 2], 1e-200)):
        n_eval += 1
        add(check_aod(tn, Yk, Ik, [1e200] * 4))
    n_eval += 2
    add(check_fit(tn, 'als', [3, 2], 'constant', 7, dict(r=2, nswp=2, vld_scale=1e200)))
    add(check_fit(tn, 'cross', [3, 2], 'constant', 7, dict(r=1, nswp=2, m=200, vld_scale=1e200)))
    # 4h. every functional fitting routine with its regularisation / cut-off at the boundary (0., tiny, None, default) on
    #     rank-deficient designs: repeated samples, fewer distinct points than unknowns, a constant coordinate, one point
    for d_ in (2, 3):
        for design in ('three_points', 'repeated', 'one_point', 'const_coord', 'generic'):
            for kind in ('zero', 'constant', 'generic'):
                sd_ = rng.randrange(10 ** 6)
                for n_ in (1, 2, 4):
                    for kw in (dict(), dict(lamb=0.), dict(lamb=1e-300)):
                        n_eval += 1
                        add(check_regfit(tn, 'anova_func', dict(d=d_, n=n_, design=design, kind=kind, seed=sd_, kw=kw)))
                for n_ in (2, 4):
                    for kw in (dict(), dict(lamb=0.), dict(lamb=None)):
                        n_eval += 1
                        add(check_regfit(tn, 'als_func', dict(d=d_, n=n_, design=design, kind=kind, seed=sd_, kw=kw)))
        for design in ('two_points', 'repeated', 'three_points'):
            for kind in ('zero', 'generic'):
                for n_ in (1, 2, 4):
                    for kw in (dict(), dict(rcond=0.), dict(rcond=None)):
                        n_eval += 1
                        add(check_regfit(tn, 'func_int_general', dict(d=d_, n=n_, design=design, kind=kind,
                                                                      seed=rng.randrange(10 ** 6), kw=kw)))
    # 4g. fixed regression cases of the known finding C11/als-adaptive-use_stab-raises, and the same flag off (must work)
    for ns_, kind_, r_ in (([3, 3, 3], 'rank1', 2), ([3, 2], 'constant', 2), ([2, 1, 3], 'zero', 3)):
        n_eval += 2
        add(check_als_adaptive_stab(tn, ns_, kind_, 11, r_))
        add(check_fit(tn, 'als', ns_, kind_, 11, dict(r=1, nswp=2, adaptive_r=r_)))
    # 5. scale families x every routine with a use_stab path, plus accuracy
    sfam = {}
    for fam, Y, tol in scale_catalogue(rng, big=deep):
        sfam[fam.split('_core')[0]] = sfam.get(fam.split('_core')[0], 0) + 1
        d = len(Y)
        normal_sq = fam.startswith('per_core_1e+150')                  # squares stay in range only here
        coarse = fam.startswith('per_core_1e-160') or fam.startswith('tiny')
        todo = [('orthogonalize', dict(k=k)) for k in sorted({0, d - 1, d // 2})]
        todo += [('truncate', dict(is_eigh=True)), ('truncate', dict(is_eigh=False)), ('truncate', dict(is_eigh=True, e=1e-2))]
        todo += [('norm', dict(value=1e-9 if normal_sq else (1e-3 if coarse else 0))),
                 ('mul_scalar', dict(value=1e-9 if normal_sq else (1e-3 if coarse else 0))),
                 ('accuracy', dict(value=1e-6 if normal_sq else (1e-3 if coarse else 0)))]
        if fam.startswith('tiny') or fam.startswith('scale_1e-290'):
            todo.append(('als', dict(seed=rng.randrange(10 ** 6))))
        for what, kw in todo:
            n_eval += 1
            f = check_scale(tn, what, Y, kw, tol)
            if f:
                f['family'] = fam
            add(f)
    R.search.append(dict(name='np.isfinite + vis.show predicate on every TT-returning routine and scalar function over '
                              'the degenerate catalogue', evaluations=n_eval, failures=len(fails), deep=deep,
                         families=fam_count, scale_families=sfam))
    # observation outside the property (lead's decision): erank of a one-dimensional tensor
    try:
        R.notes.append(f'observation: erank of a d=1 tensor = {tn.erank([np.ones((1, 3, 1))])!r} (d=1 is outside the '
                       f'families named by the property)')
    except Exception as e:  # noqa
        R.notes.append('observation probe raised ' + repr(e)[:100])
    return sorted(fails, key=lambda f: 'finding_key' in f)[:25]      # genuine violations first, tagged known ones last


def replay(data):
    tn = C.import_teneva()
    p = data['payload']
    print(data['what'])
    inp = p.get('input') if isinstance(p, dict) else None
    if not isinstance(inp, dict):
        print('no replayable input recorded (broken proof / correspondence):', str(p)[:1500])
        return 1
    f = _replay_one(tn, inp)
    print('replayed:', (f or {}).get('what'))
    return 1 if f else 0
