"""C05 — TT-cross reproduces low-rank tensors and caching is transparent."""
import math
import sys
import warnings

import numpy as np

from harness import common as C
from harness import lib_cross as L

THEOREMS = 'Properties/C05.v'
CLAIM = dict(
    text='Coq theorems (Properties/C05.v), for every dimension, mode sizes, ranks, rank-growth window, sweep count, '
         'callback. State-machine part, about the model Model/Cross.v of teneva.cross (shared with C06), any numeric '
         'kernel: C05_func_eval_transparent - for an objective that is a function of the multi-index, _func_eval with a '
         'consistent cache and without cache return the same value array unless the uncached call is refused for the '
         'budget, m_cached <= m_uncached is kept; C05_cache_transparent - a cached and an uncached run with the same '
         'arguments return the same cores, index sets, sweep count, stop reason and info r/e/e_vld, the cached run '
         'evaluating at most as many indices, provided the uncached run does not stop on the budget and the cached run '
         'does not stop by the cache-specific conv rule; C05_cache_content / C05_cache_keys - at every exit, for any '
         'objective, the dictionary is the initial one updated in call order with exactly the index->value pairs of '
         'the successful objective calls; C05_info_consistent - at every exit info.r, info.e, info.e_vld are erank / '
         'accuracy / accuracy_on_data of the returned cores (accuracy against the cores saved at the start of the last '
         'sweep). Numeric part: Model/CrossNum.v instantiates the payload operations of Model/Cross.v with the array '
         'operations of cross.py (reshape of the value batch, unfolding, QR oracle, utils._maxvol with its eye branch, '
         'core = Fortran reshape of B, pending factor Q[ind] R, tensordot folds; both directions). '
         'C05_iter_realises_scheme / C05_iter_realises_scheme_rtl - a left-to-right / right-to-left _iter of this model '
         'computes one position of the interpolation scheme (B Z[ind] = Z on the sampled columns / rows, pending factor = '
         'target values at the selected candidates) given Z = QR and B Q[ind] = Q on its own matrices; '
         'C05_cross_exact_ltr, C05_cross_exact_rtl, C05_cross_exact_full_sweep - for the MODEL DRIVER (Model/Cross.v '
         'step function with this kernel) from any sweep head: if on the way out the sampled columns span the unfolding '
         'of the target on the candidate rows (pos_ok) and on the way back the sampled rows span it on the candidate '
         'columns (rpos_ok), QR / maxvol meeting their contracts there, then the cores held after the left-to-right '
         'half sweep, and the cores held at the END OF THE SWEEP, evaluate to the target at EVERY multi-index (any '
         'working ranks, also under rank growth); C05_cross_exact_return - the same for the tensor RETURNED by '
         'cross_num when it stops at a sweep end (run without cache and budget on an objective returning the target: '
         'after fuel sweeps at a sweep head with no stop pending, cross_num (fuel+1) = Ok s: s is Done, is the state at '
         'the end of that sweep, and evaluates to the target); C05_cross_exact - the left-to-right statement for the '
         'state reached by cross_num. '
         'Supporting algebra over any commutative ring: C05_core_interp, C05_skeleton_exact '
         '(A = A[:,J] A[I,J]^-1 A[I,:]), C05_span_of_rank (TT-rank rho + right-invertible sampled columns give the '
         'spanning hypothesis), C05_cross_exact_cond (the abstract scheme). Non-vacuity Examples over Z for every part.',
    note='PARTIAL / not proved: (1) exactness is proved for the tensor held after a left-to-right half sweep and for the '
         'tensor held / returned at a sweep end; a run interrupted INSIDE a half sweep (budget, objective None: the mixed '
         'state with a folded pending factor) is covered by the correspondence and the search only, and by '
         'C05_cache_transparent for cached runs (same cores as the uncached run). (2) "almost '
         'all tensors" (measure zero of the bad set) is not formalised: genericity enters as the explicit spanning '
         'hypothesis per position (pos_ok / span_ok), which C05_span_of_rank derives from TT-rank rho with invertible '
         'intersections; that the index sets met by a run satisfy it is not proved - in the over-ranked regime an '
         'index set inherited from the pre-iteration can be degenerate with positive probability (observed: '
         'interrupted over-ranked first sweep, error ~0.1), so that regime is validated numerically at 1e-6 for '
         'completed sweeps only. (3) QR (Z = QR) and maxvol (B Q[ind] = Q, C08) contracts are hypotheses, validated '
         'on every recorded call. (4) that the cores saved at sweep start are "the tensor of the previous sweep" is '
         'validated with independent snapshots, not proved. (5) equality up to rounding is a float fact: dense '
         'comparison at 1e-6 in search(). Cross-cutting families run on every check (search and, where the model '
         'expresses them, correspondence): argument forms (int / F-ordered / non-contiguous / tuple cores, NumPy '
         'scalars, 0-d arrays and floats for m / e / nswp / dr_min / dr_max / e_vld, list / int32 / float32 validation '
         'data, explicit defaults; nested-list cores are undocumented and raise AttributeError - allowed), call '
         'histories (shared info dict, default info, the same Y0 / I_vld / y_vld / cache objects reused: arguments '
         'bit-identical, cache only grows), scales and degenerate shapes (objective times 2^+-300, constant and zero '
         'objective, mode size 1, d = 2, rho = 1).',
    technique='Coq proof (lock-step simulation of two runs of a small-step machine; inductive invariants; ring algebra '
              'of interpolation carried through the instantiated driver) + exact replay correspondence of '
              'cached/uncached pairs + instantiated model run at the float instance with replayed QR / maxvol vs '
              'returned cores (1e-9) + bitwise comparison of pairs and call histories on the implementation + '
              'recorded-oracle identities + dense rank-rho oracle')
TRUSTED = ['Coq 8.16.1 kernel + vm_compute (case evaluation only)',
           'hand-written models Model/Cross.v (exact replay) and Model/CrossNum.v (float instance, replayed QR / maxvol, cores to 1e-9) tied to cross.py / utils.py',
           'numpy semantics of kron / hstack / reshape(order=F) / fancy indexing as transcribed in batch / inew',
           'harness recorders on teneva._maxvol, teneva.erank, teneva.accuracy, teneva.accuracy_on_data, teneva.copy, '
           'teneva.cross._func_eval, teneva.cross._iter, numpy.linalg.qr (module attributes, looked up at call time)']
ASSUMPTIONS = ['Y0 is a well-formed TT-tensor with d >= 2, mode sizes >= 1, ranks >= 1',
               'the objective is a function of the multi-index and returns an array of the requested length',
               'the callback does not modify Y / info']
TIME_LIMIT = {'quick': 900, 'thorough': 5400}


# ------------------------------------------------------------------------------------------------ helpers

def feq(a, b):
    """bitwise equality of two floats (nan == nan)"""
    a, b = float(a), float(b)
    if math.isnan(a) or math.isnan(b):
        return math.isnan(a) and math.isnan(b)
    return a == b and math.copysign(1, a) == math.copysign(1, b)


def cores_equal(Y1, Y2):
    if len(Y1) != len(Y2):
        return False
    for a, b in zip(Y1, Y2):
        a, b = np.asarray(a), np.asarray(b)
        if a.shape != b.shape or not np.array_equal(a, b, equal_nan=True):
            return False
    return True


def full(Y):
    G0 = np.asarray(Y[0])
    Z = G0.reshape(-1, G0.shape[2])
    shp = [G0.shape[1]]
    for G in Y[1:]:
        G = np.asarray(G)
        Z = Z @ G.reshape(G.shape[0], -1)
        shp.append(G.shape[1])
        Z = Z.reshape(-1, G.shape[2])
    return Z.reshape(shp)


def erank_ref(Y):
    """effective rank from the core shapes alone: d = 2 -> r_1; else the positive root r of
    a r^2 + b r = sum_k r_k n_k r_{k+1}, a = n_1 + ... + n_{d-2}, b = r_0 n_0 + n_{d-1} r_d (a constant-rank tensor of
    the same size)"""
    sh = [tuple(int(x) for x in np.shape(G)) for G in Y]
    d = len(sh)
    if d == 2:
        return float(sh[0][2])
    sz = sum(r1 * n * r2 for r1, n, r2 in sh)
    a = sum(n for _, n, _ in sh[1:-1])
    b = sh[0][0] * sh[0][1] + sh[-1][1] * sh[-1][2]
    return (math.sqrt(b * b + 4.0 * a * sz) - b) / (2.0 * a)


def dense_accuracy_on_data(Y, I, y):
    """||Y[I] - y|| / ||y|| from the dense expansion of Y; -1 when the reference values are all zero / missing"""
    if I is None or y is None:
        return -1.0
    I = np.asarray(I, dtype=int).reshape(-1, len(Y))
    y = np.asarray(y, dtype=float).reshape(-1)
    ny = float(np.sqrt(np.sum(y * y)))
    if ny == 0.0:
        return -1.0
    v = full(Y)[tuple(I.T)]
    return float(np.sqrt(np.sum((v - y) ** 2)) / ny)


def observe(tn, cfg, g=None, Y0=None, f_override=None):
    """Run teneva.cross (through lib_cross.run_impl, so with its recorders) plus: a recorder on teneva.copy (the
    Yold copies made by cross), independent snapshots of Y at every sweep end (taken in the callback)."""
    cr = sys.modules['teneva.cross']
    copies = []
    o_copy = tn.copy

    def w_copy(Y, *a, **k):
        out = o_copy(Y, *a, **k)
        if sys._getframe(1).f_code.co_filename.endswith('cross.py'):
            copies.append([np.array(G, copy=True) for G in out])
        return out

    tn.copy = w_copy
    try:
        o = L.run_impl(tn, cfg, objective=g, Y0=Y0)
    finally:
        tn.copy = o_copy
    o['copies'] = copies            # copies[0] = copy(Y0); copies[k] = Yold of sweep k
    return o


def snapshots_run(tn, cfg, g, Y0):
    """independent reconstruction of "the tensor of the previous sweep": deep copies of Y taken by a callback at the
    end of every sweep, and the tensor after the pre-iteration obtained from a separate run with nswp=0"""
    snaps = []

    es = []

    def cb(Y, info, opts):
        snaps.append([np.array(G, copy=True) for G in Y])
        es.append(float(info['e']))
        return False

    ncall = [0]

    def f(I):
        k = ncall[0]
        ncall[0] += 1
        if cfg.get('kNone') is not None and k == cfg['kNone']:
            return None
        return g(np.asarray(I))

    info = {}
    cache = None if cfg['cache'] is None else {tuple(i): float(v) for i, v in cfg['cache']}
    rngv = np.random.default_rng(cfg['seedY'] + 1)
    I_vld = np.array([[int(rngv.integers(0, n)) for n in cfg['ns']] for _ in range(7)]) if cfg['hasI'] else None
    y_vld = g(np.array([[int(rngv.integers(0, n)) for n in cfg['ns']] for _ in range(7)]) if I_vld is None else I_vld) \
        if cfg['hasy'] else None
    with warnings.catch_warnings():
        warnings.simplefilter('ignore')
        with np.errstate(all='ignore'):
            Y = tn.cross(f, [G.copy() for G in Y0], m=cfg['m'], e=cfg['e'], nswp=cfg['nswp'], dr_min=cfg['dr_min'],
                         dr_max=cfg['dr_max'], info=info, cache=cache, I_vld=I_vld, y_vld=y_vld, e_vld=cfg['e_vld'],
                         cb=cb, m_cache_scale=cfg['scale'])
            info0 = {}
            Ypre = tn.cross(lambda I: g(np.asarray(I)), [G.copy() for G in Y0], nswp=0, info=info0)
    return dict(Y=Y, info=info, snaps=snaps, es=es, Ypre=Ypre, I_vld=I_vld, y_vld=y_vld)


# ------------------------------------------------------------------------------------------------ oracles

def _fail(what, cfg, **kw):
    return dict(what='C05: ' + what, input=L.describe(cfg), **kw)


def oracle_pair(tn, cfg, keep=None):
    """cache transparency on the implementation: the same arguments without cache and with a (consistent) cache.
    Returns a failure dict or None.  `keep` (dict) receives the two observations."""
    cu = dict(cfg, cache=None, kNone=None)
    cc = dict(cfg, cache=(cfg['cache'] if cfg['cache'] is not None else []), kNone=None)
    g = lambda I: L.gfun(cfg['a'], cfg['b'], cfg['p'], I)
    try:
        ou = observe(tn, cu, g)
        oc = observe(tn, cc, g)
    except L.TooLong:
        return None
    if keep is not None:
        keep.update(ou=ou, oc=oc, cu=cu, cc=cc)
    if (ou['exc'] is None) != (oc['exc'] is None):
        return _fail('only one of the cached / uncached runs raised', cfg, got=[repr(ou['exc']), repr(oc['exc'])])
    if ou['exc'] is not None:
        if type(ou['exc']) is not type(oc['exc']):
            return _fail('cached / uncached runs raised different exceptions', cfg,
                         got=[repr(ou['exc']), repr(oc['exc'])])
        return None
    iu, ic = ou['info'], oc['info']
    # the dictionary holds exactly the evaluated index -> value pairs (and what it held before)
    exp = {tuple(k): float(v) for k, v in cc['cache']}
    for b in oc['rec']['batches']:
        if b['ok']:
            for i, v in zip(np.asarray(b['I']).tolist(), g(np.asarray(b['I']))):
                exp[tuple(int(x) for x in i)] = float(v)
    got = oc['cache']
    if got != exp or any(not isinstance(k, tuple) or not isinstance(v, float) for k, v in got.items()):
        extra = [list(k) for k in got if k not in exp][:3]
        miss = [list(k) for k in exp if k not in got][:3]
        wrong = [[list(k), got[k], exp[k]] for k in got if k in exp and got[k] != exp[k]][:3]
        return _fail('cache does not hold exactly the evaluated index -> value pairs', cfg,
                     got=dict(size=len(got), extra=extra, missing=miss, wrong=wrong), expected=len(exp))
    if iu['m_cache'] != 0:
        return _fail('m_cache counted in a run without cache', cfg, got=iu['m_cache'])
    if iu['stop'] == 'm' or ic['stop'] == 'conv':
        if keep is not None:
            keep['lockstep'] = False
        return None                # the runs legitimately part ways (budget / cache-specific convergence stop)
    if keep is not None:
        keep['lockstep'] = True
    if ic['stop'] != iu['stop'] or ic['nswp'] != iu['nswp']:
        return _fail('cache changes the stop reason / sweep count', cfg,
                     got=[ic['stop'], ic['nswp']], expected=[iu['stop'], iu['nswp']])
    if not cores_equal(ou['Y'], oc['Y']):
        return _fail('cache changes the returned cores', cfg,
                     got=[list(np.shape(G)) for G in oc['Y']], expected=[list(np.shape(G)) for G in ou['Y']])
    for k in ('r', 'e', 'e_vld'):
        if not feq(iu[k], ic[k]):
            return _fail(f'cache changes info[{k}]', cfg, got=float(ic[k]), expected=float(iu[k]))
    if ic['m'] > iu['m']:
        return _fail('the cached run evaluated more indices than the uncached run', cfg, got=ic['m'], expected=iu['m'])
    if ic['m'] + ic['m_cache'] != iu['m']:
        return _fail('requests of the cached run (m + m_cache) differ from the evaluations of the uncached run', cfg,
                     got=[ic['m'], ic['m_cache']], expected=iu['m'])
    return None


def oracle_info(tn, cfg, o=None):
    """info.r / info.e / info.e_vld are those of the returned tensor (recomputed with the same routines, bitwise), and
    the reference of info.e is the tensor at the end of the previous sweep (independent snapshots)."""
    g = lambda I: L.gfun(cfg['a'], cfg['b'], cfg['p'], I)
    try:
        if o is None:
            o = observe(tn, cfg, g)
    except L.TooLong:
        return None
    if o['exc'] is not None:
        return None
    info, Y = o['info'], o['Y']
    with warnings.catch_warnings():
        warnings.simplefilter('ignore')
        with np.errstate(all='ignore'):
            r = tn.erank(Y)
            if not feq(info['r'], r):
                return _fail('info[r] is not the effective rank of the returned tensor', cfg, got=float(info['r']),
                             expected=float(r))
            rr = erank_ref(Y)
            if not abs(float(info['r']) - rr) <= 1e-12 * (1 + rr):
                return _fail('info[r] is not the effective rank of the returned cores (closed form from the core shapes)',
                             cfg, got=float(info['r']), expected=rr, shapes=[list(np.shape(G)) for G in Y])
            if info.get('m_max') != (int(cfg['m']) if cfg['m'] else None) or \
                    info.get('with_cache') is not (cfg['cache'] is not None):
                return _fail('info[m_max] / info[with_cache] do not describe the arguments', cfg,
                             got=[info.get('m_max'), info.get('with_cache')])
            ev = tn.accuracy_on_data(Y, o['I_vld'], o['y_vld'])
            if not feq(info['e_vld'], ev):
                return _fail('info[e_vld] is not the validation error of the returned tensor', cfg,
                             got=float(info['e_vld']), expected=float(ev))
            # independent dense reference (the runs of this stream are far from converged: the objective has high rank)
            if o['I_vld'] is not None and o['y_vld'] is not None and np.prod(cfg['ns']) <= 4096:
                ref = dense_accuracy_on_data(Y, o['I_vld'], o['y_vld'])
                if not (feq(info['e_vld'], ref) or abs(float(info['e_vld']) - ref) <= 1e-9 * (1 + abs(ref))):
                    return _fail('info[e_vld] is not ||Y[I_vld] - y_vld|| / ||y_vld|| of the returned tensor (dense '
                                 'reference)', cfg, got=float(info['e_vld']), expected=float(ref))
            if len(o['copies']) < 2:
                return _fail('cross did not save the tensor of the previous sweep (teneva.copy not called)', cfg)
            Yold = o['copies'][-1]
            e = tn.accuracy(Y, Yold)
            if not feq(info['e'], e):
                return _fail('info[e] is not the distance of the returned tensor to the tensor saved at sweep start', cfg,
                             got=float(info['e']), expected=float(e))
            # independent reconstruction of the previous-sweep tensor
            if cfg.get('kcb') is None:
                s = snapshots_run(tn, cfg, g, o['Y0'])
                if not cores_equal(s['Y'], Y):
                    return None            # not reproducible (should not happen); nothing to compare
                # the pre-iteration re-represents Y0, so the reference of the FIRST sweep is the initial tensor itself
                if np.prod(cfg['ns']) <= 4096:
                    F0 = full(o['Y0'])
                    n0 = np.linalg.norm(F0)
                    if np.isfinite(n0) and n0 > 1e-100:
                        dpre = np.linalg.norm(full(s['Ypre']) - F0) / n0
                        if not dpre <= 1e-8:
                            return _fail('the maxvol pre-iteration changed the tensor (it must re-represent Y0)', cfg,
                                         got=float(dpre))
                        if s['snaps'] and 0 <= s['es'][0] < 1e200:
                            F1 = full(s['snaps'][0])
                            e1 = np.linalg.norm(F1 - F0) / n0
                            if abs(s['es'][0] - e1) > 1e-5 * (1 + e1) + 1e-6 * np.linalg.norm(F1) / n0:
                                return _fail('info[e] after the first sweep is not the relative distance to the initial '
                                             'tensor Y0', cfg, got=s['es'][0], expected=float(e1))
                st = info['stop']
                ended_at_sweep_end = len(s['snaps']) == info['nswp'] and st not in ('m', 'func') and len(s['snaps']) > 0 \
                    and cores_equal(s['snaps'][-1], Y)
                prev = s['snaps'][-2] if ended_at_sweep_end and len(s['snaps']) >= 2 else \
                    (s['Ypre'] if (ended_at_sweep_end or not s['snaps']) else s['snaps'][-1])
                if not cores_equal(prev, Yold):
                    return _fail('the reference tensor of info[e] is not the tensor of the previous sweep', cfg,
                                 got=[list(np.shape(G)) for G in Yold])
                e2 = tn.accuracy(Y, prev)       # same values, possibly another memory layout: last-bit differences
                if not (feq(info['e'], e2) or abs(info['e'] - e2) <= 1e-10 * abs(e2)):
                    return _fail('info[e] is not the relative distance to the tensor of the previous sweep', cfg,
                                 got=float(info['e']), expected=float(e2))
                # against a dense computation (loose: the TT norm of a difference is accurate to sqrt(eps))
                if np.prod(cfg['ns']) <= 4096 and info['e'] >= 0 and info['e'] < 1e200:
                    A, B = full(Y), full(prev)
                    nb = np.linalg.norm(B)
                    if np.isfinite(nb) and nb > 1e-100:
                        ed = np.linalg.norm(A - B) / nb
                        if abs(ed - info['e']) > 1e-5 * (1 + ed):
                            return _fail('info[e] differs from the dense relative distance to the previous sweep', cfg,
                                         got=float(info['e']), expected=float(ed))
    return None


def gen_lowrank(rng, kind=None):
    """a rank-rho target (Gaussian cores) and a start / growth setting under which the working ranks reach rho"""
    d = rng.choice([2, 2, 3, 3, 4, 5])
    ns = [rng.randint(1, 5) for _ in range(d)]
    if rng.random() < 0.25:
        ns = [rng.choice([1, 2, 3]) for _ in range(d)]
    # feasible exact ranks: r_k <= min(prod left, prod right)
    rho = [1]
    for k in range(1, d):
        cap = min(int(np.prod(ns[:k])), int(np.prod(ns[k:])))
        rho.append(rng.randint(1, min(3, cap)))
    rho.append(1)
    # make the profile consistent (a rank cannot exceed neighbour rank times mode size)
    for _ in range(d):
        for k in range(1, d):
            rho[k] = min(rho[k], rho[k - 1] * ns[k - 1], rho[k + 1] * ns[k])
    kind = kind or rng.choice(['fixed', 'fixed', 'grow', 'grow', 'over'])
    seed = rng.randrange(10 ** 6)
    if kind == 'fixed':
        r0, dr, nswp = list(rho), (0, 0), rng.choice([1, 2, 3])
    elif kind == 'grow':
        r0 = [1] + [rng.randint(1, max(1, rho[k])) for k in range(1, d)] + [1]
        dr = rng.choice([(1, 1), (1, 2), (2, 2)])
        nswp = max(rho) + rng.choice([0, 1])
    else:
        r0 = [1] + [rho[k] + rng.randint(0, 2) for k in range(1, d)] + [1]
        dr, nswp = rng.choice([(0, 0), (0, 1), (1, 1)]), rng.choice([1, 2])
    return dict(ns=ns, rho=rho, r0=r0, dr_min=dr[0], dr_max=dr[1], nswp=nswp, seed=seed, kind=kind,
                cache=rng.random() < 0.4, vld=rng.random() < 0.5, scale=rng.choice(['1', 'big', 'small', 'p300', 'm300', 'p400', 'm400']))


def gen_degenerate(rng):
    """degenerate shapes and objectives: rho = 1 everywhere, d = 2, mode size 1, constant / zero objective, objective
    scaled by 2^+-300"""
    d = rng.choice([2, 2, 3, 4])
    ns = [rng.choice([1, 1, 2, 3]) for _ in range(d)]
    if rng.random() < 0.2:
        ns = [1] * d
    kind = rng.choice(['fixed', 'grow'])
    return dict(ns=ns, rho=[1] * (d + 1), r0=[1] * (d + 1), dr_min=0 if kind == 'fixed' else 1,
                dr_max=0 if kind == 'fixed' else rng.choice([1, 2]), nswp=rng.choice([1, 2]), seed=rng.randrange(10 ** 6),
                kind=kind, cache=rng.random() < 0.4, vld=rng.random() < 0.3,
                scale=rng.choice(['const', 'zero', 'p300', 'm300', '1']))


def lowrank_target(c):
    rng = np.random.default_rng(c['seed'])
    ns, rho = c['ns'], c['rho']
    if c['scale'] == 'int':
        cores = [rng.integers(-3, 4, size=(rho[k], ns[k], rho[k + 1])).astype(float) for k in range(len(ns))]
    elif c['scale'] == 'dyadic':
        # entries k/8, never 0: every entry of the target is a short dyadic, exact in float32 (checked by the caller)
        cores = [np.round(rng.normal(size=(rho[k], ns[k], rho[k + 1])) * 8) / 8 for k in range(len(ns))]
        for G in cores:
            G[G == 0] = 0.125
    else:
        cores = [rng.normal(size=(rho[k], ns[k], rho[k + 1])) for k in range(len(ns))]
    A = full(cores)
    if c['scale'] == 'big':
        A = A * 1e6
    elif c['scale'] == 'small':
        A = A * 1e-6
    elif c['scale'] == 'p300':
        A = A * 2.0 ** 300
    elif c['scale'] == 'm300':
        A = A * 2.0 ** -300
    elif c['scale'] == 'p400':
        A = A * 2.0 ** 400
    elif c['scale'] == 'm400':
        A = A * 2.0 ** -400
    elif c['scale'] == 'const':
        A = np.full(A.shape, 2.5)
    elif c['scale'] == 'zero':
        A = np.zeros(A.shape)
    Y0 = [rng.normal(size=(c['r0'][k], ns[k], c['r0'][k + 1])) for k in range(len(ns))]
    return A, Y0


def oracle_exact(tn, c):
    """a rank-rho tensor given through an element oracle is reproduced once the working ranks have reached rho; also when
    the run is interrupted (objective returns None) anywhere after the first left-to-right half sweep"""
    def fail(what, **kw):
        return dict(what='C05: ' + what, input=dict(lowrank=c), **kw)
    A, Y0 = lowrank_target(c)
    ret = c.get('ret')
    if ret and not np.array_equal(A.astype(np.float32).astype(float), A):
        ret = None                     # target not exact in float32: keep the float64 objective
    nA = np.linalg.norm(A)
    zero = not nA > 0
    if zero:
        nA = 1.0
    d = len(c['ns'])
    rngv = np.random.default_rng(c['seed'] + 7)
    I_vld = y_vld = None
    if c['vld']:
        I_vld = np.array([[int(rngv.integers(0, n)) for n in c['ns']] for _ in range(9)])
        y_vld = A[tuple(I_vld.T)]
        if not np.linalg.norm(y_vld) > 0:
            I_vld = y_vld = None

    def run(kNone):
        ncall = [0]

        def f(I):
            k = ncall[0]
            ncall[0] += 1
            if kNone is not None and k == kNone:
                return None
            y = A[tuple(np.asarray(I).T)]
            return ret_convert(y, ret) if ret else y
        info = {}
        cache = {} if c['cache'] else None
        o_mv = tn._maxvol

        def w_mv(Am, *a, **k):
            I, B = o_mv(Am, *a, **k)
            if not k:
                w = maxvol_window_bad(np.shape(Am), a, len(I))
                if w and not mvbad:
                    mvbad.append(w)
            return I, B
        tn._maxvol = w_mv
        try:
            with warnings.catch_warnings():
                warnings.simplefilter('ignore')
                with np.errstate(all='ignore'):
                    Y = tn.cross(f, [G.copy() for G in Y0], nswp=c['nswp'], dr_min=c['dr_min'], dr_max=c['dr_max'],
                                 info=info, cache=cache, I_vld=I_vld, y_vld=y_vld, m_cache_scale=10 ** 9)
        finally:
            tn._maxvol = o_mv
        return Y, info, ncall[0]

    def check(Y, info, tag):
        if not (isinstance(Y, list) and len(Y) == d and all(np.ndim(G) == 3 for G in Y)):
            return fail(tag + 'result is not a list of d 3-D cores')
        if [int(np.shape(G)[1]) for G in Y] != list(c['ns']) or np.shape(Y[0])[0] != 1 or np.shape(Y[-1])[2] != 1 or \
                any(np.shape(Y[k])[2] != np.shape(Y[k + 1])[0] for k in range(d - 1)):
            return fail(tag + 'result does not have the shape of the target', got=[list(np.shape(G)) for G in Y])
        rk = [1] + [int(np.shape(G)[2]) for G in Y]
        if c['kind'] == 'fixed' and rk != list(c['rho']):
            return fail(tag + 'fixed-rank run changed the ranks', got=rk, expected=c['rho'])
        if not all(rk[k] >= c['rho'][k] for k in range(d + 1)):
            if c.get('must_reach') and not tag:
                return fail('rank growth (dr_min >= 1, enough sweeps) did not bring the working ranks to rho', got=rk,
                            expected=c['rho'])
            return None                # premise of the property (working ranks reached rho) not met
        if not all(np.isfinite(G).all() for G in Y):
            return fail(tag + 'result has non-finite entries')
        if any(np.asarray(G).dtype != np.float64 for G in Y):
            return fail(tag + 'returned cores are not float64', got=[str(np.asarray(G).dtype) for G in Y])
        if not abs(float(info['r']) - erank_ref(Y)) <= 1e-12 * (1 + erank_ref(Y)):
            return fail(tag + 'info[r] is not the effective rank of the returned cores', got=float(info['r']),
                        expected=erank_ref(Y), shapes=[list(np.shape(G)) for G in Y])
        err = np.linalg.norm(full(Y) - A) / nA
        if ret and c['kind'] == 'fixed' and not err <= 1e-10:
            return fail(tag + f'float32-exact rank-rho target through an objective returning {ret} not reproduced to '
                        'double precision', got=float(err), expected='<= 1e-10', ranks=rk)
        if not err <= (0.0 if zero else 1e-6):
            return fail(tag + 'rank-rho target not reproduced', got=float(err), expected='<= 1e-6', ranks=rk,
                        stop=info.get('stop'), kNone=c.get('kNone'))
        if I_vld is not None:
            refv = dense_accuracy_on_data(Y, I_vld, y_vld)
            if not abs(float(info['e_vld']) - refv) <= 1e-9 * (1 + abs(refv)) + 1e-12:
                return fail(tag + 'info[e_vld] is not ||Y[I_vld] - y_vld|| / ||y_vld|| of the returned tensor',
                            got=float(info['e_vld']), expected=refv)
        if I_vld is not None and not (0 <= info['e_vld'] <= 1e-6):
            return fail(tag + 'info[e_vld] not small although the target is reproduced', got=float(info['e_vld']))
        return None

    mvbad = []
    try:
        Y, info, ncall = run(None)
    except Exception as e:  # noqa
        return fail('cross raised ' + repr(e)[:300])
    if mvbad:
        return fail('_maxvol returned a number of rows outside the dr_min / dr_max window: ' + mvbad[0])
    fl = check(Y, info, '')
    if fl:
        return fl
    # interrupted run: None at a call after the first left-to-right pass (its cores still stem from the pre-iteration).
    # Only for the fixed-rank start at rho: under rank growth the ranks of an interrupted result say nothing about the
    # size of the index sets its older cores were interpolated from, and with working ranks ABOVE rho an index set
    # inherited from the pre-iteration can be degenerate for the target with positive probability (two of its rows
    # differing only in an over-ranked bond give parallel columns) - observed: error ~0.1 after the first half sweep,
    # gone one half sweep later; that regime is outside the statement of the property (and of C05_cross_exact).
    # (not for the dyadic targets of the return-form family: a k/8 grid is not a continuous distribution, an index set
    # inherited from the pre-iteration can meet a singular intersection - 2 cases in 6000)
    if ncall > d and c['kind'] == 'fixed' and c['scale'] != 'dyadic':
        k = c.get('kNone')
        if k is None:
            k = d + (c['seed'] * 7919) % (ncall - d)
        c['kNone'] = k
        try:
            Y, info, _ = run(k)
        except Exception as e:  # noqa
            return fail('interrupted cross raised ' + repr(e)[:300])
        if info.get('stop') != 'func':
            return fail('objective returned None but stop is not func', got=info.get('stop'))
        fl = check(Y, info, 'interrupted run: ')
        if fl:
            return fl
    return None



def _cross_call(tn, cfg, info_mode, shared):
    """one cross call on cfg; info_mode: 'fresh' (info={}), 'shared' (the dict `shared`), 'default' (info omitted:
    the module-level default dict of cross is used)"""
    import inspect
    g = lambda I: L.gfun(cfg['a'], cfg['b'], cfg['p'], I)
    ncall = [0]

    def f(I):
        ncall[0] += 1
        if ncall[0] > 4000:
            raise L.TooLong()
        return g(np.asarray(I))
    cache = None if cfg['cache'] is None else {tuple(i): float(v) for i, v in cfg['cache']}
    kw = dict(m=cfg['m'], e=cfg['e'], nswp=cfg['nswp'], dr_min=cfg['dr_min'], dr_max=cfg['dr_max'], cache=cache,
              m_cache_scale=cfg['scale'])
    if info_mode == 'fresh':
        kw['info'] = info = {}
    elif info_mode == 'shared':
        kw['info'] = info = shared
    else:
        info = inspect.signature(tn.cross).parameters['info'].default
    with warnings.catch_warnings():
        warnings.simplefilter('ignore')
        with np.errstate(all='ignore'):
            Y = tn.cross(f, L.make_Y0(cfg), **kw)
    return Y, {k: info.get(k) for k in ('nswp', 'stop', 'm', 'm_cache', 'r', 'e', 'e_vld', 'm_max', 'with_cache')}, cache


def gen_history(rng):
    n = rng.choice([2, 2, 3])
    calls = []
    for k in range(n):
        cfg = _pair_cfg(rng, small=rng.random() < 0.5)
        cfg.update(hasI=False, hasy=False, e_vld=None, kcb=None, kNone=None)
        if cfg['m'] is None and cfg['e'] is None and cfg['nswp'] is None:
            cfg['nswp'] = 2
        cfg['scale'] = rng.choice([5, 5, 2, 1])
        # first call with a cache (it leaves cache-hit counts behind), then a mix
        withc = (k == 0) or rng.random() < 0.4
        cfg['cache'] = ([] if cfg['cache'] is None else cfg['cache']) if withc else None
        calls.append(cfg)
    return dict(mode=rng.choice(['shared', 'default']), calls=calls)


def oracle_history(tn, h):
    """a sequence of cross calls in one process that reuse one info dict (or all use the module default): every call
    must behave exactly like the same call made with a fresh info dict"""
    shared = {}
    for k, cfg in enumerate(h['calls']):
        cfg = dict(cfg)
        if cfg.get('cache') is not None:
            cfg['cache'] = [(list(i), v) for i, v in cfg['cache']]
        try:
            Ys, infs, cs = _cross_call(tn, cfg, h['mode'], shared)
            Yf, inff, cf = _cross_call(tn, cfg, 'fresh', None)
        except L.TooLong:
            return None
        except Exception as e:  # noqa
            return dict(what='C05: cross raised in a call sequence ' + repr(e)[:200], input=dict(history=h), call=k)
        bad = None
        if not cores_equal(Ys, Yf):
            bad = 'returned cores'
        else:
            for key in infs:
                a, b = infs[key], inff[key]
                same = (a == b) if not (isinstance(a, float) or isinstance(b, float)) else \
                    (a is not None and b is not None and feq(a, b))
                if not same:
                    bad = f'info[{key}]'
                    break
        if bad is None and cs != cf:
            bad = 'cache dictionary'
        if bad:
            return dict(what=f'C05: call {k} of a sequence sharing info ({h["mode"]}) differs from the same call in a '
                             f'fresh state: {bad}', input=dict(history=h), call=k,
                        got={k_: (float(v) if isinstance(v, float) else v) for k_, v in infs.items()},
                        expected={k_: (float(v) if isinstance(v, float) else v) for k_, v in inff.items()})
    return None


def gen_small_growth(rng):
    """rank-1 start, dr_min >= 1, shapes made of mode sizes 1, 2 (and 3): the working ranks must reach rho"""
    d = rng.choice([2, 3, 3, 4, 5, 6])
    ns = [rng.choice([1, 2, 2, 2, 3]) for _ in range(d)]
    if rng.random() < 0.3:
        ns = [2] * d
    rho = [1]
    for k in range(1, d):
        cap = min(int(np.prod(ns[:k])), int(np.prod(ns[k:])))
        rho.append(rng.randint(1, min(3, cap)))
    rho.append(1)
    for _ in range(d):
        for k in range(1, d):
            rho[k] = min(rho[k], rho[k - 1] * ns[k - 1], rho[k + 1] * ns[k])
    dr_min = rng.choice([1, 1, 2])
    return dict(ns=ns, rho=rho, r0=[1] * (d + 1), dr_min=dr_min, dr_max=rng.choice([dr_min, 2]),
                nswp=max(rho) + d, seed=rng.randrange(10 ** 6), kind='grow', cache=rng.random() < 0.3, vld=False,
                scale='1', must_reach=True)


def maxvol_window_bad(shape, args, npick):
    """utils._maxvol contract on one recorded call: n <= r -> all rows; else r + min(dr_min, dr_max, n - r) <= count <=
    r + min(dr_max, n - r): growth happens whenever dr_min >= 1 and n > r"""
    n, r = shape
    a = list(args) + [None] * 5
    dr_min = 0 if a[1] is None else a[1]
    dr_max = 0 if a[2] is None else a[2]
    if n <= r:
        return None if npick == n else f'{npick} rows for a {n}x{r} matrix (expected all {n})'
    hi = r + min(dr_max, n - r)
    lo = r + min(dr_min, dr_max, n - r)
    if not lo <= npick <= hi:
        return f'{npick} rows for a {n}x{r} matrix with dr_min={dr_min}, dr_max={dr_max} (expected {lo}..{hi})'
    return None



FORMS = ['Y0_int', 'Y0_F', 'Y0_tuple', 'Y0_noncontig', 'np_scalars', 'np_scalars32', 'zero_d', 'm_float', 'nswp_float',
         'vld_lists', 'vld_int32_float32', 'defaults_explicit', 'Y0_lists']
# forms outside the documented argument types: may raise, but must not silently return something else
MAY_RAISE = {'Y0_lists'}


def gen_forms(rng):
    d = rng.choice([2, 3, 3, 4])
    ns = [rng.randint(1, 4) for _ in range(d)]
    r0 = [1] + [rng.randint(1, 3) for _ in range(d - 1)] + [1]
    drs = rng.choice([(0, 0), (1, 1), (0, 1), (1, 2)])
    return dict(ns=ns, r0=r0, seedY=rng.randrange(10 ** 6), m=rng.choice([None, 40, 150, 1000]),
                e=rng.choice([None, 1e-3]), nswp=rng.choice([1, 2, 3]), dr_min=drs[0], dr_max=drs[1],
                vld=rng.random() < 0.6, e_vld=rng.choice([None, 1e-3]), cache=rng.random() < 0.5,
                a=[rng.randint(0, 5) for _ in range(d)], b=[rng.randint(0, 3) for _ in range(d)],
                p=rng.choice([5, 7, 11, 13, 101]), form=rng.choice(FORMS))


def oracle_forms(tn, c):
    """documented argument forms give the same answer as the canonical form: initial cores with integer values given
    as float64 C-ordered arrays (canonical) vs int64 / Fortran-ordered / non-contiguous / tuple; stop and growth
    arguments as NumPy scalars, 0-d arrays, floats (m=1e3); validation data as lists / int32 / float32"""
    def fail(what, **kw):
        return dict(what='C05: ' + what, input=dict(forms=c), **kw)
    rngy = np.random.default_rng(c['seedY'])
    ns, r0, d = c['ns'], c['r0'], len(c['ns'])
    Yint = [rngy.integers(-4, 5, size=(r0[k], ns[k], r0[k + 1])) for k in range(d)]
    for G in Yint:
        G[G == 0] = 1
    g = lambda I: L.gfun(c['a'], c['b'], c['p'], I)
    I_vld = y_vld = None
    if c['vld']:
        I_vld = np.array([[int(rngy.integers(0, n)) for n in ns] for _ in range(7)])
        y_vld = g(I_vld)
    e_vld = c['e_vld'] if c['vld'] else None
    form = c['form']

    def call(variant):
        Y0 = [G.astype(float) for G in Yint]
        kw = dict(m=c['m'], e=c['e'], nswp=c['nswp'], dr_min=c['dr_min'], dr_max=c['dr_max'], e_vld=e_vld)
        Iv, yv = I_vld, y_vld
        if variant:
            if form == 'Y0_int':
                Y0 = [G.copy() for G in Yint]
            elif form == 'Y0_F':
                Y0 = [np.asfortranarray(G) for G in Y0]
            elif form == 'Y0_tuple':
                Y0 = tuple(Y0)
            elif form == 'Y0_lists':
                Y0 = [G.tolist() for G in Y0]
            elif form == 'Y0_noncontig':
                big = [np.zeros((G.shape[0], 2 * G.shape[1], G.shape[2] + 1)) for G in Y0]
                for Bg, G in zip(big, Y0):
                    Bg[:, ::2, :-1] = G
                Y0 = [Bg[:, ::2, :-1] for Bg in big]
            elif form in ('np_scalars', 'np_scalars32', 'zero_d'):
                it, ft = (np.int64, np.float64) if form == 'np_scalars' else (np.int32, np.float64)
                conv = (lambda v, t: np.array(v, dtype=t)) if form == 'zero_d' else (lambda v, t: t(v))
                for k_, t in (('m', it), ('nswp', it), ('dr_min', it), ('dr_max', it), ('e', ft), ('e_vld', ft)):
                    if kw[k_] is not None:
                        kw[k_] = conv(kw[k_], t)
            elif form == 'm_float':
                if kw['m'] is not None:
                    kw['m'] = float(kw['m'])
            elif form == 'nswp_float':
                kw['nswp'] = float(kw['nswp'])
            elif form == 'vld_lists' and Iv is not None:
                Iv, yv = Iv.tolist(), yv.tolist()
            elif form == 'vld_int32_float32' and Iv is not None:
                Iv, yv = Iv.astype(np.int32), yv.astype(np.float32)
            elif form == 'defaults_explicit':
                kw.update(tau=1.1, tau0=1.05, k0=100, cb=None, func=None, m_cache_scale=5, log=False)
        info = {}
        cache = {} if c['cache'] else None
        ncall = [0]

        def f(I):
            ncall[0] += 1
            if ncall[0] > 3000:
                raise L.TooLong()
            return g(np.asarray(I))
        with warnings.catch_warnings():
            warnings.simplefilter('ignore')
            with np.errstate(all='ignore'):
                Y = tn.cross(f, Y0, info=info, cache=cache, I_vld=Iv, y_vld=yv, **kw)
        return Y, info, cache

    try:
        Yc, ic, cc = call(False)
    except L.TooLong:
        return None
    except Exception as e:  # noqa
        return fail('cross raised on canonical arguments ' + repr(e)[:200])
    try:
        Yv, iv, cv = call(True)
    except L.TooLong:
        return None
    except Exception as e:  # noqa
        if form in MAY_RAISE:
            return None
        return fail(f'argument form {form} raised ' + repr(e)[:200])
    for k_ in ('nswp', 'stop', 'm', 'm_cache', 'm_max'):
        if ic[k_] != iv[k_] or type(iv[k_]) is not type(ic[k_]) and k_ in ('stop', 'm_max'):
            return fail(f'argument form {form} changes info[{k_}]', got=repr(iv[k_]), expected=repr(ic[k_]))
    if [np.shape(G) for G in Yc] != [np.shape(G) for G in Yv]:
        return fail(f'argument form {form} changes the ranks', got=[list(np.shape(G)) for G in Yv])
    Fc, Fv = full(Yc), full(Yv)
    if not np.abs(Fc - Fv).max() <= 1e-9 * max(np.abs(Fc).max(), 1e-300):
        return fail(f'argument form {form} changes the returned tensor', got=float(np.abs(Fc - Fv).max()))
    for k_ in ('r', 'e', 'e_vld'):
        a_, b_ = float(ic[k_]), float(iv[k_])
        if not (feq(a_, b_) or abs(a_ - b_) <= 1e-6 * (abs(a_) + 1e-6)):
            return fail(f'argument form {form} changes info[{k_}]', got=b_, expected=a_)
    if cc != cv:
        return fail(f'argument form {form} changes the cache')
    return None


def gen_objhist(rng):
    d = rng.choice([2, 3, 3, 4])
    ns = [rng.randint(1, 4) for _ in range(d)]
    r0 = [1] + [rng.randint(1, 3) for _ in range(d - 1)] + [1]
    calls = []
    for _ in range(rng.choice([2, 3])):
        drs = rng.choice([(0, 0), (1, 1), (0, 1), (1, 2)])
        calls.append(dict(nswp=rng.choice([1, 2, 3]), dr_min=drs[0], dr_max=drs[1], m=rng.choice([None, None, 60, 400]),
                          cache=rng.random() < 0.6))
    return dict(ns=ns, r0=r0, seedY=rng.randrange(10 ** 6), vld=rng.random() < 0.6, calls=calls,
                a=[rng.randint(0, 5) for _ in range(d)], b=[rng.randint(0, 3) for _ in range(d)],
                p=rng.choice([5, 7, 11, 13, 101]))


def oracle_objhist(tn, h):
    """2-3 cross calls on the SAME Y0 / I_vld / y_vld / cache objects: the arguments stay bit-identical (the cache only
    grows, by evaluated pairs), and every call returns what the same call returns on fresh copies (the cores also with
    the inherited, consistent cache as long as neither m nor conv stops either run)"""
    def fail(what, **kw):
        return dict(what='C05: ' + what, input=dict(objhist=h), **kw)
    g = lambda I: L.gfun(h['a'], h['b'], h['p'], I)
    rngy = np.random.default_rng(h['seedY'])
    ns, r0, d = h['ns'], h['r0'], len(h['ns'])
    Y0 = [rngy.normal(size=(r0[k], ns[k], r0[k + 1])) for k in range(d)]
    Y0s = [G.copy() for G in Y0]
    I_vld = y_vld = None
    if h['vld']:
        I_vld = np.array([[int(rngy.integers(0, n)) for n in ns] for _ in range(7)])
        y_vld = g(I_vld)
    Is, ys = (None, None) if I_vld is None else (I_vld.copy(), y_vld.copy())
    cache = {}

    def call(c, Y0_, Iv, yv, cache_):
        info = {}
        with warnings.catch_warnings():
            warnings.simplefilter('ignore')
            with np.errstate(all='ignore'):
                Y = tn.cross(lambda I: g(np.asarray(I)), Y0_, m=c['m'], nswp=c['nswp'], dr_min=c['dr_min'],
                             dr_max=c['dr_max'], info=info, cache=cache_, I_vld=Iv, y_vld=yv, m_cache_scale=10 ** 9)
        return Y, info

    for k, c in enumerate(h['calls']):
        before = dict(cache)
        try:
            Y, info = call(c, Y0, I_vld, y_vld, cache if c['cache'] else None)
            Yf, inff = call(c, [G.copy() for G in Y0s], None if Is is None else Is.copy(),
                            None if ys is None else ys.copy(), None)
        except Exception as e:  # noqa
            return fail('cross raised ' + repr(e)[:200], call=k)
        if not cores_equal(Y0, Y0s) or any(G.flags.writeable is False for G in Y0):
            return fail('cross modified its argument Y0', call=k)
        if any(Yk is G for Yk in Y for G in Y0) or any(np.shares_memory(Yk, G) for Yk in Y for G in Y0):
            return fail('the result shares memory with the argument Y0', call=k)
        if Is is not None and not (np.array_equal(I_vld, Is) and np.array_equal(y_vld, ys)):
            return fail('cross modified the validation data', call=k)
        if any(kk not in cache or cache[kk] != v for kk, v in before.items()):
            return fail('cross changed / dropped existing cache entries', call=k)
        if any(cache[kk] != float(g(np.array([kk]))[0]) for kk in cache):
            return fail('cache holds a value that is not the objective at its key', call=k)
        if info['stop'] in ('m', 'conv') or inff['stop'] == 'm':
            continue           # budget / cache-specific stop (all requests cached: m = 0 < m_cache): runs part ways
        if not cores_equal(Y, Yf) or info['nswp'] != inff['nswp'] or info['stop'] != inff['stop']:
            return fail('a call on reused argument objects (inherited cache) differs from the same call on fresh copies '
                        'without cache', call=k, got=[info['stop'], info['nswp']], expected=[inff['stop'], inff['nswp']])
        for k_ in ('r', 'e', 'e_vld'):
            if not feq(info[k_], inff[k_]):
                return fail(f'info[{k_}] differs between reused-object call and fresh call', call=k)
    return None



RET_FORMS = ['float64', 'float32', 'int64', 'int32', 'list', 'noncontig', 'float16']


def ret_convert(y, form):
    """the objective's return value in another documented-compatible form (the values stay exactly representable)"""
    y = np.asarray(y, dtype=float)
    if form == 'float32':
        return y.astype(np.float32)
    if form == 'float16':
        return y.astype(np.float16) if np.array_equal(y.astype(np.float16).astype(float), y) else y.astype(np.float32)
    if form == 'int64':
        return y.astype(np.int64)
    if form == 'int32':
        return y.astype(np.int32)
    if form == 'list':
        return [float(v) for v in y]
    if form == 'noncontig':
        big = np.zeros(2 * len(y))
        big[::2] = y
        return big[::2]
    return y


def oracle_ret_pair(tn, cfg):
    """objective-return forms: the objective (small integer values, exact in every form) returns float64 / float32 /
    float16 / int64 / int32 arrays, a Python list or a non-contiguous view.  Every run must work in float64: cores of
    dtype float64, bitwise equal to the run whose objective returns float64, with and without cache"""
    form = cfg.get('ret') or 'float32'
    cfg = dict(cfg, kNone=None)

    def _fail(what, cfg_, **kw):
        d_ = dict(what='C05: ' + what, input=dict(L.describe(cfg_), ret=form), **kw)
        return d_
    g64 = lambda I: L.gfun(cfg['a'], cfg['b'], cfg['p'], I)
    gf = lambda I: ret_convert(g64(I), form)
    cu = dict(cfg, cache=None)
    cc = dict(cfg, cache=(cfg['cache'] if cfg['cache'] is not None else []))
    try:
        oref = observe(tn, cu, g64)
        ou = observe(tn, cu, gf)
        oc = observe(tn, cc, gf)
    except L.TooLong:
        return None
    if oref['exc'] is not None:
        return None
    for tag, o in (('without cache', ou), ('with cache', oc)):
        if o['exc'] is not None:
            return _fail(f'objective returning {form}: cross raised {tag}: ' + repr(o['exc'])[:200], cfg, ret=form)
        bad = [str(np.asarray(G).dtype) for G in o['Y'] if np.asarray(G).dtype != np.float64]
        if bad:
            return _fail(f'objective returning {form}: returned cores are not float64 ({tag})', cfg, got=bad, ret=form)
    if not cores_equal(ou['Y'], oref['Y']) or ou['info']['nswp'] != oref['info']['nswp'] or \
            ou['info']['stop'] != oref['info']['stop'] or ou['info']['m'] != oref['info']['m']:
        return _fail(f'objective returning {form} instead of float64 changes the result of the run without cache', cfg,
                     ret=form, got=[ou['info']['stop'], ou['info']['nswp']])
    for k in ('r', 'e', 'e_vld'):
        if not feq(ou['info'][k], oref['info'][k]):
            return _fail(f'objective returning {form} instead of float64 changes info[{k}]', cfg, ret=form,
                         got=float(ou['info'][k]), expected=float(oref['info'][k]))
    if any(not isinstance(v, float) for v in oc['cache'].values()) or \
            any(v != float(g64(np.array([k_]))[0]) for k_, v in oc['cache'].items()):
        return _fail(f'objective returning {form}: cache values are not the float objective values', cfg, ret=form)
    if ou['info']['stop'] != 'm' and oc['info']['stop'] != 'conv':
        if not cores_equal(ou['Y'], oc['Y']) or ou['info']['nswp'] != oc['info']['nswp'] or \
                ou['info']['stop'] != oc['info']['stop']:
            return _fail(f'objective returning {form}: cached and uncached runs differ', cfg, ret=form)
        for k in ('r', 'e', 'e_vld'):
            if not feq(ou['info'][k], oc['info'][k]):
                return _fail(f'objective returning {form}: cache changes info[{k}]', cfg, ret=form)
    return None


def gen_lowrank_ret(rng):
    c = gen_lowrank(rng, kind=rng.choice(['fixed', 'fixed', 'grow']))
    c['scale'] = 'dyadic'
    c['ret'] = rng.choice(['float32', 'float32', 'list', 'noncontig', 'float64'])
    c['nswp'] = max(c['nswp'], 2)
    return c



def gen_accdata(rng):
    d = rng.choice([2, 3, 3, 4])
    ns = [rng.randint(1, 4) for _ in range(d)]
    r = [1] + [rng.randint(1, 3) for _ in range(d - 1)] + [1]
    return dict(ns=ns, r=r, seed=rng.randrange(10 ** 6), m=rng.choice([1, 1, 2, 7, 20]),
                kind=rng.choice(['far', 'far', 'near', 'exact', 'zero_data', 'zero_tensor', 'none']),
                form=rng.choice(['array', 'list', 'int32_float32']),
                scale=rng.choice([1.0, 1.0, 2.0 ** 40, 2.0 ** -40, 2.0 ** 400, 2.0 ** -400, 1e-120, 1e120]))


def oracle_accdata(tn, c):
    """direct check of teneva.accuracy_on_data (the routine behind info[e_vld]) against the dense formula
    ||Y[I] - y|| / ||y||, on data that differ substantially from the tensor as well as slightly / not at all"""
    def fail(what, **kw):
        return dict(what='C05: ' + what, input=dict(accdata=c), **kw)
    rng = np.random.default_rng(c['seed'])
    d = len(c['ns'])
    Y = [rng.normal(size=(c['r'][k], c['ns'][k], c['r'][k + 1])) for k in range(d)]
    Y[0] = Y[0] * c['scale']
    if c['kind'] == 'zero_tensor':
        Y[0] = Y[0] * 0
    I = np.array([[int(rng.integers(0, n)) for n in c['ns']] for _ in range(c['m'])])
    v = full(Y)[tuple(I.T)]
    if c['kind'] == 'far':
        y = v * rng.uniform(0.2, 3.0, size=len(v)) + c['scale'] * rng.normal(size=len(v))
    elif c['kind'] == 'near':
        y = v * (1 + 1e-6 * rng.normal(size=len(v)))
    elif c['kind'] == 'zero_data':
        y = np.zeros(len(v))
    elif c['kind'] == 'zero_tensor':
        y = c['scale'] * rng.normal(size=len(v))
    else:
        y = v.copy()
    Ia, ya = I, y
    if c['form'] == 'list':
        Ia, ya = I.tolist(), y.tolist()
    elif c['form'] == 'int32_float32' and 1e-30 < c['scale'] < 1e30:
        Ia, ya = I.astype(np.int32), y.astype(np.float32)
        y = ya.astype(float)
    if c['kind'] == 'none':
        Ia = None
    Ys = [G.copy() for G in Y]
    try:
        with warnings.catch_warnings():
            warnings.simplefilter('ignore')
            with np.errstate(all='ignore'):
                got = float(tn.accuracy_on_data(Y, Ia, ya))
    except Exception as e:  # noqa
        return fail('accuracy_on_data raised ' + repr(e)[:200])
    if not cores_equal(Y, Ys):
        return fail('accuracy_on_data modified the tensor')
    ref = dense_accuracy_on_data(Y, None if c['kind'] == 'none' else I, y)
    tol = 1e-9 * (1 + abs(ref)) if c['kind'] in ('far', 'zero_tensor', 'zero_data', 'none') else 1e-9 * (1 + abs(ref)) + 1e-12
    if not (feq(got, ref) or abs(got - ref) <= tol):
        return fail('accuracy_on_data differs from ||Y[I] - y|| / ||y||', got=got, expected=ref)
    return None



SCALE_EXPS = [0, 0, 60, -60, 200, -200]


def _scaled_ratio(F1, a, F2, b):
    """|| 2^a F1 - 2^b F2 || / || 2^b F2 ||  from dense arrays, without overflow (exact power-of-two rescaling)"""
    m = max(a, b)
    num = np.linalg.norm(np.ldexp(F1, a - m) - np.ldexp(F2, b - m))
    den = np.linalg.norm(F2)
    if not den > 0:
        return None
    return math.ldexp(float(num / den), m - b) if m - b < 1000 else float('inf')


def gen_acc(rng):
    if rng.random() < 0.2:
        return dict(kind='chain', d=rng.randint(320, 400), n=rng.randint(4, 10), c=rng.choice([1.0, 4.0, 4.0, 0.25]),
                    var=rng.choice(['core', 'scale']), k0=rng.random(), seed=rng.randrange(10 ** 6))
    d = rng.choice([2, 3, 3, 4])
    ns = [rng.randint(1, 4) for _ in range(d)]
    exps = [0, 0, 60, -60, 200, -200, 520, -520]
    while True:
        a, b = rng.choice(exps), rng.choice(exps)
        if abs(a - b) <= 400:
            break
    return dict(kind='small', ns=ns, r1=[1] + [rng.randint(1, 3) for _ in range(d - 1)] + [1],
                r2=[1] + [rng.randint(1, 3) for _ in range(d - 1)] + [1], a=a, b=b, seed=rng.randrange(10 ** 6),
                where=rng.randrange(d))


def oracle_acc(tn, c):
    """direct check of teneva.accuracy (the routine behind info[e]) against ||Y1 - Y2|| / ||Y2||: small tensors with
    either argument rescaled by 2^a / 2^b up to 2^+-520 (dense reference from exactly rescaled arrays), and long rank-1
    chains (d = 320..400) whose squared norms overflow / underflow while the ratio is ordinary (closed form)"""
    def fail(what, **kw):
        return dict(what='C05: ' + what, input=dict(acc=c), **kw)
    rng = np.random.default_rng(c['seed'])
    if c['kind'] == 'chain':
        d, n = c['d'], c['n']
        Y2 = [rng.uniform(0.5, 1.5, size=(1, n, 1)) * c['c'] for _ in range(d)]
        k0 = min(d - 1, int(c['k0'] * d))
        Y1 = [G.copy() for G in Y2]
        if c['var'] == 'core':
            delta = rng.normal(size=(1, n, 1)) * c['c'] * 2.0 ** -rng.integers(0, 8)
            Y1[k0] = Y2[k0] + delta
            ref = float(np.linalg.norm(Y1[k0] - Y2[k0]) / np.linalg.norm(Y2[k0]))
        else:
            Y1[k0] = Y2[k0] * (1 + 2.0 ** -10)
            ref = 2.0 ** -10
        tol = 1e-5 * ref + 1e-7
    else:
        d = len(c['ns'])
        Y1 = [rng.normal(size=(c['r1'][k], c['ns'][k], c['r1'][k + 1])) for k in range(d)]
        Y2 = [rng.normal(size=(c['r2'][k], c['ns'][k], c['r2'][k + 1])) for k in range(d)]
        F1, F2 = full(Y1), full(Y2)
        ref = _scaled_ratio(F1, c['a'], F2, c['b'])
        if ref is None or not np.isfinite(ref):
            return None
        # the factor 2^a is spread over the cores (a single core with entries above 2^512 cannot be squared: teneva's
        # stabilised inner product then raises OverflowError - not a silent error, outside this family)
        for Yx, ex in ((Y1, c['a']), (Y2, c['b'])):
            q_, r_ = divmod(ex, d)
            for k in range(d):
                Yx[k] = np.ldexp(Yx[k], q_ + (r_ if k == c['where'] else 0))
        tol = 1e-6 * ref + 1e-7 * (1 + ref)
    S1, S2 = [G.copy() for G in Y1], [G.copy() for G in Y2]
    try:
        with warnings.catch_warnings():
            warnings.simplefilter('ignore')
            with np.errstate(all='ignore'):
                got = float(tn.accuracy(Y1, Y2))
    except Exception as e:  # noqa
        return fail('accuracy raised ' + repr(e)[:200])
    if not (cores_equal(Y1, S1) and cores_equal(Y2, S2)):
        return fail('accuracy modified its arguments')
    if not abs(got - ref) <= tol:
        return fail('accuracy(Y1, Y2) is not ||Y1 - Y2|| / ||Y2||', got=got, expected=ref)
    return None


def gen_escale(rng):
    d = rng.choice([2, 3, 3, 4])
    ns = [rng.randint(2, 4) for _ in range(d)]
    rho = [1]
    for k in range(1, d):
        rho.append(rng.randint(1, min(3, int(np.prod(ns[:k])), int(np.prod(ns[k:])))))
    rho.append(1)
    for _ in range(d):
        for k in range(1, d):
            rho[k] = min(rho[k], rho[k - 1] * ns[k - 1], rho[k + 1] * ns[k])
    while True:
        a, b = rng.choice(SCALE_EXPS), rng.choice(SCALE_EXPS)
        if (a, b) != (0, 0):
            break
    return dict(ns=ns, rho=rho, r0=[1] * (d + 1), dr_min=1, dr_max=1, nswp=6, seed=rng.randrange(10 ** 6), kind='grow',
                cache=rng.random() < 0.4, vld=False, scale='1', a=a, b=b)


def _run_e(tn, f, Y0, c, e=1e-8):
    es, snaps = [], []

    def cb(Y, info, opts):
        es.append(float(info['e']))
        if not snaps:
            snaps.append([np.array(G, copy=True) for G in Y])
        return False
    info = {}
    with warnings.catch_warnings():
        warnings.simplefilter('ignore')
        with np.errstate(all='ignore'):
            Y = tn.cross(f, [G.copy() for G in Y0], e=e, nswp=c['nswp'], dr_min=c['dr_min'], dr_max=c['dr_max'],
                         info=info, cache=({} if c.get('cache') else None), cb=cb, m_cache_scale=10 ** 9)
    return Y, info, es, snaps


def oracle_escale(tn, c):
    """info[e] in other magnitude regimes: the objective rescaled by 2^a and the start Y0 by 2^b, independently and
    exactly.  Against the run at scale 1: same stop reason and sweep count, same e from the second sweep on (the ratio
    is scale-free), and the first-sweep e equal to || 2^a Y_1 - 2^b Y0 || / || 2^b Y0 || from exactly rescaled dense
    tensors"""
    def fail(what, **kw):
        return dict(what='C05: ' + what, input=dict(escale=c), **kw)
    A, Y0 = lowrank_target(c)
    a, b = c['a'], c['b']
    As = np.ldexp(A, a)
    Y0s = [G.copy() for G in Y0]
    Y0s[0] = np.ldexp(Y0s[0], b)
    try:
        Y1_, i1, e1, s1 = _run_e(tn, lambda I: A[tuple(np.asarray(I).T)], Y0, c)
        Ys_, is_, es, ss = _run_e(tn, lambda I: As[tuple(np.asarray(I).T)], Y0s, c)
    except Exception as ex:  # noqa
        return fail('cross raised ' + repr(ex)[:200])
    if i1['stop'] == 'conv' or is_['stop'] == 'conv':
        return None
    if (is_['stop'], is_['nswp']) != (i1['stop'], i1['nswp']) or len(es) != len(e1):
        return fail('rescaling objective / start by powers of two changes stop reason or sweep count',
                    got=[is_['stop'], is_['nswp'], es], expected=[i1['stop'], i1['nswp'], e1])
    for k in range(1, len(e1)):
        if not abs(es[k] - e1[k]) <= 1e-6 * abs(e1[k]) + 1e-7:
            return fail(f'info[e] of sweep {k + 1} changes under power-of-two rescaling', got=es[k], expected=e1[k])
    if e1 and s1:
        ref = _scaled_ratio(full(s1[0]), a, full(Y0), b)
        if ref is not None and ref < 2.0 ** 480 and ref > 2.0 ** -480:
            if not abs(es[0] - ref) <= 1e-5 * ref + 1e-7 * (1 + ref):
                return fail('first-sweep info[e] is not || 2^a Y_1 - 2^b Y0 || / || 2^b Y0 ||', got=es[0], expected=ref)
    err = np.linalg.norm(np.ldexp(full(Ys_), -a) - full(Y1_)) / max(np.linalg.norm(full(Y1_)), 1e-300)
    if not err <= 1e-9:
        return fail('the result of the rescaled run is not the rescaled result', got=float(err))
    return None


def gen_chain(rng):
    return dict(d=rng.randint(320, 400), n=rng.randint(8, 10), r0=rng.choice([1, 2]), seed=rng.randrange(10 ** 6),
                cache=False)


def _log2_norm_tt(Y):
    """log2 of the Frobenius norm of a TT-tensor by a Gram recursion with power-of-two rescaling (no teneva code)"""
    M = np.ones((1, 1))
    ex = 0
    for G in Y:
        G = np.asarray(G, dtype=float)
        M = sum(G[:, j, :].T @ M @ G[:, j, :] for j in range(G.shape[1]))
        m = float(np.abs(M).max())
        if not m > 0:
            return -np.inf
        k = int(math.floor(math.log2(m)))
        M = np.ldexp(M, -k)
        ex += k
    return 0.5 * (math.log2(float(M[0, 0])) + ex)


def oracle_chain(tn, c):
    """a long chain (d = 320..400, n = 8..10): rank-1 target with ordinary entries whose squared Frobenius norm
    (about (1.08 n)^d) overflows.  Closed-form reference: the target is reproduced by the first sweep, so the second
    sweep changes nothing: stop 'e' after exactly 2 sweeps with 0 <= e <= 1e-6; the first-sweep e is ||T|| / ||Y0|| (log2
    from the factor norms; saturation value 1e299 above 2^500); the result is exact on sampled entries"""
    def fail(what, **kw):
        return dict(what='C05: ' + what, input=dict(chain=c), **kw)
    rng = np.random.default_rng(c['seed'])
    d, n = c['d'], c['n']
    g = [rng.uniform(0.5, 1.5, size=n) for _ in range(d)]
    r0 = [1] + [c['r0']] * (d - 1) + [1]
    Y0 = [rng.uniform(0.5, 1.5, size=(r0[k], n, r0[k + 1])) / math.sqrt(n * r0[k]) for k in range(d)]

    def f(I):
        I = np.asarray(I)
        out = np.ones(len(I))
        for k in range(d):
            out = out * g[k][I[:, k]]
        return out
    cc = dict(nswp=5, dr_min=0, dr_max=0, cache=False)
    try:
        Ys_, is_, es, _ = _run_e(tn, f, Y0, cc, e=1e-6)
    except Exception as ex:  # noqa
        return fail('cross raised ' + repr(ex)[:200])
    if (is_['stop'], is_['nswp']) != ('e', 2) or len(es) != 2 or not 0 <= es[1] <= 1e-6:
        return fail('long chain: the run must stop by e after 2 sweeps (the second sweep does not change the tensor)',
                    got=[is_['stop'], is_['nswp'], es], expected=['e', 2])
    lr = sum(math.log2(float(np.linalg.norm(v))) for v in g) - _log2_norm_tt(Y0)
    if lr > 520:
        if es[0] != 1e299:
            return fail('long chain: first-sweep info[e] should saturate (ratio above 2^500)', got=es[0], log2_ratio=lr)
    elif 60 < lr < 480:
        if not (es[0] > 0 and abs(math.log2(es[0]) - lr) <= 1e-6 * lr + 1e-6):
            return fail('long chain: first-sweep info[e] is not ||T|| / ||Y0||', got=es[0], expected_log2=lr)
    I = np.array([[int(rng.integers(0, n)) for _ in range(d)] for _ in range(40)])
    ref = f(I)
    with np.errstate(all='ignore'):
        got = np.array([tn.get(Ys_, i) for i in I])
    if not np.all(np.abs(got - ref) <= 1e-8 * np.abs(ref)):
        return fail('long chain: rank-1 target not reproduced on sampled entries', got=float(got[0]), expected=float(ref[0]))
    return None



def gen_budget(rng):
    cfg = _pair_cfg(rng, small=rng.random() < 0.5)
    cfg.update(m=None, e=None, e_vld=None, hasI=False, hasy=False, kcb=None, kNone=None, scale=10 ** 6,
               nswp=rng.choice([1, 2, 2, 3]))
    cfg['cache'] = [] if cfg['cache'] is None else cfg['cache']
    cfg['delta'] = rng.choice([0, 0, 1, -1, 5])
    return cfg


def oracle_budget(tn, cfg):
    """budget taken from the cached run's own evaluation total m0: with m = m0 (or more) the cached run must be the
    unbudgeted cached run (cache hits do not count against the budget: same stop, sweeps, cores, m); with m = m0 - 1 it
    must stop by 'm' without exceeding the budget"""
    def fail(what, **kw):
        return dict(what='C05: ' + what, input=dict(budget=cfg), **kw)
    g = lambda I: L.gfun(cfg['a'], cfg['b'], cfg['p'], I)

    def call(m):
        info = {}
        cache = {tuple(i): float(v) for i, v in cfg['cache']}
        with warnings.catch_warnings():
            warnings.simplefilter('ignore')
            with np.errstate(all='ignore'):
                Y = tn.cross(lambda I: g(np.asarray(I)), L.make_Y0(cfg), m=m, nswp=cfg['nswp'], dr_min=cfg['dr_min'],
                             dr_max=cfg['dr_max'], info=info, cache=cache, m_cache_scale=cfg['scale'])
        return Y, info
    try:
        Y0_, i0 = call(None)
        m0 = int(i0['m'])
        if m0 < 2 or i0['stop'] != 'nswp':
            return None
        m = m0 + cfg['delta']
        Y1_, i1 = call(m)
    except Exception as e:  # noqa
        return fail('cross raised ' + repr(e)[:200])
    if cfg['delta'] >= 0:
        if (i1['stop'], i1['nswp'], i1['m'], i1['m_cache']) != (i0['stop'], i0['nswp'], i0['m'], i0['m_cache']) or \
                not cores_equal(Y0_, Y1_):
            return fail('a budget m >= the evaluation total of the unbudgeted cached run changes the cached run (cache '
                        'hits must not count against m)', m=m, got=[i1['stop'], i1['nswp'], i1['m'], i1['m_cache']],
                        expected=[i0['stop'], i0['nswp'], i0['m'], i0['m_cache']])
    else:
        if i1['stop'] != 'm' or i1['m'] > m:
            return fail('a budget below the evaluation total must stop the cached run by m within the budget', m=m,
                        got=[i1['stop'], i1['m']])
    return None


# ------------------------------------------------------------------------------------------------ correspondence

def _pair_cfg(rng, small=False):
    cfg = L.gen_cfg(rng, small=small)
    cfg['kNone'] = None
    if cfg['cache'] is None and rng.random() < 0.15:
        ns = cfg['ns']
        keys = {tuple(rng.randrange(n) for n in ns) for _ in range(rng.randint(1, 4))}
        cfg['cache'] = [(list(k), float(L.gfun(cfg['a'], cfg['b'], cfg['p'], [list(k)])[0])) for k in sorted(keys)]
    if rng.random() < 0.6:
        cfg['scale'] = 200              # keep the cache-specific stop out of the way most of the time
    if cfg['nswp'] is None:
        # with a cache nothing but "conv" ends a run whose requests are all cached and whose e is nan / -1: bound it
        cfg['nswp'] = rng.choice([4, 6])
    return cfg


def run_ltr(tn, c):
    """one run on a rank-rho target, interrupted right after the first left-to-right half sweep of the main loop, with
    recorders on teneva._maxvol and teneva.cross._iter"""
    cr = sys.modules['teneva.cross']
    A, Y0 = lowrank_target(c)
    d = len(c['ns'])
    rec = dict(mv=[], it=[], mvargs=[])
    o_mv, o_it = tn._maxvol, cr._iter

    def w_mv(Am, *a, **k):
        I, B = o_mv(Am, *a, **k)
        rec['mv'].append((np.array(Am, copy=True), [int(x) for x in I], np.array(B, copy=True)))
        rec['mvargs'].append(a)
        return I, B

    def w_it(Z, Ig, I, *a, **k):
        out = o_it(Z, Ig, I, *a, **k)
        rec['it'].append(dict(Z=np.array(Z, copy=True), I=None if I is None else np.array(I), ltr=k.get('ltr', True),
                              G=np.array(out[0], copy=True), R=np.array(out[1], copy=True), Inew=np.array(out[2])))
        return out

    ncall = [0]

    def f(I):
        k = ncall[0]
        ncall[0] += 1
        if k == d:
            return None
        return A[tuple(np.asarray(I).T)]

    info = {}
    tn._maxvol, cr._iter = w_mv, w_it
    try:
        with warnings.catch_warnings():
            warnings.simplefilter('ignore')
            with np.errstate(all='ignore'):
                Y = tn.cross(f, [G.copy() for G in Y0], nswp=3, dr_min=c['dr_min'], dr_max=c['dr_max'], info=info)
    finally:
        tn._maxvol, cr._iter = o_mv, o_it
    return dict(A=A, Y=Y, info=info, rec=rec, d=d)


def numeric_stream(R, ctx, tn):
    """numeric layer: (1) the identities the interpolation theorems start from, on every recorded _iter call of a
    left-to-right half sweep (core = Fortran reshape of B, new index rows = cand(ind), pending factor = Z[ind],
    B Q[ind] = Q, B Z[ind] = Z) and the utils._maxvol row-count window (the model itself is run by
    model_num_stream)"""
    rng = ctx['rng']
    idbad = []
    dist = dict(kinds={}, d={}, iters=0)
    for j in range(400 if ctx['thorough'] else 90):
        c = gen_small_growth(rng) if j % 3 == 2 else gen_lowrank(rng)
        c['cache'] = False
        if max(c['ns']) > 4 and len(c['ns']) > 3:
            continue
        o = run_ltr(tn, c)
        d, rec = o['d'], o['rec']
        if o['info'].get('stop') != 'func' or len(rec['it']) != 3 * d or len(rec['mv']) != 3 * d:
            idbad.append(dict(what='unexpected call structure', input=dict(lowrank=c),
                              got=[o['info'].get('stop'), len(rec['it']), len(rec['mv'])]))
            continue
        dist['kinds'][c['kind']] = dist['kinds'].get(c['kind'], 0) + 1
        dist['d'][d] = dist['d'].get(d, 0) + 1
        wbad = [w for w in (maxvol_window_bad(mv[0].shape, a, len(mv[1])) for mv, a in zip(rec['mv'], rec['mvargs']))
                if w]
        if wbad:
            idbad.append(dict(what='_maxvol row count outside the dr_min / dr_max window: ' + wbad[0],
                              input=dict(lowrank=c)))
            continue
        ps, L = [], [[]]
        for i in range(d):
            it, (Q, ind, B) = rec['it'][2 * d + i], rec['mv'][2 * d + i]
            dist['iters'] += 1
            Z = it['Z']
            r1, n, r2 = Z.shape
            Zm = Z.reshape((r1 * n, r2), order='F')
            sc = max(1e-300, float(np.abs(Zm).max()))
            tol = 1e-9 * max(1.0, float(np.abs(B).max())) * r1 * n
            why = None
            if not it['ltr']:
                why = 'not a left-to-right call'
            elif not np.array_equal(it['G'], B.reshape((r1, n, -1), order='F')):
                why = 'core is not the Fortran reshape of B: G[a, j, c] != B[a + r1 j, c]'
            elif [list(map(int, r)) for r in it['Inew'].tolist()] != [L[t % len(L)] + [t // len(L)] for t in ind]:
                why = 'new index rows are not cand(ind)'
            elif len(L) != r1 or not all(0 <= t < r1 * n for t in ind):
                why = 'row numbers out of range / left rank mismatch'
            elif np.abs(it['R'] - Zm[ind]).max() > tol * sc:
                why = 'pending factor R is not Z[ind]'
            elif np.abs(B @ Q[ind] - Q).max() > tol:
                why = 'maxvol contract B Q[ind] = Q violated'
            elif np.abs(B @ Zm[ind] - Zm).max() > tol * sc:
                why = 'B Z[ind] = Z violated'
            if why:
                idbad.append(dict(what=why, input=dict(lowrank=c), position=i))
                break
            ps.append((n, ind, B))
            L = [L[t % len(L)] + [t // len(L)] for t in ind]
        else:
            pass
    bad = []
    R.corr.append(dict(name='identities behind the interpolation theorems on recorded _iter / _maxvol calls',
                       cases=dist['iters'], mismatches=len(idbad),
                       comparison='exact: core == Fortran reshape of B, new index rows == cand(ind); 1e-9 relative: '
                                  'R == Z[ind], B Q[ind] == Q, B Z[ind] == Z',
                       distribution=dist, first_mismatches=idbad[:3]))
    return bad + [dict(input=['num', b['input']]) for b in idbad]


MODEL_HEADER = r"""
From Coq Require Import List ZArith Floats Bool Arith.
From TV Require Import Num.Ops Num.InstF Lin.Tab Lin.Mat TT.Chain Model.Cross Model.CrossNum.
Import ListNotations.
Definition fclose (s x y : float) : bool :=
  PrimFloat.leb (PrimFloat.abs (PrimFloat.sub x y)) (PrimFloat.mul TOL s).
Fixpoint lclose (s : float) (a b : list float) : bool :=
  match a, b with [], [] => true | x :: a', y :: b' => fclose s x y && lclose s a' b' | _, _ => false end.
Definition maxabs (l : list float) : float :=
  fold_left (fun m x => if PrimFloat.ltb m (PrimFloat.abs x) then PrimFloat.abs x else m) l 0%float.
(* equal up to 1e-9 of the largest entry of the recorded matrix (a zero matrix matches only itself) *)
Definition mclose (A B : mat float) : bool :=
  Nat.eqb (mr A) (mr B) && Nat.eqb (mc A) (mc B) &&
  lclose (maxabs (concat (md A))) (concat (md A)) (concat (md B)).
(* oracle instance: the recorded outputs of the real routine, looked up by the input matrix *)
Fixpoint lookup {X} (tbl : list (mat float * X)) (A : mat float) (dflt : X) : X :=
  match tbl with [] => dflt | (A0, x) :: t => if mclose A0 A then x else lookup t A dflt end.
Definition zm : mat float := mk_mat 0 0 [].
Definition flatidx (ns : list nat) (r : list nat) : nat :=
  fold_left (fun acc p => (acc * fst p + snd p)%nat) (combine ns r) O.
Definition showcore (G : @mcore (core float)) : list (list Z) :=
  [Z.of_nat (c1 G); Z.of_nat (cnn G); Z.of_nat (c2 G)]
  :: map (fun x => let (m, e) := F_show x in [m; e]) (concat (concat (dat (cp G)))).
Definition run_num (Y0 : list (nat * nat * nat * list (list (list float)))) (nswp drmin drmax : nat) (cache : bool)
    (kNone : option nat) (ns : list nat) (table : list float)
    (qrtbl : list (mat float * (mat float * mat float))) (mvtbl : list (mat float * (list nat * mat float)))
    (fuel : nat) : list (list (list Z)) :=
  let Y := map (fun s => match s with (r1, n, r2, d) => mkc r1 n r2 (mk_core r1 n r2 d) end) Y0 in
  let cf := mkcfg Y None None (Some nswp) None false false drmin drmax 200 (if cache then Some [] else None) in
  let f := fun (k : nat) (I : rows) =>
     match kNone with
     | Some k0 => if Nat.eqb k k0 then None else Some (map (fun r => nth (flatidx ns r) table nan) I)
     | None => Some (map (fun r => nth (flatidx ns r) table nan) I) end in
  let qr := fun Z => lookup qrtbl Z (zm, zm) in
  let mvI := fun (Q : mat float) (_ _ : nat) => fst (lookup mvtbl Q ([], zm)) in
  let mvB := fun (Q : mat float) (_ : list nat) => snd (lookup mvtbl Q ([], zm)) in
  match cross_num OF qr mvI mvB is_infinity f None (fun _ _ => 0%float) (fun _ _ _ => 0%float) (fun _ _ => 0%float)
          cf fuel with
  | Err er => [[[err_code er]]]
  | Ok s => [[Z.of_nat (stop_code (k_stop (sK s))); Z.of_nat (s_nswp s); Z.of_nat (k_m (sK s));
              Z.of_nat (k_mc (sK s))]] :: map showcore (sY s)
  end.
""".replace('TOL', '(' + C.flit(1e-9) + ')%float')


def _fmatlit(A):
    A = np.asarray(A, float)
    if A.ndim == 1:
        A = A.reshape(-1, 1)
    return f'(mk_mat {A.shape[0]} {A.shape[1]} {C.nested(A.tolist(), C.flit)}%float)'


def run_recorded(tn, c, kNone=None):
    """one cross run on a rank-rho target with recorders on numpy.linalg.qr (calls made by cross.py) and
    teneva._maxvol"""
    A, Y0 = lowrank_target(c)
    rec = dict(qr=[], mv=[], mvargs=[])
    o_mv, o_qr = tn._maxvol, np.linalg.qr

    def w_mv(Am, *a, **k):
        I, B = o_mv(Am, *a, **k)
        rec['mv'].append((np.array(Am, copy=True), [int(x) for x in I], np.array(B, copy=True)))
        rec['mvargs'].append(a)
        return I, B

    def w_qr(Z, *a, **k):
        out = o_qr(Z, *a, **k)
        if sys._getframe(1).f_code.co_filename.endswith('cross.py'):
            rec['qr'].append((np.array(Z, copy=True), np.array(out[0], copy=True), np.array(out[1], copy=True)))
        return out

    ncall = [0]

    def f(I):
        k = ncall[0]
        ncall[0] += 1
        if kNone is not None and k == kNone:
            return None
        return A[tuple(np.asarray(I).T)]

    info = {}
    cache = {} if c['cache'] else None
    tn._maxvol, np.linalg.qr = w_mv, w_qr
    try:
        with warnings.catch_warnings():
            warnings.simplefilter('ignore')
            with np.errstate(all='ignore'):
                Y = tn.cross(f, [G.copy() for G in Y0], nswp=c['nswp'], dr_min=c['dr_min'], dr_max=c['dr_max'],
                             info=info, cache=cache, m_cache_scale=200)
    finally:
        tn._maxvol, np.linalg.qr = o_mv, o_qr
    return dict(A=A, Y0=Y0, Y=Y, info=info, rec=rec, ncall=ncall[0])


def model_num_stream(R, ctx, tn):
    """the instantiated model Model/CrossNum.v (cross_num at the float instance, QR and maxvol replayed from the
    recorded calls by input matrix, objective = table of the target) against the implementation: returned cores to
    1e-9 of the largest entry of each core, stop / nswp / m / m_cache exactly"""
    rng = ctx['rng']
    items, meta = [], []
    dist = dict(kinds={}, d={}, interrupted=0, cache=0)
    for j in range(200 if ctx['thorough'] else 36):
        c = gen_small_growth(rng) if j % 4 == 3 else (gen_degenerate(rng) if j % 4 == 1 else gen_lowrank(rng))
        c['nswp'] = min(c['nswp'], rng.choice([1, 2]))
        if int(np.prod(c['ns'])) > 200 or max(c['r0']) > 4:
            continue
        kNone = None
        o = run_recorded(tn, c)
        if j % 3 == 1 and o['ncall'] > 1:
            kNone = rng.randrange(o['ncall'])
            o = run_recorded(tn, c, kNone)
            dist['interrupted'] += 1
        if len(o['rec']['qr']) > 40:
            continue
        dist['kinds'][c['kind']] = dist['kinds'].get(c['kind'], 0) + 1
        dist['d'][len(c['ns'])] = dist['d'].get(len(c['ns']), 0) + 1
        dist['cache'] += bool(c['cache'])
        Y0l = '[' + '; '.join(f'({G.shape[0]}, {G.shape[1]}, {G.shape[2]}, {C.nested(G.tolist(), C.flit)}%float)%nat'
                              for G in o['Y0']) + ']'
        qrt = '[' + '; '.join(f'({_fmatlit(Z)}, ({_fmatlit(Q)}, {_fmatlit(Rr)}))' for Z, Q, Rr in o['rec']['qr']) + ']'
        mvt = '[' + '; '.join(f'({_fmatlit(Q)}, ({C.natlist(ind)}, {_fmatlit(B)}))' for Q, ind, B in o['rec']['mv']) + ']'
        kn = 'None' if kNone is None else f'(Some {kNone}%nat)'
        term = (f"run_num {Y0l} {c['nswp']}%nat {c['dr_min']}%nat {c['dr_max']}%nat "
                f"{'true' if c['cache'] else 'false'} {kn} {C.natlist(c['ns'])} "
                f"{C.nested(o['A'].reshape(-1).tolist(), C.flit)}%float {qrt} {mvt} {c['nswp'] + 2}%nat")
        items.append(term)
        meta.append(dict(c=dict(c, kNone=kNone), o=o))
    vals = C.run_cases('C05_model', MODEL_HEADER, items, chunk=max(1, len(items) // 12)) if items else []
    bad = []
    for v, m in zip(vals, meta):
        R.add_distinct(('model', m['c']))
        o, info = m['o'], m['o']['info']
        why = None
        exp0 = [L.STOPS.get(info['stop'], 99), int(info['nswp']), int(info['m']), int(info['m_cache'])]
        if len(v) == 1 and len(v[0]) == 1 and len(v[0][0]) == 1:
            why = f'model returned error code {v[0][0][0]}'
        elif list(v[0][0]) != exp0:
            why = f'stop/nswp/m/m_cache: model {list(v[0][0])} impl {exp0}'
        elif len(v) - 1 != len(o['Y']):
            why = 'number of cores'
        else:
            for k, (cm, G) in enumerate(zip(v[1:], o['Y'])):
                G = np.asarray(G)
                if list(cm[0]) != list(G.shape):
                    why = f'core {k}: shape model {list(cm[0])} impl {list(G.shape)}'
                    break
                x = np.array([C.float_of_show(p) for p in cm[1:]]).reshape(G.shape) if G.size else np.zeros(G.shape)
                err = float(np.abs(x - G).max()) if G.size else 0.0
                if not err <= 1e-9 * max(float(np.abs(G).max()), 1e-300):
                    why = f'core {k}: max deviation {err:.3e} (largest entry {float(np.abs(G).max()):.3e})'
                    break
        if why:
            bad.append(dict(input=['model', dict(lowrank=m['c'])], why=why))
    R.corr.append(dict(name='instantiated model Model/CrossNum.v (float instance, replayed qr / maxvol) vs implementation',
                       cases=len(items), mismatches=len(bad),
                       comparison='every returned core entrywise to 1e-9 of its largest entry; core shapes, stop, nswp, m, '
                                  'm_cache exactly; complete and interrupted runs, with and without cache',
                       distribution=dist, first_mismatches=bad[:3]))
    if items:
        R.samples.append(dict(stream='cross_num', input=meta[0]['c'], model=str(vals[0][:2])[:300],
                              impl=[meta[0]['o']['info']['stop'], [list(np.shape(G)) for G in meta[0]['o']['Y']]]))
    return bad


def correspondence(R, ctx):
    tn = C.import_teneva()
    rng = ctx['rng']
    thorough = ctx['thorough']
    items = []
    dist = dict(pairs=0, lockstep=0, parted=0, rejected=0, d={}, stops={}, prefilled=0)
    pair_bad, info_bad = [], []
    npairs = 800 if thorough else 200
    for j in range(npairs):
        cfg = _pair_cfg(rng, small=(j % 3 == 0))
        keep = {}
        try:
            fl = oracle_pair(tn, cfg, keep)
        except L.TooLong:
            continue
        if 'ou' not in keep:
            continue
        dist['pairs'] += 1
        dist['d'][len(cfg['ns'])] = dist['d'].get(len(cfg['ns']), 0) + 1
        dist['prefilled'] += bool(keep['cc']['cache'])
        if keep['ou']['exc'] is not None:
            dist['rejected'] += 1
        else:
            dist['lockstep' if keep.get('lockstep') else 'parted'] += 1
            st = str(keep['ou']['info']['stop'])
            dist['stops'][st] = dist['stops'].get(st, 0) + 1
        if fl:
            pair_bad.append(fl)
        for tag, c_, o in (('uncached', keep['cu'], keep['ou']), ('cached', keep['cc'], keep['oc'])):
            items.append(dict(coq=L.coq_term(c_, o), impl=L.impl_result(c_, o), input=[tag, L.describe(c_)]))
            R.add_distinct(('pair', tag, L.describe(c_)))
            fi = oracle_info(tn, c_, o) if j % 2 == 0 or thorough else None
            if fi:
                info_bad.append(fi)
    bad = C.exact_corr(R, 'cross_replay_cached_uncached', L.HEADER, items, chunk=max(4, len(items) // 16),
                       norm=L.norm_model_full, distribution=dist)
    R.corr.append(dict(name='cached / uncached pairs on the implementation (instances of C05_cache_transparent, '
                            'C05_cache_content)', cases=dist['pairs'], mismatches=len(pair_bad),
                       comparison='returned cores bitwise, nswp, stop, info r/e/e_vld bitwise, m_cached <= m_uncached, '
                                  'm + m_cache = m_uncached, cache == initial + evaluated pairs (exact dict equality)',
                       distribution=dict(lockstep=dist['lockstep'], parted=dist['parted']),
                       first_mismatches=pair_bad[:3]))
    R.corr.append(dict(name='info of the returned tensor (instances of C05_info_consistent)', cases=len(items) // 2,
                       mismatches=len(info_bad),
                       comparison='info r / e_vld / e recomputed on the returned cores (bitwise); reference of e = '
                                  'copy made at sweep start = independent snapshot of the previous sweep',
                       distribution={}, first_mismatches=info_bad[:3]))
    abad, na_ = [], 0
    for _ in range(600 if thorough else 150):
        c = gen_accdata(rng)
        na_ += 1
        R.add_distinct(('accdata', c))
        fl = oracle_accdata(tn, c)
        if fl:
            abad.append(fl)
    R.corr.append(dict(name='teneva.accuracy_on_data (the routine behind info[e_vld]) vs dense ||Y[I] - y|| / ||y||',
                       cases=na_, mismatches=len(abad), comparison='1e-9 relative; -1 for missing / all-zero data',
                       distribution=dict(kinds=['far', 'near', 'exact', 'zero_data', 'zero_tensor', 'none'],
                                         forms=['array', 'list', 'int32_float32']), first_mismatches=abad[:3]))
    bbad, nb_ = [], 0
    for j in range(400 if thorough else 80):
        c = gen_budget(rng)
        nb_ += 1
        R.add_distinct(('budget', L.describe(c), c['delta']))
        fl = oracle_budget(tn, c)
        if fl:
            bbad.append(fl)
    R.corr.append(dict(name='cached runs with a budget taken from their own evaluation total (m0, m0+1, m0+5, m0-1)',
                       cases=nb_, mismatches=len(bbad),
                       comparison='m >= m0: stop, nswp, m, m_cache, cores identical to the unbudgeted cached run; '
                                  'm = m0-1: stop m within the budget', distribution={}, first_mismatches=bbad[:3]))
    ebad, ne_ = [], 0
    for j in range(1500 if thorough else 300):
        c = gen_acc(rng)
        ne_ += 1
        R.add_distinct(('acc', c))
        fl = oracle_acc(tn, c)
        if fl:
            ebad.append(fl)
    for j in range(200 if thorough else 40):
        c = gen_escale(rng)
        ne_ += 1
        R.add_distinct(('escale', c))
        fl = oracle_escale(tn, c)
        if fl:
            ebad.append(fl)
    for j in range(4 if thorough else 1):
        c = gen_chain(rng)
        ne_ += 1
        R.add_distinct(('chain', c))
        fl = oracle_chain(tn, c)
        if fl:
            ebad.append(fl)
    R.corr.append(dict(name='info[e] / teneva.accuracy in other magnitude regimes: arguments rescaled by 2^+-60 .. 2^+-520, '
                            'objective and start rescaled independently, long chains (d = 320..400) with overflowing '
                            'squared norms', cases=ne_, mismatches=len(ebad),
                       comparison='dense / closed-form reference of ||Y1 - Y2|| / ||Y2|| (1e-6 relative); stop, nswp and e '
                                  'of later sweeps equal to the run at scale 1',
                       distribution={}, first_mismatches=ebad[:3]))
    rbad, nr_ = [], 0
    for _ in range(300 if thorough else 70):
        cfg = dict(_pair_cfg(rng, small=rng.random() < 0.4), ret=rng.choice(RET_FORMS))
        nr_ += 1
        R.add_distinct(('ret', L.describe(cfg), cfg['ret']))
        fl = oracle_ret_pair(tn, cfg)
        if fl:
            rbad.append(fl)
    R.corr.append(dict(name='objective-return forms (float64 / float32 / float16 / int64 / int32 / list / non-contiguous) '
                            'in cached / uncached pairs', cases=nr_, mismatches=len(rbad),
                       comparison='cores float64 and bitwise equal to the float64-objective run, with and without cache; '
                                  'info r/e/e_vld bitwise; cache values Python floats',
                       distribution=dict(forms=RET_FORMS), first_mismatches=rbad[:3]))
    pair_bad = pair_bad + rbad + abad + ebad + bbad
    hbad, nh = [], 0
    for _ in range(300 if thorough else 60):
        h = gen_history(rng)
        nh += 1
        R.add_distinct(('history', h))
        fl = oracle_history(tn, h)
        if fl:
            hbad.append(fl)
    R.corr.append(dict(name='call histories: 2-3 cross calls sharing one info dict / the module default info, each vs the '
                            'same call with a fresh info', cases=nh, mismatches=len(hbad),
                       comparison='cores bitwise, nswp, stop, m, m_cache, r, e, e_vld, m_max, with_cache, cache dict',
                       distribution={}, first_mismatches=hbad[:3]))
    fbad, nf_ = [], 0
    for _ in range(400 if thorough else 80):
        c = gen_forms(rng)
        nf_ += 1
        R.add_distinct(('forms', c))
        fl = oracle_forms(tn, c)
        if fl:
            fbad.append(fl)
    R.corr.append(dict(name='argument forms vs canonical form (int / F-ordered / non-contiguous / tuple cores, NumPy scalar '
                            'and float stop arguments, list / int32 / float32 validation data, explicit defaults)',
                       cases=nf_, mismatches=len(fbad),
                       comparison='stop, nswp, m, m_cache, m_max, ranks, cache exactly; tensor to 1e-9; r, e, e_vld to 1e-6',
                       distribution=dict(forms=FORMS, may_raise=sorted(MAY_RAISE)), first_mismatches=fbad[:3]))
    obad, no_ = [], 0
    for _ in range(300 if thorough else 60):
        h = gen_objhist(rng)
        no_ += 1
        R.add_distinct(('objhist', h))
        fl = oracle_objhist(tn, h)
        if fl:
            obad.append(fl)
    R.corr.append(dict(name='histories on the same Y0 / I_vld / y_vld / cache objects', cases=no_, mismatches=len(obad),
                       comparison='arguments bit-identical afterwards, no aliasing, cache only grows by objective values, '
                                  'result bitwise equal to the call on fresh copies without cache',
                       distribution={}, first_mismatches=obad[:3]))
    hbad = hbad + fbad + obad
    bad_num = numeric_stream(R, ctx, tn) + model_num_stream(R, ctx, tn)
    return bad + [dict(input=['pair', f['input']]) for f in pair_bad + info_bad + hbad] + bad_num


# ------------------------------------------------------------------------------------------------ search

def search(R, ctx, deep, hints):
    tn = C.import_teneva()
    rng = ctx['rng']
    fails = []
    n1 = n2 = n3 = 0
    # 1. exactness on rank-rho targets
    err_hist = []
    for h in hints[:30]:
        try:
            inp = h['input'][1]
            if isinstance(inp, dict) and isinstance(inp.get('lowrank'), dict):
                f = oracle_exact(tn, dict(inp['lowrank']))
                if f:
                    f['kind'] = 'exact'
                    fails.append(f)
        except Exception:
            pass
    for j in range(4000 if deep else 600):
        c = gen_small_growth(rng) if j % 3 == 2 else (gen_degenerate(rng) if j % 6 == 1 else
                                                      (gen_lowrank_ret(rng) if j % 6 == 4 else gen_lowrank(rng)))
        n1 += 1
        f = oracle_exact(tn, c)
        if f:
            f['kind'] = 'exact'
            fails.append(f)
            if len(fails) >= 4:
                break
    R.search.append(dict(name='C05 oracle: rank-rho target through an element oracle is reproduced (dense comparison, '
                              'rel 1e-6); fixed-rank start, rank growth, over-ranked start; d=2, n=1, cache, validation',
                         evaluations=n1, failures=len(fails), deep=deep))
    # 2. cache transparency + info consistency on fresh configurations (hints first)
    cand = []
    for h in hints[:20]:
        try:
            cand.append(h['input'][1])
        except Exception:
            pass
    for _ in range(800 if deep else 100):
        cand.append(_pair_cfg(rng))
    for _ in range(500 if deep else 80):
        cand.append(dict(_pair_cfg(rng, small=rng.random() < 0.4), ret=rng.choice(RET_FORMS)))
    k0 = len(fails)
    for cfg in cand:
        if not (isinstance(cfg, dict) and 'ns' in cfg):
            continue
        cfg = dict(cfg)
        if cfg.get('cache') is not None:
            cfg['cache'] = [(list(k), v) for k, v in cfg['cache']]
        n2 += 1
        keep = {}
        if cfg.get('ret'):
            f = oracle_ret_pair(tn, cfg)
            if f:
                f['kind'] = 'ret'
                fails.append(f)
            continue
        f = oracle_pair(tn, cfg, keep)
        if f:
            f['kind'] = 'pair'
            fails.append(f)
        elif 'oc' in keep:
            n3 += 1
            f = oracle_info(tn, keep['cc'], keep['oc']) or oracle_info(tn, keep['cu'], keep['ou'])
            if f:
                f['kind'] = 'info'
                fails.append(f)
        if len(fails) - k0 >= 4:
            break
    R.search.append(dict(name='C05 oracle: cached vs uncached run (cores bitwise, counters, dictionary) and info of the '
                              'returned tensor', evaluations=n2 + n3, failures=len(fails) - k0, deep=deep))
    # 3. call histories sharing info
    k1, n4 = len(fails), 0
    hs = []
    for h in hints[:30]:
        try:
            inp = h['input'][1]
            if isinstance(inp, dict) and isinstance(inp.get('history'), dict):
                hs.append(inp['history'])
        except Exception:
            pass
    for _ in range(600 if deep else 80):
        hs.append(gen_history(rng))
    for h in hs:
        n4 += 1
        f = oracle_history(tn, h)
        if f:
            f['kind'] = 'history'
            fails.append(f)
            if len(fails) - k1 >= 3:
                break
    R.search.append(dict(name='C05 oracle: sequences of cross calls sharing one info dict / the default info vs fresh calls',
                         evaluations=n4, failures=len(fails) - k1, deep=deep))
    # 4. argument forms, histories on the same argument objects
    k2, n5 = len(fails), 0
    fs, os_ = [], []
    for h in hints[:40]:
        try:
            inp = h['input'][1]
            if isinstance(inp, dict) and isinstance(inp.get('forms'), dict):
                fs.append(inp['forms'])
            if isinstance(inp, dict) and isinstance(inp.get('objhist'), dict):
                os_.append(inp['objhist'])
        except Exception:
            pass
    fs += [gen_forms(rng) for _ in range(600 if deep else 100)]
    os_ += [gen_objhist(rng) for _ in range(400 if deep else 60)]
    for key, orc, gen, cnt in (('budget', oracle_budget, gen_budget, 500 if deep else 80),
                               ('acc', oracle_acc, gen_acc, 1500 if deep else 300),
                               ('escale', oracle_escale, gen_escale, 300 if deep else 40),
                               ('chain', oracle_chain, gen_chain, 4 if deep else 1)):
        cs = []
        for h in hints[:60]:
            try:
                inp = h['input'][1]
                if isinstance(inp, dict) and isinstance(inp.get(key), dict):
                    cs.append(inp[key])
            except Exception:
                pass
        cs += [gen(rng) for _ in range(cnt)]
        for c in cs:
            n5 += 1
            f = orc(tn, c)
            if f:
                f['kind'] = key
                fails.append(f)
                break
    acs = []
    for h in hints[:40]:
        try:
            inp = h['input'][1]
            if isinstance(inp, dict) and isinstance(inp.get('accdata'), dict):
                acs.append(inp['accdata'])
        except Exception:
            pass
    acs += [gen_accdata(rng) for _ in range(800 if deep else 150)]
    for c in acs:
        n5 += 1
        f = oracle_accdata(tn, c)
        if f:
            f['kind'] = 'accdata'
            fails.append(f)
            break
    for c in fs:
        n5 += 1
        f = oracle_forms(tn, c)
        if f:
            f['kind'] = 'forms'
            fails.append(f)
            if len(fails) - k2 >= 3:
                break
    for h in os_:
        n5 += 1
        f = oracle_objhist(tn, h)
        if f:
            f['kind'] = 'objhist'
            fails.append(f)
            if len(fails) - k2 >= 5:
                break
    R.search.append(dict(name='C05 oracle: argument forms vs canonical form; calls on reused argument objects',
                         evaluations=n5, failures=len(fails) - k2, deep=deep))
    return fails


def replay(data):
    tn = C.import_teneva()
    p = data['payload']
    print(data['what'])
    inp = p.get('input')
    if isinstance(inp, dict) and isinstance(inp.get('lowrank'), dict):
        f = oracle_exact(tn, inp['lowrank'])
        print('replayed:', f)
        return 1 if f else 0
    for key, orc in (('acc', oracle_acc), ('escale', oracle_escale), ('chain', oracle_chain), ('budget', oracle_budget)):
        if isinstance(inp, dict) and isinstance(inp.get(key), dict):
            f = orc(tn, inp[key])
            print('replayed:', f)
            return 1 if f else 0
    if isinstance(inp, dict) and isinstance(inp.get('accdata'), dict):
        f = oracle_accdata(tn, inp['accdata'])
        print('replayed:', f)
        return 1 if f else 0
    if isinstance(inp, dict) and isinstance(inp.get('forms'), dict):
        f = oracle_forms(tn, inp['forms'])
        print('replayed:', f)
        return 1 if f else 0
    if isinstance(inp, dict) and isinstance(inp.get('objhist'), dict):
        f = oracle_objhist(tn, inp['objhist'])
        print('replayed:', f)
        return 1 if f else 0
    if isinstance(inp, dict) and isinstance(inp.get('forms'), dict):
        f = oracle_forms(tn, inp['forms'])
        print('replayed:', f)
        return 1 if f else 0
    if isinstance(inp, dict) and isinstance(inp.get('objhist'), dict):
        f = oracle_objhist(tn, inp['objhist'])
        print('replayed:', f)
        return 1 if f else 0
    if isinstance(inp, dict) and isinstance(inp.get('history'), dict):
        f = oracle_history(tn, inp['history'])
        print('replayed:', f)
        return 1 if f else 0
    if isinstance(inp, dict) and 'ns' in inp:
        cfg = dict(inp)
        if cfg.get('cache') is not None:
            cfg['cache'] = [(list(k), v) for k, v in cfg['cache']]
        if cfg.get('ret'):
            f = oracle_ret_pair(tn, cfg)
        else:
            f = oracle_pair(tn, cfg) or oracle_info(tn, dict(cfg, kNone=None)) or \
                oracle_info(tn, dict(cfg, cache=None, kNone=None))
        print('replayed:', f)
        return 1 if f else 0
    return 1
