"""C17 — QTT conversion and index maps."""
import itertools
import numpy as np
from harness import common as C

THEOREMS = 'Properties/C17.v'
CLAIM = dict(
    text='Index maps: Coq theorems for every d and every q>=1 (both compositions are the identity, lengths, '
         'rejection of non-powers of two) about the model Model/GridInd.v; the model is tied to grid.py by exact, '
         'exhaustive correspondence over every multi-index with q*d<=8 (12 thorough) plus a malformed stream.',
    note='Trusted: Coq kernel, vm_compute for case evaluation, the hand-written model (validated by the '
         'correspondence), numpy ravel/unravel semantics.',
    technique='Coq proof (induction over digits) + exhaustive model/implementation correspondence')
TRUSTED = ['Coq 8.16.1 kernel + vm_compute (case evaluation only)',
           'hand-written model Model/GridInd.v tied to grid.py by exhaustive exact correspondence',
           'np.unravel_index / np.ravel_multi_index semantics (order=F) as modelled by bits_le / unbits_le']
HEADER = ('From Coq Require Import List ZArith.\nFrom TV Require Import Num.Ops Model.GridInd.\n'
          'Import ListNotations.\n'
          'Definition showR (r : result (list (list nat))) : list (list nat) := '
          'match r with Ok l => [0%nat] :: l | Err e => [[Z.to_nat (err_code e)]] end.\n'
          'Definition showR1 (r : result (list nat)) : list (list nat) := '
          'match r with Ok l => [[0%nat]; l] | Err e => [[Z.to_nat (err_code e)]] end.\n')


def _impl(f, *a):
    r = C.call_impl(f, *a)
    if r[0] != 0:
        return [[r[0]]]
    v = r[1]
    if v and not isinstance(v[0], list):
        return [[0], v]
    return [[0]] + v


def correspondence(R, ctx):
    tn = C.import_teneva()
    rng = ctx['rng']
    bound = 12 if ctx['thorough'] else 8
    items = []
    dist = dict(exhaustive_qd=[], malformed=0, random_large=0)
    # exhaustive: every multi-index for q*d <= bound, as one batch per (d, q); plus singles on a sample
    for d in range(1, bound + 1):
        for q in range(1, bound // d + 1):
            n = 2 ** q
            I = [list(t) for t in itertools.product(range(n), repeat=d)]
            dist['exhaustive_qd'].append([d, q, len(I)])
            Iq = tn.ind_tt_to_qtt(np.array(I), n)
            items.append(dict(coq=f'showR (ind_tt_to_qtt {n} {C.nested(I, str)})',
                              impl=_impl(tn.ind_tt_to_qtt, np.array(I), n), input=['tt_to_qtt', d, q, 'all']))
            B = [list(t) for t in itertools.product(range(2), repeat=d * q)]
            items.append(dict(coq=f'showR (ind_qtt_to_tt {q} {C.nested(B, str)})',
                              impl=_impl(tn.ind_qtt_to_tt, np.array(B), q), input=['qtt_to_tt', d, q, 'all']))
            for i in rng.sample(I, min(4, len(I))):
                items.append(dict(coq=f'showR1 (ind_tt_to_qtt1 {n} {C.nested(i, str)})',
                                  impl=_impl(tn.ind_tt_to_qtt, i, n), input=['tt_to_qtt1', i, n]))
            for b in rng.sample(B, min(4, len(B))):
                items.append(dict(coq=f'showR1 (ind_qtt_to_tt1 {q} {C.nested(b, str)})',
                                  impl=_impl(tn.ind_qtt_to_tt, b, q), input=['qtt_to_tt1', b, q]))
    # random larger q, d
    for _ in range(60 if not ctx['thorough'] else 400):
        d, q = rng.randint(1, 9), rng.randint(1, 11)
        n = 2 ** q
        i = [rng.randrange(n) for _ in range(d)]
        if rng.random() < 0.3:
            i[rng.randrange(d)] = rng.choice([0, n - 1])
        dist['random_large'] += 1
        items.append(dict(coq=f'showR1 (ind_tt_to_qtt1 {n} {C.nested(i, str)})',
                          impl=_impl(tn.ind_tt_to_qtt, i, n), input=['tt_to_qtt1', i, n]))
        b = [rng.randrange(2) for _ in range(d * q)]
        items.append(dict(coq=f'showR1 (ind_qtt_to_tt1 {q} {C.nested(b, str)})',
                          impl=_impl(tn.ind_qtt_to_tt, b, q), input=['qtt_to_tt1', b, q]))
    # malformed stream: not a power of two, index out of range, digit out of range
    for n in [3, 5, 6, 7, 9, 10, 12, 15, 17, 24, 100, 1023, 1025, 2047]:
        i = [rng.randrange(n) for _ in range(rng.randint(1, 4))]
        dist['malformed'] += 1
        items.append(dict(coq=f'showR1 (ind_tt_to_qtt1 {n} {C.nested(i, str)})',
                          impl=_impl(tn.ind_tt_to_qtt, i, n), input=['tt_to_qtt1-badn', i, n]))
    for q in [1, 2, 3, 5]:
        n = 2 ** q
        for bad in [n, n + 1, 2 * n]:
            i = [rng.randrange(n) for _ in range(3)]
            i[rng.randrange(3)] = bad
            dist['malformed'] += 1
            items.append(dict(coq=f'showR1 (ind_tt_to_qtt1 {n} {C.nested(i, str)})',
                              impl=_impl(tn.ind_tt_to_qtt, i, n), input=['tt_to_qtt1-range', i, n]))
        b = [rng.randrange(2) for _ in range(2 * q)]
        b[rng.randrange(2 * q)] = 2
        dist['malformed'] += 1
        items.append(dict(coq=f'showR1 (ind_qtt_to_tt1 {q} {C.nested(b, str)})',
                          impl=_impl(tn.ind_qtt_to_tt, b, q), input=['qtt_to_tt1-digit', b, q]))
    bad = C.exact_corr(R, 'index_maps', HEADER, items, chunk=40, distribution=dist)
    return bad


def _oracle(tn, i, q):
    """property-level oracle, independent of the model: little-endian digits, inverse maps, batch = singles"""
    n = 2 ** q
    b = np.asarray(tn.ind_tt_to_qtt(i, n)).tolist()
    exp = [(x >> k) & 1 for x in i for k in range(q)]
    if b != exp:
        return dict(what='ind_tt_to_qtt is not the little-endian bit string', input=[i, q], got=b, expected=exp)
    back = np.asarray(tn.ind_qtt_to_tt(b, q)).tolist()
    if back != list(i):
        return dict(what='ind_qtt_to_tt(ind_tt_to_qtt(i)) != i', input=[i, q], got=back, expected=list(i))
    return None


def search(R, ctx, deep, hints):
    tn = C.import_teneva()
    rng = ctx['rng']
    fails, n_eval = [], 0
    cand = []
    for h in hints:
        inp = h['input']
        if inp[0] == 'tt_to_qtt1':
            cand.append((inp[1], int(np.log2(inp[2]))))
        if inp[0] in ('tt_to_qtt',):
            d, q = inp[1], inp[2]
            cand += [(list(t), q) for t in itertools.product(range(2 ** q), repeat=d)]
        if inp[0] == 'qtt_to_tt':
            d, q = inp[1], inp[2]
            cand += [([sum(b[j * q + k] << k for k in range(q)) for j in range(d)], q)
                     for b in itertools.product(range(2), repeat=d * q)]
        if inp[0] == 'qtt_to_tt1':
            b, q = inp[1], inp[2]
            cand.append(([sum(b[j * q + k] << k for k in range(q)) for j in range(len(b) // q)], q))
    bound = 10 if deep else 6
    for d in range(1, bound + 1):
        for q in range(1, bound // d + 1):
            cand += [(list(t), q) for t in itertools.product(range(2 ** q), repeat=d)]
    for _ in range(2000 if deep else 200):
        d, q = rng.randint(1, 8), rng.randint(1, 24)
        cand.append(([rng.randrange(2 ** q) for _ in range(d)], q))
    for i, q in cand:
        n_eval += 1
        try:
            f = _oracle(tn, i, q)
        except Exception as e:
            f = dict(what='index map raised on a valid index: ' + repr(e)[:200], input=[i, q])
        if f:
            fails.append(f)
            if len(fails) >= 5:
                break
    # batch = map of singles
    for _ in range(50):
        d, q, m = rng.randint(1, 5), rng.randint(1, 6), rng.randint(1, 6)
        I = [[rng.randrange(2 ** q) for _ in range(d)] for _ in range(m)]
        n_eval += 1
        try:
            A = np.asarray(tn.ind_tt_to_qtt(np.array(I), 2 ** q)).tolist()
            S = [np.asarray(tn.ind_tt_to_qtt(i, 2 ** q)).tolist() for i in I]
            Bk = np.asarray(tn.ind_qtt_to_tt(np.array(A), q)).tolist()
            if A != S or Bk != I:
                fails.append(dict(what='batch index map differs from single-index map', input=[I, q], got=[A, Bk]))
        except Exception as e:
            fails.append(dict(what='batch index map raised: ' + repr(e)[:200], input=[I, q]))
    # rejection
    for n in [3, 6, 12, 100]:
        n_eval += 1
        try:
            tn.ind_tt_to_qtt([1], n)
            fails.append(dict(what='non-power-of-two mode size accepted', input=[[1], n]))
        except ValueError:
            pass
        except Exception as e:
            fails.append(dict(what='non-power-of-two mode size: wrong exception ' + repr(e)[:100], input=[[1], n]))
    R.search.append(dict(name='index maps oracle (bit arithmetic)', evaluations=n_eval, failures=len(fails), deep=deep))
    return fails


def replay(data):
    tn = C.import_teneva()
    p = data['payload']
    print(data['what'], p.get('input'))
    if 'input' in p and isinstance(p['input'], list) and len(p['input']) == 2 and isinstance(p['input'][1], int):
        f = _oracle(tn, p['input'][0], p['input'][1])
        print('replayed:', f)
        return 1 if f else 0
    return 1
