"""C17 — QTT conversion and index maps."""
import itertools
import numpy as np
from harness import common as C

THEOREMS = 'Properties/C17.v'
CLAIM = dict(
    text='Coq theorems (Properties/C17.v). Index maps (Model/GridInd.v), every d and q>=1: both compositions are the '
         'identity, lengths, rejection of non-powers of two (C17_ind_*). Conversions (Model/Qtt.v), every commutative '
         'ring, every d, q>=1 and rank profile: qtt_to_tt returns d cores of mode size 2^q whose ranks are the QTT-ranks at '
         'the mode boundaries and whose entry at a multi-index equals the QTT entry at its little-endian binary expansion '
         '(C17_qtt_to_tt_denote, C17_qtt_to_tt_shape); tt_to_qtt, when every truncated factorisation is exact (A = U V: '
         'nothing is cut), returns d*q cores of mode size 2 with boundary ranks 1 whose entry at the binary expansion equals '
         'the original entry (C17_tt_to_qtt_denote, C17_core_tt_to_qtt_spec), keeps the TT-ranks on the bonds between modes '
         'and has every bond inside a mode equal to an inner size of a factorisation, hence <= the cap '
         '(C17_tt_to_qtt_ranks); at the reals, with e = 0, the MODEL of matrix_svd (Model/Svd.v) is such an exact '
         'factorisation on every non-empty matrix whose smaller dimension is below the cap, for every eigh / argsort routine '
         'meeting their contracts, so the conversion theorem holds with matrix_svd itself on those calls '
         '(C17_matrix_svd_exact_e0, C17_tt_to_qtt_denote_matrix_svd; uses property C02\'s step contract); '
         'a non-power-of-two mode size is rejected with ValueError before any factorisation '
         '(C17_core_tt_to_qtt_rejects). Genuine truncation, ONE TT-core (core_tt_to_qtt, mode size 2^d, d>=1, any boundary '
         'ranks): over every commutative ring, if at each of the d factorisation calls that the run actually makes the '
         'returned V has orthonormal rows and U = A V^T, then the squared Frobenius error of the returned chain against the '
         'core (entries read at the little-endian digits of the mode index, open boundary indices) EQUALS the sum of the '
         'squared residuals |A_k - U_k V_k|^2 of those calls (C17_core_tt_to_qtt_error; Pythagoras holds although Y[0] is '
         'multiplied by V0 after the loop, because V0 and all later V are isometries on row spaces), and it is the distance '
         'to the core that core_qtt_to_tt rebuilds (C17_core_err2_merged); at the reals, under property C02\'s weaker step '
         'contract (rows of V orthogonal, of norm 1 or 0) the error is <= that sum (C17_core_tt_to_qtt_error_le_R), so if '
         'every residual is <= e^2 the Frobenius distance is <= sqrt(d) e (C17_core_tt_to_qtt_error_R, _proj_R), and this '
         'holds with the MODEL of matrix_svd itself, same e and r at every call, for every eigh / argsort routine meeting '
         'their contracts, non-empty boundary ranks and a cap above r1*n so that it never binds '
         '(C17_core_tt_to_qtt_error_matrix_svd); non-vacuity: a run over Qc in which both calls cut something '
         '(C17_trunc_error_example). WHOLE TENSOR, at the reals (tt_to_qtt over d cores, boundary ranks 1, every mode size '
         '2^q, q>=1, every rank profile): if every core meets the per-core hypotheses (step contract and residual <= e^2 at '
         'every call the run on that core makes), then, with c = sqrt(q) e and |G| the Frobenius norm of a core, the Frobenius '
         'distance between the tensor and the QTT result read at the binary expansion of the multi-index is '
         '<= sum_j c prod_{l<j}(|G_l|+c) prod_{l>j}|G_l| (stated recursively as pbound), which is <= sum_j c prod_{l<>j}(|G_l|+c) '
         '(sbound, the form the search applies) (C17_tt_to_qtt_error_R, _proj_R; via the general chain perturbation bound '
         'C17_chain_perturbation and sub-multiplicativity C17_chain_norm: telescoping over the cores, Cauchy-Schwarz at each '
         'bond, Minkowski); with the MODEL of matrix_svd on every core (same e, r), ranks >= 1 and a cap above r1*n of every '
         'core, the conversion succeeds and the bound holds (C17_tt_to_qtt_error_matrix_svd); non-vacuity: a two-core run at '
         'the reals whose first core is genuinely truncated (C17_tt_to_qtt_error_example). PARTIAL: the case of a binding cap '
         '(rank limit r reached) is not proved; it is checked numerically by the search (dense reference). The whole-tensor '
         'theorems take the same mode size 2^q for every core (as the denotation theorems do). '
         'Mode size 1 (= 2^0) is outside the model (teneva returns a malformed core or raises depending on parity).',
    note='Trusted: Coq kernel, vm_compute for case evaluation, the hand-written models (validated by the correspondence: '
         'index maps exhaustively for q*d<=8 (12 thorough) plus a malformed stream; qtt_to_tt exactly on integer cores (Z '
         'instance); tt_to_qtt at the PrimFloat instance with the recorded matrix_svd outputs replayed by (core, call) number, '
         'cores compared to 1e-12), numpy ravel/unravel/reshape/tensordot/hstack semantics as re-expressed in the models. '
         'matrix_svd is an oracle here (its own contract is property C02); IEEE rounding is outside the theorems.',
    technique='Coq proof (induction over digits; loop invariant of the halving sweep over an abstract ring; Pythagoras '
              'per projection step, one induction over an abstract comparison instantiated by = and by <= on R; Cauchy-Schwarz / '
              'Minkowski for abstract positive linear functionals, induction over the list of cores) + exhaustive / '
              'exact / replayed model-implementation correspondence + dense reference search')
TRUSTED = ['Coq 8.16.1 kernel + vm_compute (case evaluation only)',
           'hand-written models Model/GridInd.v, Model/Qtt.v tied to grid.py / core.py / act_one.py by the correspondence',
           'np.unravel_index / np.ravel_multi_index semantics (order=F) as modelled by bits_le / unbits_le',
           'oracle contract fac_ok (A = U V, shapes) for teneva.matrix_svd in the exact-conversion theorems; its outputs are '
           'recorded and replayed in the correspondence, and validated numerically (residual) on every recorded call',
           'oracle contracts trunc_ok (V V^T = I, U = A V^T) / fact_ok (property C02) in the one-core error theorems; for the '
           'model of matrix_svd they are derived from the eigh / argsort contracts (Proofs/TruncP5.v svd_contract)']
HEADER = ('From Coq Require Import List ZArith.\nFrom TV Require Import Num.Ops Model.GridInd.\n'
          'Import ListNotations.\n'
          'Definition showR (r : result (list (list nat))) : list (list nat) := '
          'match r with Ok l => [0%nat] :: l | Err e => [[Z.to_nat (err_code e)]] end.\n'
          'Definition showR1 (r : result (list nat)) : list (list nat) := '
          'match r with Ok l => [[0%nat]; l] | Err e => [[Z.to_nat (err_code e)]] end.\n')


def _impl(f, *a):
    r = C.call_impl(f, *a)
    if r[0] != 0:
        return [[r[0]]]
    v = r[1]
    if v and not isinstance(v[0], list):
        return [[0], v]
    return [[0]] + v


HEADER_Q = ('From Coq Require Import List ZArith.\nFrom TV Require Import Num.Ops Lin.Tab TT.Chain Model.GridInd Model.Qtt.\n'
            'Import ListNotations. Open Scope Z_scope.\nDefinition c := @mk_core Z.\n'
            'Definition showQ (r : result (list (core Z))) : list (list (list (list Z))) := '
            'match r with Ok Y => [[[0]]] :: map (fun G => [[Z.of_nat (cr1 G); Z.of_nat (cn G); Z.of_nat (cr2 G)]] :: dat G) Y '
            '| Err e => [[[[err_code e]]]] end.\n')
HEADER_QF = ('From Coq Require Import List ZArith Floats.\n'
             'From TV Require Import Num.Ops Num.InstF Lin.Tab Lin.Mat TT.Chain Model.GridInd Model.Qtt.\n'
             'Import ListNotations. Open Scope float_scope.\nDefinition c := @mk_core float.\n'
             'Definition M (l : list (list float)) : mat float := mk_mat (length l) (length (hd [] l)) l.\n'
             'Definition ME (r k : nat) : mat float := mk_mat r k (repeat (@nil float) r).\n'
             'Definition dm : mat float * mat float := (mk_mat 0 0 [], mk_mat 0 0 []).\n'
             'Definition showF (r : result (list (core float))) : list (list (list (list (Z * Z)))) := '
             'match r with Ok Y => [[[(0%Z, 0%Z)]]] :: map (fun G => [[(Z.of_nat (cr1 G), 0%Z); (Z.of_nat (cn G), 0%Z); '
             '(Z.of_nat (cr2 G), 0%Z)]] :: map (map (map F_show)) (dat G)) Y '
             '| Err e => [[[[(err_code e, 0%Z)]]]] end.\n')


def _coq_core(G, leaf):
    G = np.asarray(G)
    return f'(c {G.shape[0]} {G.shape[1]} {G.shape[2]} {C.nested(G.tolist(), leaf)})'


def _coq_mat(A):
    A = np.asarray(A, dtype=float)
    if A.shape[1] == 0 or A.shape[0] == 0:
        return f'(ME {A.shape[0]} {A.shape[1]})'
    return f'(M {C.nested(A.tolist(), C.flit)})'


def _rand_chain(rng, ns, rmax, lo=-3, hi=3):
    d = len(ns)
    r = [1] + [rng.randint(1, rmax) for _ in range(d - 1)] + [1]
    return [np.array([[[float(rng.randint(lo, hi)) for _ in range(r[k + 1])] for _ in range(ns[k])] for _ in range(r[k])])
            for k in range(d)]


def corr_qtt_to_tt(R, tn, rng, th):
    """qtt_to_tt / core_qtt_to_tt on integer cores: exact equality of every returned core (Z instance)"""
    items = []
    dist = dict(dq=[], malformed=0)
    for t in range(120 if not th else 800):
        d, q = rng.randint(1, 4), rng.randint(1, 4)
        Y = _rand_chain(rng, [2] * (d * q), 3)
        dist['dq'].append([d, q])
        try:
            Z = tn.qtt_to_tt(Y, q)
            impl = [[[[0]]]] + [[[list(G.shape)]] + [[[int(x) for x in row] for row in sl] for sl in G.tolist()] for G in Z]
        except Exception as e:
            impl = [[[[C.errclass(e)]]]]
        items.append(dict(coq=f'showQ (qtt_to_tt OZ [{"; ".join(_coq_core(G, lambda x: C.zlit(int(x))) for G in Y)}] {q}%nat)',
                          impl=impl, input=['qtt_to_tt', d, q, [G.tolist() for G in Y]]))
    bad = C.exact_corr(R, 'qtt_to_tt_cores', HEADER_Q, items, chunk=30, distribution=dict(
        cases=len(items), d='1..4', q='1..4', ranks='1..3', entries='integers in [-3, 3]'))
    return bad


def corr_tt_to_qtt(R, tn, rng, th):
    """tt_to_qtt at the PrimFloat instance with the recorded matrix_svd outputs replayed by (core, call) number"""
    cases, meta = [], []
    resid_bad = []
    n_calls = 0
    for t in range(70 if not th else 500):
        d = rng.randint(1, 3)
        q = rng.choice([1, 1, 2, 2, 3])
        n = 2 ** q
        rmax = rng.choice([1, 2, 3, 4])
        r = [1] + [rng.randint(1, rmax) for _ in range(d - 1)] + [1]
        Y = [np.array([[[rng.uniform(-1, 1) for _ in range(r[k + 1])] for _ in range(n)] for _ in range(r[k])]) for k in range(d)]
        fam = rng.choice(['generic', 'generic', 'lowrank', 'int'])
        if fam == 'int':
            Y = [np.round(G * 3) for G in Y]
        if fam == 'lowrank' and d >= 1:
            k = rng.randrange(d)
            Y[k][:, n // 2:, :] = Y[k][:, :n - n // 2, :]
        e = rng.choice([0., 1e-14, 1e-12, 1e-8, 1e-2])
        cap = rng.choice([1e12, 1e12, 100, 2, 1])
        recs = []          # per core: list of (U, V)
        orig = tn.matrix_svd
        state = dict(core=-1)

        def rec(A, e_, r_, _orig=orig):
            U, V = _orig(A, e_, r_)
            recs[-1].append((np.array(U, dtype=float), np.array(V, dtype=float), np.array(A, dtype=float)))
            return U, V
        orig_core = tn.core_tt_to_qtt

        def core_wrap(G, e_=0., r_=1.E+12, _oc=orig_core):
            recs.append([])
            return _oc(G, e_, r_)
        tn.matrix_svd = rec
        tn.core_tt_to_qtt = core_wrap
        try:
            try:
                Z = tn.tt_to_qtt(Y, e, cap)
                impl = [list(G.shape) for G in Z], [np.asarray(G, dtype=float) for G in Z]
            except Exception as ex:
                impl = C.errclass(ex), None
        finally:
            tn.matrix_svd = orig
            tn.core_tt_to_qtt = orig_core
        for rc in recs:
            for U, V, A in rc:
                n_calls += 1
                if e <= 1e-12 and cap >= 100:
                    res = np.linalg.norm(U @ V - A)
                    if res > 1e-6 * max(np.linalg.norm(A), 1e-300) + 1e-300:
                        resid_bad.append(dict(what='matrix_svd residual', res=float(res), shape=list(A.shape)))
                # contract assumed by C17_core_tt_to_qtt_error_R on every call the run makes: when the cap does not bind (inner
                # size below it, or the matrix cannot carry more), at most e is discarded (up to the sqrt(eps) floor of the
                # eigen-decomposition route) and the right factor has orthonormal (or zero) rows
                p_in = U.shape[1]
                if p_in < max(1, int(min(cap, 1e9))) or p_in >= min(A.shape):
                    res = np.linalg.norm(U @ V - A)
                    if res > e * (1 + 1e-6) + 1e-7 * np.linalg.norm(A) + 1e-300:
                        resid_bad.append(dict(what='matrix_svd discards more than e although the cap does not bind', res=float(res),
                                              e=e, cap=cap, inner=p_in, shape=list(A.shape), A=A.tolist()))
                gram = V @ V.T
                dg = np.diag(gram)
                if np.abs(gram - np.diag(dg)).max(initial=0.) > 1e-6 or np.any(np.minimum(np.abs(dg - 1), np.abs(dg)) > 1e-6):   # sqrt(eps) floor of the eigh route: a kept noise direction has a row of size ~1.5e-8
                    resid_bad.append(dict(what='matrix_svd right factor: rows are not orthonormal-or-zero', shape=list(A.shape),
                                          A=A.tolist(), e=e, cap=cap))
        recterm = '[' + '; '.join('[' + '; '.join(f'({_coq_mat(U)}, {_coq_mat(V)})' for U, V, _ in rc) + ']' for rc in recs) + ']'
        term = (f'showF (tt_to_qtt OF (fun k cc _ => nth cc (nth k {recterm} []) dm) '
                f'[{"; ".join(_coq_core(G, C.flit) for G in Y)}])')
        cases.append(term)
        meta.append((dict(kind='tt_to_qtt', d=d, q=q, ranks=r, family=fam, e=e, cap=cap, Y=[G.tolist() for G in Y]), impl))
    vals = C.run_cases('C17_tt_to_qtt', HEADER_QF, cases, chunk=10)
    bad = []
    for (inp, impl), v in zip(meta, vals):
        R.add_distinct(('tt_to_qtt', repr(inp)[:3000]))
        ok = True
        if impl[1] is None:
            ok = (v == [[[[ (impl[0], 0) ]]]]) or (len(v) == 1 and v[0][0][0][0][0] == impl[0])
        elif len(v) != 1 + len(impl[0]) or v[0] != [[[(0, 0)]]]:
            ok = False
        else:
            for sh, G, mv in zip(impl[0], impl[1], v[1:]):
                msh = [x[0] for x in mv[0][0]]
                if msh != sh:
                    ok = False
                    break
                mg = np.array([[[C.float_of_show(tuple(x)) for x in row] for row in sl] for sl in mv[1:]], dtype=float).reshape(sh) \
                    if all(sh) else np.zeros(sh)
                sc = max(float(np.abs(G).max()) if G.size else 0., 1e-300)
                if G.size and not np.allclose(mg, G, rtol=1e-12, atol=1e-12 * sc):
                    ok = False
                    break
        if not ok:
            bad.append(dict(stream='tt_to_qtt', input=inp, impl_shapes=impl[0],
                            model_shapes=[[x[0] for x in mv[0][0]] for mv in v[1:]] if len(v) > 1 else v))
    R.corr.append(dict(name='tt_to_qtt_float_replay', cases=len(cases), mismatches=len(bad) + len(resid_bad),
                       comparison='shapes exact, cores to 1e-12 relative (PrimFloat instance, matrix_svd outputs replayed by '
                                  '(core, call) number); residual of every recorded factorisation checked when nothing is cut',
                       distribution=dict(d='1..3', q='1..3', ranks='1..4', e=[0., 1e-14, 1e-12, 1e-8, 1e-2], cap=[1e12, 100, 2, 1],
                                         recorded_matrix_svd_calls=n_calls),
                       first_mismatches=(bad + resid_bad)[:3]))
    if meta:
        R.samples.append(dict(stream='tt_to_qtt', input={k: v for k, v in meta[0][0].items() if k != 'Y'}, impl_shapes=meta[0][1][0]))
    return bad + resid_bad


def _dense(tn, Y):
    return np.asarray(tn.full(Y), dtype=float)


def _conv_oracle(tn, Y, q, e, cap):
    """property-level oracle for the conversions, independent of the model (dense reference)"""
    d, n = len(Y), 2 ** q
    inp = dict(kind='conv', q=q, e=e, cap=cap, Y=[np.asarray(G).tolist() for G in Y])
    Z = tn.tt_to_qtt(Y, e, cap)
    if len(Z) != d * q or any(G.ndim != 3 or G.shape[1] != 2 for G in Z):
        return dict(what='tt_to_qtt: result is not a QTT-tensor of d*q cores with mode size 2', input=inp,
                    got=[list(G.shape) for G in Z])
    rk = [Z[0].shape[0]] + [G.shape[2] for G in Z]
    for a, b in zip(Z[:-1], Z[1:]):
        if a.shape[2] != b.shape[0]:
            return dict(what='tt_to_qtt: neighbouring ranks do not match', input=inp, got=rk)
    tr = [Y[0].shape[0]] + [G.shape[2] for G in Y]
    if [rk[k * q] for k in range(d + 1)] != tr:
        return dict(what='tt_to_qtt: bonds between modes do not keep the TT-ranks', input=inp, got=rk, expected=tr)
    capi = max(1, int(min(cap, 1e9)))
    for k in range(d):
        for t in range(1, q):
            if rk[k * q + t] > capi:
                return dict(what='tt_to_qtt: a bond inside a mode exceeds the rank cap', input=inp, got=rk, expected=capi)
    F, FZ = _dense(tn, Y), _dense(tn, Z)
    # entry of the QTT-tensor at the binary expansion = entry of the tensor (little-endian inside every mode)
    FZr = FZ.reshape([2] * (d * q))
    perm = []
    for k in range(d):
        perm += list(range(k * q, (k + 1) * q))[::-1]      # merge bits of one mode, lowest bit fastest
    G = np.transpose(FZr, perm).reshape([n] * d)
    nrm = max(np.linalg.norm(F), 1e-300)
    tol = (10 * e * nrm * q * d + 1e-10 * nrm) if cap >= 100 else None
    # per-core clause (theorem C17_core_tt_to_qtt_error_R): when the cap does not bind inside mode k (every intra-mode bond
    # strictly below it), the q factorisations of that core each discard at most e, so ||G_k - merged QTT cores||_F <= sqrt(q) e
    # (plus what the eigen-decomposition route of matrix_svd cannot resolve: ~sqrt(eps) ||G_k||, known finding of C02)
    nonbinding = True
    gn = []
    for k in range(d):
        Gk = np.asarray(Y[k], dtype=float)
        M = np.asarray(Z[k * q], dtype=float)
        for t in range(1, q):                               # order='F' merge: the earlier bit runs fastest
            Q = np.asarray(Z[k * q + t], dtype=float)
            M = np.einsum('amc,cjb->ajmb', M, Q).reshape(M.shape[0], 2 * M.shape[1], Q.shape[2])   # index m + cn * j
        gn.append(float(np.linalg.norm(Gk)))
        # the inner size of the first factorisation (of the r1*n x r2 unfolding) is not visible in the result: V0 is multiplied
        # back; the cap certainly does not bind there when it is at least the smaller dimension
        free = all(rk[k * q + t] < capi for t in range(1, q)) and capi >= min(Gk.shape[0] * Gk.shape[1], Gk.shape[2])
        nonbinding = nonbinding and free
        if free and M.shape == Gk.shape:
            err = float(np.linalg.norm(M - Gk))
            bound = np.sqrt(q) * e * (1 + 1e-6) + 1e-7 * gn[-1] + 1e-300
            if err > bound:
                return dict(what=f'tt_to_qtt: core {k} differs from its merged QTT cores by more than sqrt(q)*e although the rank cap '
                                 'does not bind inside that mode', input=inp, got=err, expected=float(bound), ranks=rk)
    if tol is None and nonbinding:
        # rigorous whole-tensor bound from the per-core bounds (multilinearity + ||chain||_F <= product of core norms)
        ce = np.sqrt(q) * e
        tol = sum(ce * np.prod([gn[j] + ce for j in range(d) if j != k]) for k in range(d)) * (1 + 1e-6) \
            + 1e-7 * d * float(np.prod([g + ce for g in gn])) + 1e-300
    if tol is not None and np.linalg.norm(G - F) > tol:
        return dict(what='tt_to_qtt: QTT entry at the binary expansion differs from the tensor entry beyond the accuracy',
                    input=inp, got=float(np.linalg.norm(G - F)), expected=float(tol))
    # index-map agreement on a few entries
    import itertools as it
    for idx in list(it.product(range(n), repeat=d))[:16]:
        b = np.asarray(tn.ind_tt_to_qtt(list(idx), n)).tolist()
        if tol is not None and abs(float(tn.get(Z, b)) - float(tn.get(Y, list(idx)))) > tol:
            return dict(what='get(tt_to_qtt(Y), ind_tt_to_qtt(i)) != get(Y, i)', input=inp, got=[list(idx), b])
    # and back
    W = tn.qtt_to_tt(Z, q)
    if [G_.shape[1] for G_ in W] != [n] * d:
        return dict(what='qtt_to_tt: wrong mode sizes', input=inp, got=[list(G_.shape) for G_ in W])
    FW = _dense(tn, W)
    if np.linalg.norm(FW - G) > 1e-10 * max(np.linalg.norm(G), 1e-300):
        return dict(what='qtt_to_tt(Z) does not denote the tensor whose entries are the QTT entries at the binary expansions',
                    input=inp, got=float(np.linalg.norm(FW - G)))
    return None


def correspondence(R, ctx):
    tn = C.import_teneva()
    rng = ctx['rng']
    bound = 12 if ctx['thorough'] else 8
    items = []
    dist = dict(exhaustive_qd=[], malformed=0, random_large=0)
    # exhaustive: every multi-index for q*d <= bound, as one batch per (d, q); plus singles on a sample
    for d in range(1, bound + 1):
        for q in range(1, bound // d + 1):
            n = 2 ** q
            I = [list(t) for t in itertools.product(range(n), repeat=d)]
            dist['exhaustive_qd'].append([d, q, len(I)])
            Iq = tn.ind_tt_to_qtt(np.array(I), n)
            items.append(dict(coq=f'showR (ind_tt_to_qtt {n} {C.nested(I, str)})',
                              impl=_impl(tn.ind_tt_to_qtt, np.array(I), n), input=['tt_to_qtt', d, q, 'all']))
            B = [list(t) for t in itertools.product(range(2), repeat=d * q)]
            items.append(dict(coq=f'showR (ind_qtt_to_tt {q} {C.nested(B, str)})',
                              impl=_impl(tn.ind_qtt_to_tt, np.array(B), q), input=['qtt_to_tt', d, q, 'all']))
            for i in rng.sample(I, min(4, len(I))):
                items.append(dict(coq=f'showR1 (ind_tt_to_qtt1 {n} {C.nested(i, str)})',
                                  impl=_impl(tn.ind_tt_to_qtt, i, n), input=['tt_to_qtt1', i, n]))
            for b in rng.sample(B, min(4, len(B))):
                items.append(dict(coq=f'showR1 (ind_qtt_to_tt1 {q} {C.nested(b, str)})',
                                  impl=_impl(tn.ind_qtt_to_tt, b, q), input=['qtt_to_tt1', b, q]))
    # random larger q, d
    for _ in range(60 if not ctx['thorough'] else 400):
        d, q = rng.randint(1, 9), rng.randint(1, 11)
        n = 2 ** q
        i = [rng.randrange(n) for _ in range(d)]
        if rng.random() < 0.3:
            i[rng.randrange(d)] = rng.choice([0, n - 1])
        dist['random_large'] += 1
        items.append(dict(coq=f'showR1 (ind_tt_to_qtt1 {n} {C.nested(i, str)})',
                          impl=_impl(tn.ind_tt_to_qtt, i, n), input=['tt_to_qtt1', i, n]))
        b = [rng.randrange(2) for _ in range(d * q)]
        items.append(dict(coq=f'showR1 (ind_qtt_to_tt1 {q} {C.nested(b, str)})',
                          impl=_impl(tn.ind_qtt_to_tt, b, q), input=['qtt_to_tt1', b, q]))
    # malformed stream: not a power of two, index out of range, digit out of range
    for n in [3, 5, 6, 7, 9, 10, 12, 15, 17, 24, 100, 1023, 1025, 2047]:
        i = [rng.randrange(n) for _ in range(rng.randint(1, 4))]
        dist['malformed'] += 1
        items.append(dict(coq=f'showR1 (ind_tt_to_qtt1 {n} {C.nested(i, str)})',
                          impl=_impl(tn.ind_tt_to_qtt, i, n), input=['tt_to_qtt1-badn', i, n]))
    for q in [1, 2, 3, 5]:
        n = 2 ** q
        for bad in [n, n + 1, 2 * n]:
            i = [rng.randrange(n) for _ in range(3)]
            i[rng.randrange(3)] = bad
            dist['malformed'] += 1
            items.append(dict(coq=f'showR1 (ind_tt_to_qtt1 {n} {C.nested(i, str)})',
                              impl=_impl(tn.ind_tt_to_qtt, i, n), input=['tt_to_qtt1-range', i, n]))
        b = [rng.randrange(2) for _ in range(2 * q)]
        b[rng.randrange(2 * q)] = 2
        dist['malformed'] += 1
        items.append(dict(coq=f'showR1 (ind_qtt_to_tt1 {q} {C.nested(b, str)})',
                          impl=_impl(tn.ind_qtt_to_tt, b, q), input=['qtt_to_tt1-digit', b, q]))
    bad = C.exact_corr(R, 'index_maps', HEADER, items, chunk=40, distribution=dist)
    bad = bad + corr_qtt_to_tt(R, tn, rng, ctx['thorough'])
    bad = bad + corr_tt_to_qtt(R, tn, rng, ctx['thorough'])
    return bad


def _oracle(tn, i, q):
    """property-level oracle, independent of the model: little-endian digits, inverse maps, batch = singles"""
    n = 2 ** q
    b = np.asarray(tn.ind_tt_to_qtt(i, n)).tolist()
    exp = [(x >> k) & 1 for x in i for k in range(q)]
    if b != exp:
        return dict(what='ind_tt_to_qtt is not the little-endian bit string', input=[i, q], got=b, expected=exp)
    back = np.asarray(tn.ind_qtt_to_tt(b, q)).tolist()
    if back != list(i):
        return dict(what='ind_qtt_to_tt(ind_tt_to_qtt(i)) != i', input=[i, q], got=back, expected=list(i))
    # argument forms: the same maps on ndarrays of every integer dtype that can hold the input (the result may need more bits
    # than the input: bits fit in int8, the index they encode does not), single index and one-row / two-row batches
    for dt in (np.int8, np.uint8, np.int16, np.int32, np.int64):
        ba = np.array(b, dtype=dt)
        for form, arg, exp_ in (('single', ba, list(i)), ('batch1', ba.reshape(1, -1), [list(i)]),
                                ('batch2', np.vstack([ba, ba]), [list(i), list(i)])):
            got = np.asarray(tn.ind_qtt_to_tt(arg, q)).tolist()
            if got != exp_:
                return dict(what=f'ind_qtt_to_tt on a {np.dtype(dt).name} array ({form}) does not invert ind_tt_to_qtt',
                            input=[i, q], got=got, expected=exp_)
        if max(i) <= np.iinfo(dt).max:
            ia = np.array(i, dtype=dt)
            for form, arg, exp_ in (('single', ia, exp), ('batch1', ia.reshape(1, -1), [exp]), ('batch2', np.vstack([ia, ia]), [exp, exp])):
                got = np.asarray(tn.ind_tt_to_qtt(arg, n)).tolist()
                if got != exp_:
                    return dict(what=f'ind_tt_to_qtt on a {np.dtype(dt).name} array ({form}) is not the little-endian bit string',
                                input=[i, q], got=got, expected=exp_)
    # forms of the mode size / digit count themselves: NumPy integer scalars (teneva.shape(Y)[k], np.array(N)[k], 2**np.int64(q))
    for dt in (np.int16, np.int32, np.int64, np.uint32):
        if n > np.iinfo(dt).max:
            continue
        got = np.asarray(tn.ind_tt_to_qtt(i, dt(n))).tolist()
        if got != exp:
            return dict(what=f'ind_tt_to_qtt with the mode size given as {np.dtype(dt).name} is not the little-endian bit string',
                        input=[i, q], got=got, expected=exp)
        got = np.asarray(tn.ind_qtt_to_tt(b, dt(q))).tolist()
        if got != list(i):
            return dict(what=f'ind_qtt_to_tt with the digit count given as {np.dtype(dt).name} does not invert ind_tt_to_qtt',
                        input=[i, q], got=got, expected=list(i))
    return None


def _default_cap(tn, sd):
    inp = dict(kind='default-cap', q=14, seed=sd)
    try:
        rs = np.random.RandomState(sd)
        Yv = [rs.uniform(-1, 1, size=(1, 2 ** 14, 1))]
        Zd, Zx = tn.tt_to_qtt(Yv), tn.tt_to_qtt(Yv, 1.E-12, 100)
        rd = [G.shape[2] for G in Zd]
        if max(rd) > 100 or len(Zd) != len(Zx) or any(a.shape != b.shape or not np.array_equal(a, b) for a, b in zip(Zd, Zx)):
            return dict(what='tt_to_qtt(Y) with the documented defaults (e=1e-12, r=100) differs from the explicit call / '
                             'exceeds the default rank cap 100', input=inp, got=rd)
    except Exception as ex:
        return dict(what='tt_to_qtt raised on a 2^14 vector: ' + repr(ex)[:200], input=inp)
    return None


def search(R, ctx, deep, hints):
    tn = C.import_teneva()
    rng = ctx['rng']
    fails, n_eval = [], 0
    cand = []
    for h in hints:
        inp = h.get('input')
        if not isinstance(inp, list) or not inp:
            continue
        if inp[0] == 'tt_to_qtt1':
            cand.append((inp[1], int(np.log2(inp[2]))))
        if inp[0] in ('tt_to_qtt',):
            d, q = inp[1], inp[2]
            cand += [(list(t), q) for t in itertools.product(range(2 ** q), repeat=d)]
        if inp[0] == 'qtt_to_tt':
            d, q = inp[1], inp[2]
            cand += [([sum(b[j * q + k] << k for k in range(q)) for j in range(d)], q)
                     for b in itertools.product(range(2), repeat=d * q)]
        if inp[0] == 'qtt_to_tt1':
            b, q = inp[1], inp[2]
            cand.append(([sum(b[j * q + k] << k for k in range(q)) for j in range(len(b) // q)], q))
    bound = 10 if deep else 6
    for d in range(1, bound + 1):
        for q in range(1, bound // d + 1):
            cand += [(list(t), q) for t in itertools.product(range(2 ** q), repeat=d)]
    for _ in range(2000 if deep else 200):
        d, q = rng.randint(1, 8), rng.randint(1, 24)
        cand.append(([rng.randrange(2 ** q) for _ in range(d)], q))
    for i, q in cand:
        n_eval += 1
        try:
            f = _oracle(tn, i, q)
        except Exception as e:
            f = dict(what='index map raised on a valid index: ' + repr(e)[:200], input=[i, q])
        if f:
            fails.append(f)
            if len(fails) >= 5:
                break
    # batch = map of singles
    for _ in range(50):
        d, q, m = rng.randint(1, 5), rng.randint(1, 6), rng.randint(1, 6)
        I = [[rng.randrange(2 ** q) for _ in range(d)] for _ in range(m)]
        n_eval += 1
        try:
            A = np.asarray(tn.ind_tt_to_qtt(np.array(I), 2 ** q)).tolist()
            S = [np.asarray(tn.ind_tt_to_qtt(i, 2 ** q)).tolist() for i in I]
            Bk = np.asarray(tn.ind_qtt_to_tt(np.array(A), q)).tolist()
            if A != S or Bk != I:
                fails.append(dict(what='batch index map differs from single-index map', input=[I, q], got=[A, Bk]))
        except Exception as e:
            fails.append(dict(what='batch index map raised: ' + repr(e)[:200], input=[I, q]))
    # rejection (also far beyond the range where a floating-point log2 can tell a power of two from its neighbours)
    for n in [3, 6, 12, 100, 2 ** 20 + 1, 2 ** 31 - 1, 3 * 2 ** 40, 2 ** 49 + 1, 2 ** 50 + 1, 2 ** 50 - 1, 2 ** 53 + 2, 2 ** 60 + 3,
              2 ** 62 - 1]:
        n_eval += 1
        try:
            tn.ind_tt_to_qtt([1], n)
            fails.append(dict(what='non-power-of-two mode size accepted', input=[[1], n]))
        except ValueError:
            pass
        except Exception as e:
            fails.append(dict(what='non-power-of-two mode size: wrong exception ' + repr(e)[:100], input=[[1], n]))
        for dt in (np.int32, np.int64):
            if n <= np.iinfo(dt).max:
                try:
                    tn.ind_tt_to_qtt([1], dt(n))
                    fails.append(dict(what=f'non-power-of-two mode size ({np.dtype(dt).name}) accepted', input=[[1], n]))
                except ValueError:
                    pass
                except Exception as e:
                    fails.append(dict(what=f'non-power-of-two mode size ({np.dtype(dt).name}): wrong exception ' + repr(e)[:100], input=[[1], n]))
    # conversions against a dense reference (degenerate families first: q = 1, d = 1, rank 1, rank-deficient, zero)
    conv = []
    for h in hints:
        inp = h.get('input')
        if isinstance(inp, dict) and inp.get('kind') == 'tt_to_qtt':
            conv.append(([np.array(G, dtype=float) for G in inp['Y']], inp['q'], inp['e'], inp['cap']))
    for d, q, rr in [(2, 1, 2), (3, 1, 3), (1, 1, 1), (1, 3, 1), (2, 2, 1), (2, 2, 4), (3, 2, 2), (2, 3, 3)]:
        r = [1] + [rr] * (d - 1) + [1]
        Y = [np.array([[[rng.uniform(-1, 1) for _ in range(r[k + 1])] for _ in range(2 ** q)] for _ in range(r[k])]) for k in range(d)]
        conv.append((Y, q, 1e-12, 100))
        conv.append((Y, q, 0., 1e12))
        conv.append((Y, q, 1e-3, 2))
        conv.append(([G * 0 for G in Y], q, 1e-12, 100))
    # smooth (function-sampled) data: square unfoldings inside core_tt_to_qtt that are really truncated
    for q in ([4, 5] if not deep else [4, 5, 6]):
        n = 2 ** q
        x = np.linspace(0., 3., n)
        for fs in ([np.sin(x)], [x * np.exp(-x)], [1 + x - 0.3 * x ** 2 + 0.01 * x ** 3], [np.sin(x), np.cos(2 * x)]):
            r = len(fs)
            for d in (1, 2):
                if d == 1:
                    if r > 1:
                        continue
                    Y = [fs[0].reshape(1, n, 1).copy()]
                else:
                    Y = [np.stack(fs, axis=-1).reshape(1, n, r).copy(), np.stack(fs[::-1], axis=0).reshape(r, n, 1).copy()]
                for e in (1e-6, 1e-9):
                    conv.append((Y, q, e, 1e12))
                conv.append((Y, q, 1e-6, 3))
    # signal + weak white noise on a long vector: many singular values just below e in the middle unfoldings (a flat tail) -
    # the discarded ENERGY, not each discarded value, must stay within e at every factorisation (theorem: error <= sqrt(q) e)
    for q, e in ([(14, 1e-3)] if not deep else [(14, 1e-3), (16, 1e-2), (12, 1e-3)]):
        n = 2 ** q
        x = np.linspace(0., 1., n)
        rs = np.random.RandomState(rng.randrange(2 ** 31))
        sgm = 0.9 * e / (2. * 2 ** (q / 4))
        v = np.sin(7. * x) + 0.5 * np.cos(31. * x ** 2) + x + sgm * rs.normal(size=n)
        conv.append(([v.reshape(1, n, 1)], q, e, 10 ** 6))
    for _ in range(150 if deep else 25):
        d, q = rng.randint(1, 3), rng.randint(1, 3)
        r = [1] + [rng.randint(1, 4) for _ in range(d - 1)] + [1]
        Y = [np.array([[[rng.uniform(-1, 1) for _ in range(r[k + 1])] for _ in range(2 ** q)] for _ in range(r[k])]) for k in range(d)]
        conv.append((Y, q, rng.choice([0., 1e-12, 1e-6, 1e-2]), rng.choice([1e12, 100, 3, 1])))
    for Y, q, e, cap in conv:
        if len(fails) >= 5:
            break
        n_eval += 1
        try:
            f = _conv_oracle(tn, Y, q, e, cap)
        except Exception as ex:
            f = dict(what='conversion raised on a valid tensor: ' + repr(ex)[:200],
                     input=dict(kind='conv', q=q, e=e, cap=cap, Y=[np.asarray(G).tolist() for G in Y]))
        if f:
            fails.append(f)
    # calls relying on the documented defaults (e = 1e-12, r = 100) in the regime where the default cap matters: a vector of
    # 2^14 generic entries has natural QTT-ranks up to 128
    n_eval += 1
    f = _default_cap(tn, rng.randrange(2 ** 31))
    if f:
        fails.append(f)
    # every power of two up to 2^62 is accepted by the index maps and round-trips
    for k in range(1, 63):
        n_eval += 1
        try:
            i0 = [2 ** k - 1, 0, 2 ** (k - 1)]
            b = np.asarray(tn.ind_tt_to_qtt(i0, 2 ** k)).tolist()
            if len(b) != 3 * k or np.asarray(tn.ind_qtt_to_tt(b, k)).tolist() != i0:
                fails.append(dict(what='index maps do not round-trip for a large power-of-two mode size', input=[i0, k]))
                break
        except Exception as e:
            fails.append(dict(what='ind_tt_to_qtt rejected a power-of-two mode size: ' + repr(e)[:100], input=[[1], k]))
            break
    for nbad in [3, 6, 12]:
        n_eval += 1
        try:
            tn.tt_to_qtt([np.ones((1, nbad, 1))])
            fails.append(dict(what='tt_to_qtt accepted a non-power-of-two mode size', input=dict(kind='badn', n=nbad)))
        except ValueError:
            pass
        except Exception as ex:
            fails.append(dict(what='tt_to_qtt, non-power-of-two mode size: wrong exception ' + repr(ex)[:100], input=dict(kind='badn', n=nbad)))
    R.search.append(dict(name='index maps oracle (bit arithmetic) + conversions against a dense reference', evaluations=n_eval,
                         failures=len(fails), deep=deep))
    return fails


def replay(data):
    tn = C.import_teneva()
    p = data['payload']
    print(data['what'], str(p.get('input'))[:2000])
    if isinstance(p.get('input'), dict) and p['input'].get('kind') == 'default-cap':
        f = _default_cap(tn, p['input'].get('seed', 0))
        print('replayed:', f and f['what'])
        return 1 if f else 0
    if isinstance(p.get('input'), dict) and p['input'].get('kind') == 'conv':
        i = p['input']
        f = _conv_oracle(tn, [np.array(G, dtype=float) for G in i['Y']], i['q'], i['e'], i['cap'])
        print('replayed:', f and f['what'])
        return 1 if f else 0
    if 'input' in p and isinstance(p['input'], list) and len(p['input']) == 2 and isinstance(p['input'][1], int):
        f = _oracle(tn, p['input'][0], p['input'][1])
        print('replayed:', f)
        return 1 if f else 0
    return 1
