"""C08 — maxvol / maxvol_rect / _maxvol.

Correspondence streams (model = coq/Model/Maxvol.v evaluated by vm_compute):
  qc_maxvol    Qc instance + executable LU initialisation (lu_exec) on small integer matrices, n = r+1 .. 3r,
               duplicate and zero rows, every iteration limit 0 .. needed+2; index vector exact, B to 1e-9
  qc_maxvol_reentry  maxvol on sequences that need >= 3 swaps and in which a row of the LU-initial submatrix is swapped
               out and later re-enters (family A = P L with |L| close to 1 below the diagonal, and integer matrices)
  qc_exact_tie the same on matrices whose whole run is exact in binary64 (every divisor a power of two, every
               intermediate a short dyadic, e dyadic): argmax ties and threshold ties included, B compared exactly
  qc_rect      maxvol_rect, all 0 <= dr_min <= dr_max (and None), zero-residual forced growth included
  qc_rect_zero_exact   maxvol_rect on the zero-residual / duplicate-row family (r independent rows + duplicates + zero
               rows, dr_min forcing growth into rows whose residual is 0) with a run that is exact in binary64:
               index vector AND B compared exactly.  The model is the code (masked arg-max); a case on which the
               implementation agrees with the pinned variant np.argmax(F) instead is a MISMATCH (revert of cac7db0).
  qc_dispatch  utils._maxvol incl. n <= r
  (forms / scales: in qc_maxvol, qc_rect, qc_dispatch the implementation receives A as C / F-ordered / non-contiguous /
               transposed-view float64 or int64 / int32 array and scalars as Python / NumPy scalars / 0-d arrays; one case in
               three is rescaled by an exact power of two 2^+-200 / 2^+-500 on both sides)
  errors       wide / square input, inconsistent dr_min / dr_max: exception class exact
  f_maxvol / f_rect   PrimFloat instance + replayed (recorded) LU initialisation, conditioning up to 1e8
A pure-Python walk through the algorithm (`_sim_*`, Fractions or floats) is used ONLY to classify generated
inputs (decision margins >= 1e-6, exactness class); it never decides pass / fail.
"""
import sys
import time
from fractions import Fraction as Fr
import numpy as np
from harness import common as C

THEOREMS = 'Properties/C08.v'
FINDING_KEY = 'C08-rect-duplicate-rows-zero-residual'
CLAIM = dict(
    text='maxvol / maxvol_rect / _maxvol: Coq theorems, for every ordered field and all sizes, about the model '
         'Model/Maxvol.v (maxvol_rect = the code with the masked arg-max np.argmax(np.where(S > 0, F, -1.)) of '
         '/repo cac7db0): one swap preserves A = B A[I], B[I] = Id and distinctness (maxvol_step_inv); maxvol returns '
         'r distinct valid rows with A = B A[I], B[I] = Id and max|B| <= e whenever the loop was left by its test '
         '(maxvol_spec); the rect augmentation by any unselected row preserves A = B A[I] and the tracked residuals F '
         'are the masked squared row norms (rect_inv); np.argmax is the first maximum (argmax_first) and the masked '
         'line selects the first maximum of F among the unselected rows (rect_argmax_masked); maxvol_rect returns '
         'between r+dr_min and min(n, r+dr_max) DISTINCT valid rows with A = B A[I], B[I] = Id and every squared row '
         'norm <= e*e when it stopped before the upper limit, with no hypothesis on the residuals (rect_spec; e >= 1 '
         'gives the hypothesis 1 <= e*e: one_le_sq); ValueError on wide/square input and inconsistent dr '
         '(maxvol_rejects, rect_rejects_dr, rect_rejects_wide); _maxvol dispatch incl. n <= r never raises and returns '
         'a valid selection (dispatch_trivial / _maxvol / _rect / _spec). The pinned arg-max np.argmax(F) is kept as '
         'maxvol_rect_pinned: it agrees with the code whenever every selected residual is positive '
         '(rect_pinned_agrees) and is refuted otherwise by a machine-checked witness over Qc: duplicate rows and '
         'B[I] <> Id on A = [[1],[0]], dr_min = dr_max = 1 (rect_distinct_refuted). The boolean lu_contract_b that '
         'the correspondence evaluates exactly on recorded LU initialisations is sound for the oracle contract '
         '(lu_check_sound), hence maxvol_spec / rect_spec hold without residual assumption for every replayed run that '
         'passes it (maxvol_spec_checked, rect_spec_checked); iteration limit 0 returns the initialisation (maxvol_limit0).',
    note='The LU-based initialisation is an oracle with contract (A = B0 A[I0], B0[I0] = Id, I0 distinct), validated '
         'numerically on every recorded call and exactly (over Qc) on the exact streams; full column rank enters '
         'only through that contract. The determinant reading of max|B| <= e ("no single row swap enlarges the volume '
         'by more than e") is a remark, not proved (no determinant theory in the model). Theorems are '
         'about exact arithmetic; IEEE rounding is covered by the float-instance correspondence only. '
         'Cross-cutting families validated numerically (correspondence + search), not proved: argument forms (A as C / F-ordered / '
         'non-contiguous / transposed-view float64, int64 / int32 / int8 / uint8 / float32 / float16 arrays; scalars as Python / '
         'NumPy scalars / 0-d arrays; dr_max None = n-r = clipped, 0 = plain maxvol; defaults explicit / by keyword), histories '
         '(the same A object through maxvol, maxvol_rect, _maxvol repeatedly: answers of a fresh copy, A bit-identical afterwards), '
         'scales (A * 2^+-500 same I and bit-identical B, 2^+-1000 to 1e-9; rows rescaled individually within conditioning 1e8 - the '
         'quantifier of the property; beyond it the float run is not covered), thresholds hit exactly (max|B0| == e, max F == e*e) '
         'and one step below. Kept out: A given as list / tuple (undocumented, raises AttributeError), float k / dr (raise).',
    technique='Coq proof (loop invariants over an abstract ordered field) + model/implementation correspondence '
              '(Qc exact incl. an exactly-representable zero-residual / duplicate-row family, PrimFloat with replayed LU) '
              '+ numpy oracle of every clause')
TRUSTED = ['Coq 8.16.1 kernel + vm_compute (case evaluation, rect_distinct_refuted witness)',
           'hand-written model Model/Maxvol.v tied to maxvol.py / utils._maxvol by the correspondence streams',
           'oracle contract lu_contract for scipy lu + two solve_triangular (validated on every recorded call)',
           'np.argmax = first maximum; np.where(S > 0, F, -1.) elementwise; B[I] = eye with repeated I: last write wins; '
           'norm(B,axis=1)**2 = sum of squares',
           'IEEE rounding not modelled in the theorems (float instance is executed only)']
ASSUMPTIONS = ['carrier is an ordered field (record ordfield; instance proved for Qc)',
               'lu_contract A (lu_init A) for the matrix at hand (holds for full column rank; validated at run time)']
TIME_LIMIT = {'quick': 900, 'thorough': 5400}

REL = 1e-6

HEADER = r'''
From Coq Require Import List ZArith QArith Qcanon Floats.
From TV Require Import Num.Ops Num.InstF Lin.Mat Model.Maxvol.
Import ListNotations.
Definition q (z : Z) : Qc := Q2Qc (inject_Z z).
Definition showq (x : Qc) : Z * Z := (Qnum (this x), Zpos (Qden (this x))).
Definition rty := (Z * list Z * list (list (Z * Z)))%type.
Definition showRQ (r : result (list nat * mat Qc)) : rty :=
  match r with Ok (Il, B) => (0%Z, map Z.of_nat Il, map (map showq) (md B)) | Err e => (err_code e, [], []) end.
Definition showRF (r : result (list nat * mat float)) : rty :=
  match r with Ok (Il, B) => (0%Z, map Z.of_nat Il, map (map F_show) (md B)) | Err e => (err_code e, [], []) end.
Definition showB (b : bool) : rty := ((if b then 0 else 9)%Z, [], []).
Definition QX := lu_exec OQc.
'''


# ----------------------------------------------------------------------------------------------------
# literals
# ----------------------------------------------------------------------------------------------------

def _qmat(A):
    n, r = len(A), (len(A[0]) if A else 0)
    def leaf(x):
        x = Fr(x)
        return f'q {C.zlit(x.numerator)}' if x.denominator == 1 else C.qlit(x)
    return f'(mk_mat {n} {r} {C.nested([list(row) for row in A], leaf)})'


def _fmat(A):
    A = np.asarray(A, float)
    n, r = A.shape
    return f'(mk_mat {n} {r} {C.nested(A.tolist(), C.flit)}%float)'


def _qe(e):
    return C.qlit(Fr(e))


def _fe(e):
    return f'({C.flit(e)})%float'


def _optz(d):
    return 'None' if d is None else f'(Some ({int(d)})%Z)'


def _natl(I):
    return '[' + '; '.join(str(int(i)) for i in I) + ']%nat'


# ----------------------------------------------------------------------------------------------------
# implementation side
# ----------------------------------------------------------------------------------------------------

class Recorder:
    """records (I0, B0) of every LU initialisation inside teneva.maxvol.maxvol (module attributes looked up at
    call time; no edit of /repo)"""

    def __init__(self):
        self.m = sys.modules['teneva.maxvol']
        self.calls = []

    def __enter__(self):
        m = self.m
        self.o_lu, self.o_st = m.lu, m.solve_triangular
        st = dict(P=None, k=0)

        def lu(A, *a, **kw):
            out = self.o_lu(A, *a, **kw)
            st['P'], st['k'], st['r'] = out[0], 0, A.shape[1]
            return out

        def solve_triangular(*a, **kw):
            out = self.o_st(*a, **kw)
            st['k'] += 1
            if st['k'] == 2 and st['P'] is not None:
                self.calls.append((st['P'][:, :st['r']].argmax(axis=0).tolist(), np.array(out.T, float).copy()))
            return out
        m.lu, m.solve_triangular = lu, solve_triangular
        return self

    def __exit__(self, *a):
        self.m.lu, self.m.solve_triangular = self.o_lu, self.o_st


class _NpProxy:
    """counts np.outer calls (= swaps of maxvol) without touching numpy itself"""

    def __init__(self, mod):
        self._mod = mod
        self.n_outer = 0

    def __getattr__(self, k):
        return getattr(self._mod, k)

    def outer(self, *a, **kw):
        self.n_outer += 1
        return self._mod.outer(*a, **kw)


def _impl(f, *a):
    try:
        I, B = f(*a)
        return (0, [int(x) for x in np.asarray(I).tolist()], np.array(B, float))
    except Exception as ex:  # noqa
        return (C.errclass(ex), None, None)


def _validate_init(A, I0, B0, cond):
    """numerical validation of the oracle contract on one recorded call; returns None or a message"""
    A = np.asarray(A, float)
    n, r = A.shape
    if len(I0) != r or len(set(I0)) != r or not all(0 <= i < n for i in I0):
        return f'I0={I0} is not {r} distinct valid rows'
    if B0.shape != (n, r) or not np.all(np.isfinite(B0)):
        return 'B0 has wrong shape or non-finite entries'
    tol = max(1e-10, 1e-13 * cond) * (1 + np.abs(B0).max()) * (1 + np.abs(A).max())
    e1 = np.abs(B0 @ A[I0] - A).max()
    e2 = np.abs(B0[I0] - np.eye(r)).max()
    if e1 > tol or e2 > tol:
        return f'contract residuals {e1:.2e}, {e2:.2e} > {tol:.2e}'
    return None


# ----------------------------------------------------------------------------------------------------
# classification walk (generator side only)
# ----------------------------------------------------------------------------------------------------

def _pow2(x):
    x = abs(Fr(x))
    if x == 0:
        return False
    return x.numerator & (x.numerator - 1) == 0 and x.denominator & (x.denominator - 1) == 0


def _short(x, bits=36):
    x = Fr(x)
    d = x.denominator
    return d & (d - 1) == 0 and x.numerator.bit_length() <= bits and d.bit_length() <= bits


class Singular(Exception):
    pass


def _sim_lu(A):
    """partial pivoting in LAPACK order on Fractions. Returns I0, B0, tie-free?, exact?"""
    n, r = len(A), len(A[0])
    W = [list(map(Fr, row)) for row in A]
    scale = max([1] + [abs(x) for row in W for x in row])
    perm = list(range(n))
    tiefree, exact = True, all(_short(x) for row in W for x in row)
    for c in range(r):
        cand = [abs(W[perm[t]][c]) for t in range(c, n)]
        m = max(cand)
        t0 = cand.index(m)
        if m == 0:
            raise Singular()
        for t, v in enumerate(cand):
            if t != t0 and m - v <= REL * scale and not exact:
                tiefree = False     # a near-tie between values that are not exact in binary64
        perm[c], perm[c + t0] = perm[c + t0], perm[c]
        p = perm[c]
        piv = W[p][c]
        exact = exact and _pow2(piv)
        for a in range(n):
            if a != p and W[a][c] != 0:
                f = W[a][c] / piv
                W[a] = [W[a][y] - f * W[p][y] for y in range(r)]
        exact = exact and all(_short(x) for row in W for x in row)
    I0 = perm[:r]
    M = [[Fr(A[i][j]) for j in range(r)] for i in I0]
    Minv = _finv(M)
    B0 = [[sum(Fr(A[a][l]) * Minv[l][j] for l in range(r)) for j in range(r)] for a in range(n)]
    exact = exact and all(_short(x) for row in B0 for x in row)
    return I0, B0, tiefree, exact


def _finv(M):
    r = len(M)
    M = [row[:] + [Fr(int(i == j)) for j in range(r)] for i, row in enumerate(M)]
    for c in range(r):
        p = next((a for a in range(c, r) if M[a][c] != 0), None)
        if p is None:
            raise Singular()
        M[c], M[p] = M[p], M[c]
        M[c] = [x / M[c][c] for x in M[c]]
        for a in range(r):
            if a != c and M[a][c] != 0:
                M[a] = [x - M[a][c] * y for x, y in zip(M[a], M[c])]
    return [row[r:] for row in M]


def _sim_loop(B, I, e, k, exact, e_exact, trace=None):
    """maxvol iteration on Fractions (exact is tracked) or floats (exact=None: the float model mirrors the
    implementation bit for bit, every decision is safe).  Returns I, B, swaps, converged, safe, exact"""
    n, r = len(B), len(B[0])
    B = [row[:] for row in B]
    I = list(I)
    safe, sw, conv = True, 0, False
    one = B[0][0] * 0 + 1
    for _ in range(k):
        flat = [abs(x) for row in B for x in row]
        m = max(flat)
        t0 = flat.index(m)
        i, j = divmod(t0, r)
        if exact is not None:
            if not (exact and e_exact) and abs(m - e) <= REL * max(1, e):
                safe = False
            if m > e and not exact:     # which maximum is taken only matters when the swap is made
                if any(t != t0 and m - v <= REL * max(1, m) for t, v in enumerate(flat)):
                    safe = False
        if m <= e:
            conv = True
            break
        if trace is not None:
            trace.append((i, j))
        I[j] = i
        p = B[i][j]
        if exact is not None:
            exact = exact and _pow2(p)
        bi = [B[i][y] - (one if y == j else 0) for y in range(r)]
        qv = [x / p for x in bi]
        bj = [B[x][j] for x in range(n)]
        B = [[B[x][y] - bj[x] * qv[y] for y in range(r)] for x in range(n)]
        if exact is not None:
            exact = exact and all(_short(x) for row in B for x in row)
        sw += 1
    return I, B, sw, conv, safe, exact


def _sim_rect(B, I0, e, r_min, r_max, dup, exact):
    """rect phase (repaired arg-max).  Returns I, stopped_by_test, safe, forced_zero"""
    n, r = len(B), len(B[0])
    S = [1] * n
    for i in I0:
        S[i] = 0
    F = [S[a] * sum(x * x for x in B[a]) for a in range(n)]
    I = list(I0)
    safe, forced_zero, stopped = True, False, False
    scale = max([1] + [abs(x) for x in F])
    B = [row[:] for row in B]
    e2 = e * e
    for k in range(r, r_max):
        cands = [a for a in range(n) if S[a]]
        m = max(F[a] for a in cands)
        i = next(a for a in cands if F[a] == m)
        if k >= r_min:
            if m != 0 and abs(m - e2) <= Fr(REL) * max(1, e2):
                safe = False
            if m <= e2:
                stopped = True
                break
        for a in range(n):      # selected rows have F = 0: they are candidates of the pinned arg-max
            if a != i and abs(m - F[a]) <= REL * scale:
                if F[a] == 0 and m == 0:
                    continue
                if exact and S[a] and F[a] == m and dup[a] == dup[i]:
                    continue
                safe = False
        if m == 0:
            forced_zero = True
        I.append(i)
        S[i] = 0
        v = [sum(B[a][j] * B[i][j] for j in range(len(B[a]))) for a in range(n)]
        lden = 1 + v[i]
        if exact:
            exact = _pow2(lden)
        l = 1 / lden
        bi = B[i][:]
        B = [[B[a][j] - l * (v[a] * bi[j]) for j in range(len(bi))] + [l * v[a]] for a in range(n)]
        F = [S[a] * (F[a] - l * v[a] * v[a]) for a in range(n)]
    return I, stopped, safe, forced_zero


def _sim_rect_exact(B, I0, e, r_min, r_max, bits=20):
    """rect phase (masked arg-max) on Fractions, tracking whether the binary64 run is exact: every value of B, v, F, l
    is a dyadic with at most `bits` significant bits (so every product needs <= 2*bits <= 53 bits) and every divisor
    1 + v_i is a power of two.  With an exact run all ties are resolved identically by numpy and by the model.
    Returns I, stopped_by_test, forced_zero, exact"""
    def sh(x):
        return _short(x, bits)
    n = len(B)
    S = [1] * n
    for i in I0:
        S[i] = 0
    F = [S[a] * sum(x * x for x in B[a]) for a in range(n)]
    I = list(I0)
    B = [row[:] for row in B]
    exact = all(sh(x) for row in B for x in row) and all(sh(x) for x in F)
    forced_zero, stopped = False, False
    e2 = e * e
    for k in range(len(I0), r_max):
        cands = [a for a in range(n) if S[a]]
        m = max(F[a] for a in cands)
        i = next(a for a in cands if F[a] == m)
        if k >= r_min and m <= e2:
            stopped = True
            break
        if m == 0:
            forced_zero = True
        I.append(i)
        S[i] = 0
        v = [sum(B[a][j] * B[i][j] for j in range(len(B[a]))) for a in range(n)]
        lden = 1 + v[i]
        exact = exact and _pow2(lden) and all(sh(x) for x in v)
        l = 1 / lden
        bi = B[i][:]
        B = [[B[a][j] - l * (v[a] * bi[j]) for j in range(len(bi))] + [l * v[a]] for a in range(n)]
        F = [S[a] * (F[a] - l * v[a] * v[a]) for a in range(n)]
        exact = exact and all(sh(x) for row in B for x in row) and all(sh(x) for x in F) and \
            all(sh(l * x) and sh(l * x * x) for x in v)
    return I, stopped, forced_zero, exact


def _dupclass(A):
    keys = {}
    out = []
    for a, row in enumerate(A):
        out.append(keys.setdefault(tuple(row), a))
    return out


# ----------------------------------------------------------------------------------------------------
# generators
# ----------------------------------------------------------------------------------------------------

E_ANY = [Fr(101, 100), Fr(21, 20), Fr(11, 10), Fr(5, 4), Fr(3, 2), Fr(2), Fr(3)]
E_DY = [Fr(65, 64), Fr(17, 16), Fr(9, 8), Fr(5, 4), Fr(3, 2), Fr(2)]


def _rank_ok(A):
    try:
        _sim_lu(A)
        return True
    except Singular:
        return False


def _gen_int(rng, r, n, kind, pool):
    """tall integer / dyadic matrix of full column rank with the requested degenerate rows"""
    for _ in range(200):
        A = [[rng.choice(pool) for _ in range(r)] for _ in range(n)]
        if 'zero' in kind:
            for a in rng.sample(range(n), rng.randint(1, max(1, n - r))):
                A[a] = [Fr(0)] * r
        if 'dup' in kind:
            for _ in range(rng.randint(1, max(1, n // 2))):
                a, b = rng.randrange(n), rng.randrange(n)
                A[a] = list(A[b])
        if _rank_ok(A):
            return A
    # fall back: identity block on top
    A = [[Fr(int(i == j)) for j in range(r)] for i in range(r)] + [[Fr(0)] * r for _ in range(n - r)]
    return A


def _gen_lu_exact(rng, r, n, kind):
    """A = P L U with |L| <= 1 dyadic, U upper triangular with power-of-two diagonal: partial pivoting and both
    triangular solves are exact in binary64, B0 = L inv(L[:r]) is dyadic and often has entries > 1"""
    lp = [Fr(0), Fr(1), Fr(-1), Fr(1), Fr(-1), Fr(1), Fr(-1), Fr(1, 2), Fr(-1, 2)]
    for _ in range(100):
        L = [[(Fr(1) if i == j else (rng.choice(lp) if j < i else Fr(0))) for j in range(r)] for i in range(n)]
        U = [[(rng.choice([Fr(1), Fr(-1), Fr(2), Fr(-2), Fr(4), Fr(1, 2)]) if i == j else
               (Fr(rng.randint(-3, 3)) if j > i else Fr(0))) for j in range(r)] for i in range(r)]
        if 'zero' in kind:
            for a in rng.sample(range(r, n), rng.randint(1, max(1, (n - r) // 2))):
                L[a] = [Fr(0)] * r
        if 'dup' in kind:
            for _ in range(rng.randint(1, max(1, n // 3))):
                a, b = rng.randrange(r, n), rng.randrange(n)
                L[a] = [L[b][j] if j <= min(a, r - 1) else Fr(0) for j in range(r)]
                if b < r:
                    L[a] = [L[b][j] for j in range(r)]
        A = [[sum(L[i][l] * U[l][j] for l in range(r)) for j in range(r)] for i in range(n)]
        rng.shuffle(A)
        if _rank_ok(A):
            return A
    return _gen_int(rng, r, n, kind, POOL_P2)


def _gen_L(rng, r, n, pool):
    """A = P L with L unit lower trapezoidal whose sub-diagonal entries have magnitude close to 1: partial pivoting starts
    from a poor submatrix (B0 = L inv(L[:r]) grows), the iteration needs several swaps and rows of the initial
    submatrix that were swapped out regain dominance and re-enter"""
    L = [[(Fr(1) if i == j else (rng.choice(pool) * rng.choice([1, -1]) if j < i else Fr(0))) for j in range(r)]
         for i in range(n)]
    rng.shuffle(L)
    return L


def _float_prefilter(A, e):
    """cheap float walk (generator side only): (number of swaps, does a row of the initial submatrix re-enter?)"""
    from scipy.linalg import lu as _lu, solve_triangular as _st
    A = _fA(A)
    n, r = A.shape
    try:
        Pm, L, U = _lu(A, check_finite=False)
        I = Pm[:, :r].argmax(axis=0)
        B = _st(L[:r, :], _st(U, A.T, trans=1, check_finite=False), trans=1, check_finite=False,
                unit_diagonal=True, lower=True).T
    except Exception:   # noqa
        return 0, False
    if not np.all(np.isfinite(B)):
        return 0, False
    ini, sw, re = set(I.tolist()), 0, False
    for _ in range(200):
        i, j = divmod(int(np.abs(B).argmax()), r)
        if abs(B[i, j]) <= e:
            break
        re = re or i in ini
        I[j] = i
        bi = B[i, :].copy()
        bi[j] -= 1.0
        B = B - np.outer(B[:, j], bi / B[i, j])
        sw += 1
    return sw, re


def _form_A(rng, A):
    """argument form of A for the implementation side of a correspondence case (the model sees the same numbers):
    C / F-ordered / non-contiguous / transposed view float64, int64 / int32 when A is integer valued"""
    M = _fA(A)
    n, r = M.shape
    integral = all(Fr(x).denominator == 1 and abs(Fr(x)) < 2 ** 30 for row in A for x in row)
    ch = rng.choice(['C', 'C', 'F', 'strided', 'T-view', 'int64', 'int32'])
    if ch in ('int64', 'int32') and not integral:
        ch = 'F'
    if ch == 'F':
        return ch, np.asfortranarray(M)
    if ch == 'strided':
        big = np.full((2 * n + 1, 3 * r + 2), -3.25)
        big[1::2, ::3][:n, :r] = M
        return ch, big[1::2, ::3][:n, :r]
    if ch == 'T-view':
        return ch, np.ascontiguousarray(M.T).T
    if ch in ('int64', 'int32'):
        return ch, M.astype(ch)
    return ch, M


def _form_f(rng, x):
    return rng.choice([float, float, np.float64, lambda v: np.array(float(v))])(float(x))


def _form_i(rng, x):
    if x is None:
        return None
    return rng.choice([int, int, np.int64, np.int32, lambda v: np.array(int(v))])(int(x))


def _scale_pow(rng):
    """exact power-of-two rescaling of the whole matrix (applied to model and implementation alike, AFTER the
    classification walk: it commutes exactly with every operation of the algorithm)"""
    return rng.choice([0, 0, 0, 0, 0, 500, -500, 200, -200, 1])


def _scaled(A, p):
    return A if p == 0 else [[Fr(x) * Fr(2) ** p for x in row] for row in A]


def _form_note(dist, key):
    dist.setdefault('forms', {})
    dist['forms'][key] = dist['forms'].get(key, 0) + 1


POOL_L64 = [Fr(k, 64) for k in range(44, 65)]
POOL_LDY = [Fr(1), Fr(1), Fr(1, 2), Fr(3, 4)]
POOL_INT = [Fr(x) for x in range(-5, 6)]
POOL_P2 = [Fr(x) for x in (0, 0, 1, -1, 1, -1, 2, -2, 4, -4)] + [Fr(1, 2), Fr(-1, 2)]


def _pick_k(rng, need):
    return rng.choice([0, max(need - 1, 0), need, need + 1, need + 2, rng.randint(0, need + 2)])


def _gen_cond(rng, nprng, r, n, cond, kind):
    """float matrix with prescribed condition number, optional duplicate / zero rows (still full column rank)"""
    m = n
    nz = nd = 0
    if 'zero' in kind:
        nz = rng.randint(1, max(1, (n - r) // 2))
    if 'dup' in kind:
        nd = rng.randint(1, max(1, (n - r) // 2))
    m = n - nz - nd
    if m < r:
        m, nz, nd = n, 0, 0
    U, _ = np.linalg.qr(nprng.normal(size=(m, r)))
    V, _ = np.linalg.qr(nprng.normal(size=(r, r)))
    s = np.logspace(0, -np.log10(cond), r) if r > 1 else np.ones(1)
    A = (U * s) @ V.T
    rows = [A[a] for a in range(m)]
    for _ in range(nd):
        rows.insert(rng.randrange(len(rows) + 1), rows[rng.randrange(len(rows))].copy())
    for _ in range(nz):
        rows.insert(rng.randrange(len(rows) + 1), np.zeros(r))
    return np.array(rows)


# ----------------------------------------------------------------------------------------------------
# comparison
# ----------------------------------------------------------------------------------------------------

def _model_val(v, kind):
    code, I, B = v
    if code != 0:
        return (code, None, None)
    if kind == 'q':
        Bf = [[Fr(a, b) for a, b in row] for row in B]
    else:
        Bf = [[C.float_of_show(p) for p in row] for row in B]
    return (0, list(I), Bf)


def _agree(model, impl, tol=1e-9, exact=False):
    """model: (code, I, B as Fractions/floats)   impl: (code, I, ndarray).  Returns None or a message"""
    if model[0] != impl[0]:
        return f'outcome {model[0]} vs {impl[0]}'
    if model[0] != 0:
        return None
    if model[1] != impl[1]:
        return f'index vector {model[1]} vs {impl[1]}'
    Bm, Bi = model[2], impl[2]
    if len(Bm) != Bi.shape[0] or (len(Bm) and len(Bm[0]) != Bi.shape[1]):
        return f'shape of B {len(Bm)}x{len(Bm[0]) if Bm else 0} vs {Bi.shape}'
    for a, row in enumerate(Bm):
        for j, x in enumerate(row):
            y = float(Bi[a, j])
            if exact:
                if Fr(x) != Fr(y):
                    return f'B[{a},{j}] {x} vs {y!r} (exact comparison)'
            elif not abs(float(x) - y) <= tol * max(1.0, abs(float(x))):
                return f'B[{a},{j}] {float(x)!r} vs {y!r}'
    return None


def _bit_equal(model, impl):
    if model[0] != 0 or impl[0] != 0:
        return model[0] == impl[0]
    return all(float(x) == float(impl[2][a, j]) for a, row in enumerate(model[2]) for j, x in enumerate(row))


def _run_stream(R, name, items, kind, dist, chunk, tol=1e-9):
    """items: dict(coq=[terms], impl=..., input=..., exact=bool, flagged=bool).  Each case is a list of rty values:
    [repaired-model result, (pinned-model result if flagged), (contract check)]"""
    vals = C.run_cases(f'C08_{name}', HEADER, ['[' + '; '.join(it['coq']) + ']' for it in items], chunk=chunk)
    bad, pinned, biteq = [], 0, 0
    for it, v in zip(items, vals):
        R.add_distinct((name, it['input']))
        res = [_model_val(x, kind) for x in v[:2 if it.get('flagged') else 1]]
        it['model'] = res[0]
        msg = _agree(res[0], it['impl'], tol, exact=it.get('exact', False))
        if msg is None and kind == 'f' and _bit_equal(res[0], it['impl']):
            biteq += 1
        if msg is not None and it.get('flagged'):
            # diagnosis only: the model of the code is the masked arg-max; agreeing with the pinned variant is a mismatch
            if _agree(res[1], it['impl'], tol, exact=it.get('exact', False)) is None:
                pinned += 1
                msg = ('implementation agrees with the PINNED variant i = np.argmax(F) (maxvol_rect_pinned), not with the '
                       'model of the code i = np.argmax(np.where(S > 0, F, -1.)): ' + msg)
        for extra in v[(2 if it.get('flagged') else 1):]:
            if extra[0] != 0 and msg is None:
                msg = 'oracle contract lu_contract_b fails exactly on the recorded initialisation'
        if msg is None and it.get('contract'):
            msg = 'recorded LU initialisation violates its contract: ' + it['contract']
        if msg is not None:
            bad.append(dict(stream=name, input=it['input'], why=msg,
                            model=[res[0][0], res[0][1]], impl=[it['impl'][0], it['impl'][1]]))
    d = dict(dist)
    if kind == 'f':
        d['bit_identical_B'] = biteq
    if any(it.get('flagged') for it in items):
        d['zero_residual_cases_checked_against_both_variants'] = sum(1 for it in items if it.get('flagged'))
        d['of_which_impl_matches_pinned_variant_only'] = pinned
    R.corr.append(dict(name=name, cases=len(items), mismatches=len(bad),
                       comparison=('index vector exact, B exact' if name in ('qc_exact_tie', 'qc_rect_zero_exact') else
                                   f'index vector / exception class exact, B to {tol:g} relative'),
                       distribution=d, first_mismatches=bad[:3]))
    if items:
        it = items[0]
        R.samples.append(dict(stream=name, input=it['input'], model_I=it['model'][1], impl_I=it['impl'][1]))
    return bad, pinned


def _jin(A):
    return [[(int(x) if Fr(x).denominator == 1 else str(Fr(x))) for x in row] for row in A]


def _fA(A):
    return np.array([[float(x) for x in row] for row in A], float).reshape(len(A), len(A[0]) if A else 0)


# ----------------------------------------------------------------------------------------------------
# correspondence
# ----------------------------------------------------------------------------------------------------

def correspondence(R, ctx):
    tn = C.import_teneva()
    rng = ctx['rng']
    nprng = np.random.default_rng(rng.randrange(2 ** 32))
    th = ctx['thorough']
    mult = 6 if th else 1
    rmax = 5 if th else 4
    bad_all, n_pinned, n_flagged = [], 0, 0

    # ---- qc_maxvol -------------------------------------------------------------------------------
    items, dist = [], dict(kinds={}, r_n=set(), dropped_near_tie=0, swaps={}, limit_hit=0, converged=0)
    tries = 0
    while len(items) < 140 * mult and tries < 4000 * mult:
        tries += 1
        want = len(items) % 3 != 0          # two cases out of three must swap at least once
        r = rng.randint(2 if want else 1, rmax)
        n = rng.choice([2 * r, 2 * r + 1, 3 * r] if want else [r + 1, r + 1, r + 2, 2 * r, 2 * r + 1, 3 * r])
        n = max(n, r + 1)
        kind = rng.choice(['generic', 'generic', 'zero', 'dup', 'dupzero'])
        A = _gen_int(rng, r, n, kind, POOL_INT)
        e = rng.choice(E_ANY[:4] if want else E_ANY)
        I0, B0, tf, ex = _sim_lu(A)
        _, _, need, _, _, _ = _sim_loop(B0, I0, e, 1000, False, False)
        if want and need == 0:
            continue
        k = _pick_k(rng, need)
        _, _, sw, conv, safe, _ = _sim_loop(B0, I0, e, k, False, False)
        if not (tf and safe):
            dist['dropped_near_tie'] += 1
            continue
        p2 = _scale_pow(rng)
        As = _scaled(A, p2)
        fa, Aarg = _form_A(rng, As)
        _form_note(dist, fa + ('' if p2 == 0 else ' * 2^%d' % p2))
        with Recorder() as rec:
            impl = _impl(tn.maxvol, Aarg, _form_f(rng, e), _form_i(rng, k))
        contract = _validate_init(_fA(As), rec.calls[0][0], rec.calls[0][1], 1e3) if rec.calls else 'no LU call recorded'
        items.append(dict(coq=[f'showRQ (maxvol OQc QX {_qmat(As)} {_qe(e)} {k})'], impl=impl, contract=contract,
                          input=dict(f='maxvol', A=_jin(As), e=str(e), k=k, A_form=fa)))
        dist['kinds'][kind] = dist['kinds'].get(kind, 0) + 1
        dist['r_n'].add((r, n))
        dist['swaps'][sw] = dist['swaps'].get(sw, 0) + 1
        dist['converged' if conv else 'limit_hit'] += 1
    dist['r_n'] = sorted(dist['r_n'])
    b, s = _run_stream(R, 'qc_maxvol', items, 'q', dist, chunk=10)
    bad_all += b

    # ---- qc_maxvol_reentry: >= 3 swaps, a row of the initial submatrix is swapped out and re-enters -------------
    items, dist = [], dict(candidates=0, accepted=0, exact_runs=0, swaps={}, reentries={}, r_n=set(), limit_hit=0,
                           converged=0, families={})
    tries = 0
    while len(items) < 40 * mult and tries < 40000 * mult:
        tries += 1
        r = rng.choice([3, 4, 4, 5])
        n = rng.randint(r + 2, 3 * r)
        fam = rng.choice(['L64', 'L64', 'L64', 'L64', 'Ldy', 'int'])
        A = (_gen_L(rng, r, n, POOL_L64) if fam == 'L64' else _gen_L(rng, r, n, POOL_LDY) if fam == 'Ldy'
             else _gen_int(rng, r, n, 'generic', [Fr(x) for x in range(-9, 10)]))
        e = rng.choice(E_DY[:4] if fam == 'Ldy' else E_ANY[:4])
        dist['candidates'] += 1
        fsw, fre = _float_prefilter(A, float(e))
        if fsw < 3 or not fre:
            continue
        try:
            I0, B0, tf, ex = _sim_lu(A)
        except Singular:
            continue
        tr = []
        _, _, need, _, safe, ex2 = _sim_loop(B0, I0, e, 1000, bool(ex), fam == 'Ldy', trace=tr)
        ini = set(I0)
        reent = [t for t, (i, j) in enumerate(tr) if i in ini]
        if need < 3 or not reent:
            continue
        exact = bool(ex and ex2)
        if not exact and not (tf and safe):
            continue
        # iteration limit: beyond the last re-entry in two cases out of three, else anywhere
        k = rng.choice([need, need + 2, 100]) if len(items) % 3 else rng.randint(reent[0] + 1, need + 1)
        with Recorder() as rec:
            impl = _impl(tn.maxvol, _fA(A), float(e), k)
        if not rec.calls:
            continue
        rI0, rB0 = rec.calls[0]
        if exact and (rI0 != I0 or any(Fr(float(rB0[a, j])) != B0[a][j] for a in range(n) for j in range(r))):
            exact = False
            if not (tf and safe):
                continue
        contract = _validate_init(_fA(A), rI0, rB0, 1e3)
        items.append(dict(coq=[f'showRQ (maxvol OQc QX {_qmat(A)} {_qe(e)} {k})'], impl=impl, contract=contract, exact=exact,
                          input=dict(f='maxvol', A=_jin(A), e=str(e), k=k, reentry=True)))
        dist['accepted'] += 1
        dist['exact_runs'] += int(exact)
        dist['families'][fam] = dist['families'].get(fam, 0) + 1
        dist['swaps'][need] = dist['swaps'].get(need, 0) + 1
        dist['reentries'][len(reent)] = dist['reentries'].get(len(reent), 0) + 1
        dist['converged' if k >= need else 'limit_hit'] += 1
        dist['r_n'].add((r, n))
    dist['r_n'] = sorted(dist['r_n'])
    b, s = _run_stream(R, 'qc_maxvol_reentry', items, 'q', dist, chunk=6)
    bad_all += b

    # ---- qc_exact_tie ------------------------------------------------------------------------------
    items, dist = [], dict(candidates=0, accepted=0, with_argmax_tie=0, with_threshold_tie=0, swaps={}, rect=0)
    tries = 0
    while len(items) < 80 * mult and tries < 30000 * mult:
        tries += 1
        want = len(items) % 3 != 0
        r = rng.randint(2 if want else 1, 4)
        n = rng.choice([r + 1, r + 2, 2 * r, 2 * r + 1, 3 * r])
        n = max(n, r + 1)
        kind = rng.choice(['generic', 'zero', 'dup', 'dupzero'])
        A = _gen_lu_exact(rng, r, n, kind) if rng.random() < 0.85 else _gen_int(rng, r, n, kind, POOL_P2)
        e = rng.choice(E_DY + ([] if want else [Fr(2), Fr(4)]))
        dist['candidates'] += 1
        I0, B0, tf, ex = _sim_lu(A)
        if not ex:
            continue
        _, _, need, _, _, ex2 = _sim_loop(B0, I0, e, 1000, True, True)
        if not ex2 or (want and need == 0):
            continue
        k = _pick_k(rng, need)
        I1, B1, sw, conv, safe, ex3 = _sim_loop(B0, I0, e, k, True, True)
        # interesting: some tie in the run
        flat = sorted((abs(x) for row in B0 for x in row), reverse=True)
        has_tie = len(flat) > 1 and flat[0] == flat[1] and flat[0] > e
        thr_tie = any(abs(x) == e for row in B1 for x in row) or any(abs(x) == e for row in B0 for x in row)
        if not (has_tie or thr_tie or sw > 0) and rng.random() < 0.8:
            continue
        with Recorder() as rec:
            impl = _impl(tn.maxvol, _fA(A), float(e), k)
        if not rec.calls:
            continue
        rI0, rB0 = rec.calls[0]
        # a-posteriori: the recorded initialisation must be the exact one, otherwise the run is not exact in binary64
        if rI0 != I0 or any(Fr(float(rB0[a, j])) != B0[a][j] for a in range(n) for j in range(r)):
            continue
        dist['accepted'] += 1
        dist['with_argmax_tie'] += int(has_tie)
        dist['with_threshold_tie'] += int(thr_tie)
        dist['swaps'][sw] = dist['swaps'].get(sw, 0) + 1
        rB0q = '(mk_mat %d %d %s)' % (n, r, C.nested([[Fr(float(x)) for x in row] for row in rB0.tolist()], C.qlit))
        items.append(dict(coq=[f'showRQ (maxvol OQc QX {_qmat(A)} {_qe(e)} {k})',
                               f'showB (lu_contract_b OQc {_qmat(A)} {_natl(rI0)} {rB0q})'],
                          impl=impl, exact=True, input=dict(f='maxvol', A=_jin(A), e=str(e), k=k, exact=True)))
    b, s = _run_stream(R, 'qc_exact_tie', items, 'q', dist, chunk=10)
    bad_all += b

    # ---- qc_rect -----------------------------------------------------------------------------------
    items, dist = [], dict(kinds={}, dr={}, dropped_near_tie=0, stopped_by_test=0, upper_limit=0,
                           forced_zero_residual=0, dr_max_none=0)
    tries = 0
    fixed_first = [dict(A=[[1], [0]], e=Fr(11, 10), dr_min=1, dr_max=1, e0=Fr(21, 20), k0=10),
                   dict(A=[[1, 2, 0], [0, 1, 3], [2, 0, 1], [0, 0, 0], [0, 0, 0], [0, 0, 0], [0, 0, 0]],
                        e=Fr(11, 10), dr_min=2, dr_max=None, e0=Fr(21, 20), k0=10),
                   dict(A=[[0], [1], [0]], e=Fr(11, 10), dr_min=2, dr_max=2, e0=Fr(21, 20), k0=10)]
    while len(items) < 150 * mult and tries < 6000 * mult:
        tries += 1
        if fixed_first:
            g = fixed_first.pop(0)
            A = [[Fr(x) for x in row] for row in g['A']]
            r, n, kind = len(A[0]), len(A), 'zero'
            e, dr_min, dr_max, e0, k0 = g['e'], g['dr_min'], g['dr_max'], g['e0'], g['k0']
        else:
            r = rng.randint(1, rmax - 1)
            n = max(r + 1, rng.choice([r + 1, r + 2, 2 * r, 2 * r + 1, 3 * r]))
            kind = rng.choice(['generic', 'generic', 'zero', 'zero', 'dup', 'dupzero'])
            A = _gen_int(rng, r, n, kind, POOL_INT)
            e = rng.choice([Fr(101, 100), Fr(11, 10), Fr(5, 4), Fr(3, 2), Fr(2)])
            if rng.random() < 0.08:         # "never add rows for accuracy": e*e overflows to inf in binary64, exact in Qc
                e = rng.choice([Fr(1e200), Fr(sys.float_info.max), Fr(2e154)])
            e0 = rng.choice(E_ANY)
            dr_min = rng.randint(0, n - r)
            dr_max = rng.choice([None, dr_min, rng.randint(dr_min, n - r + 2), n - r])
            if dr_max is not None and dr_max < dr_min:
                dr_max = dr_min
            I0, B0, tf, ex = _sim_lu(A)
            _, _, need, _, _, _ = _sim_loop(B0, I0, e0, 1000, False, False)
            k0 = rng.choice([need + 2, need + 2, 10, _pick_k(rng, need)])
        I0, B0, tf, ex = _sim_lu(A)
        I1, B1, sw, conv, safe, _ = _sim_loop(B0, I0, e0, k0, False, False)
        r_min = r + dr_min
        r_max = min(n, n if dr_max is None else r + dr_max)
        I2, stopped, safe2, fz = _sim_rect(B1, I1, e, r_min, r_max, _dupclass(A), False)
        if not (tf and safe and safe2):
            dist['dropped_near_tie'] += 1
            continue
        p2 = _scale_pow(rng)
        As = _scaled(A, p2)
        fa, Aarg = _form_A(rng, As)
        _form_note(dist, fa + ('' if p2 == 0 else ' * 2^%d' % p2))
        impl = _impl(tn.maxvol_rect, Aarg, _form_f(rng, e), _form_i(rng, dr_min), _form_i(rng, dr_max), _form_f(rng, e0),
                     _form_i(rng, k0))
        args = f'{_qmat(As)} {_qe(e)} ({dr_min})%Z {_optz(dr_max)} {_qe(e0)} {k0}'
        coq = [f'showRQ (maxvol_rect OQc QX {args})']
        if fz:
            coq.append(f'showRQ (maxvol_rect_pinned OQc QX {args})')
        items.append(dict(coq=coq, impl=impl, flagged=fz,
                          input=dict(f='maxvol_rect', A=_jin(As), e=str(e), dr_min=dr_min, dr_max=dr_max, e0=str(e0), k0=k0,
                                     A_form=fa)))
        dist['kinds'][kind] = dist['kinds'].get(kind, 0) + 1
        key = f'{dr_min},{dr_max}'
        dist['dr'][key] = dist['dr'].get(key, 0) + 1
        dist['stopped_by_test' if stopped else 'upper_limit'] += 1
        dist['forced_zero_residual'] += int(fz)
        dist['dr_max_none'] += int(dr_max is None)
    b, s = _run_stream(R, 'qc_rect', items, 'q', dist, chunk=8)
    bad_all += b
    n_pinned += s
    n_flagged += sum(1 for it in items if it.get('flagged'))

    # ---- qc_rect_zero_exact: zero-residual / duplicate-row family, whole run exact in binary64 -------------
    items, dist = [], dict(candidates=0, accepted=0, forced_zero_residual=0, stopped_by_test=0, upper_limit=0,
                           with_duplicate_rows=0, zero_rows={}, dr={}, r_n=set())
    fixed_first = [dict(A=[[1], [0]], e=Fr(9, 8), dr_min=1, dr_max=1, e0=Fr(17, 16), k0=10),
                   dict(A=[[0], [2], [0], [0]], e=Fr(9, 8), dr_min=2, dr_max=None, e0=Fr(17, 16), k0=10),
                   dict(A=[[0, 0], [1, 0], [1, 0], [0, 2], [0, 0]], e=Fr(9, 8), dr_min=3, dr_max=3, e0=Fr(17, 16), k0=10),
                   dict(A=[[1, 2, 0], [0, 1, 3], [2, 0, 1], [0, 0, 0], [0, 0, 0], [0, 0, 0], [0, 0, 0]],
                        e=Fr(9, 8), dr_min=2, dr_max=None, e0=Fr(17, 16), k0=10)]
    tries = 0
    while len(items) < 70 * mult and tries < 30000 * mult:
        tries += 1
        if fixed_first:
            g = fixed_first.pop(0)
            A = [[Fr(x) for x in row] for row in g['A']]
            r, n = len(A[0]), len(A)
            e, dr_min, dr_max, e0, k0 = g['e'], g['dr_min'], g['dr_max'], g['e0'], g['k0']
        else:
            r = rng.randint(1, 3)
            nb = r + rng.randint(0, 2)                   # rows of an exact-LU block (full column rank)
            M = _gen_lu_exact(rng, r, max(nb, r + 1), 'generic')[:nb]
            if len(M) < r or not _rank_ok(M + [[Fr(0)] * r]):
                continue
            rows = [list(x) for x in M]
            for _ in range(rng.randint(0, 2)):           # duplicates of rows of the block
                rows.append(list(rng.choice(M)))
            nzero = rng.randint(1, 3)
            rows += [[Fr(0)] * r for _ in range(nzero)]
            rng.shuffle(rows)
            A = rows
            n = len(A)
            if n <= r:
                continue
            e, e0 = rng.choice(E_DY), rng.choice(E_DY)
            k0 = rng.choice([0, 1, 2, 10])
            # two cases out of three: dr_min reaches into the zero rows
            nonzero = sum(1 for row in A if any(x != 0 for x in row))
            lo = max(0, nonzero - r + 1) if len(items) % 3 != 0 else 0
            if lo > n - r:
                continue
            dr_min = rng.randint(lo, n - r)
            dr_max = rng.choice([None, dr_min, n - r, rng.randint(dr_min, n - r + 1)])
        dist['candidates'] += 1
        try:
            I0, B0, tf, ex = _sim_lu(A)
        except Singular:
            continue
        if not ex:
            continue
        I1, B1, sw, conv, safe, ex2 = _sim_loop(B0, I0, e0, k0, True, True)
        if not ex2:
            continue
        r_min = r + dr_min
        r_max = min(n, n if dr_max is None else r + dr_max)
        I2, stopped, fz, ex3 = _sim_rect_exact(B1, I1, e, r_min, r_max)
        if not ex3:
            continue
        with Recorder() as rec:
            impl = _impl(tn.maxvol_rect, _fA(A), float(e), dr_min, dr_max, float(e0), k0)
        if not rec.calls:
            continue
        rI0, rB0 = rec.calls[0]
        # a-posteriori: the recorded initialisation must be the exact one, otherwise the run is not exact in binary64
        if rI0 != I0 or any(Fr(float(rB0[a, j])) != B0[a][j] for a in range(n) for j in range(r)):
            continue
        args = f'{_qmat(A)} {_qe(e)} ({dr_min})%Z {_optz(dr_max)} {_qe(e0)} {k0}'
        coq = [f'showRQ (maxvol_rect OQc QX {args})']
        if fz:
            coq.append(f'showRQ (maxvol_rect_pinned OQc QX {args})')
        rB0q = '(mk_mat %d %d %s)' % (n, r, C.nested([[Fr(float(x)) for x in row] for row in rB0.tolist()], C.qlit))
        coq.append(f'showB (lu_contract_b OQc {_qmat(A)} {_natl(rI0)} {rB0q})')
        items.append(dict(coq=coq, impl=impl, flagged=fz, exact=True,
                          input=dict(f='maxvol_rect', A=_jin(A), e=str(e), dr_min=dr_min, dr_max=dr_max, e0=str(e0), k0=k0,
                                     exact=True)))
        dist['accepted'] += 1
        dist['forced_zero_residual'] += int(fz)
        dist['stopped_by_test' if stopped else 'upper_limit'] += 1
        nzrows = [tuple(row) for row in A if any(row)]
        dist['with_duplicate_rows'] += int(len(set(nzrows)) < len(nzrows))
        nz = n - len(nzrows)
        dist['zero_rows'][nz] = dist['zero_rows'].get(nz, 0) + 1
        key = f'{dr_min},{dr_max}'
        dist['dr'][key] = dist['dr'].get(key, 0) + 1
        dist['r_n'].add((r, n))
    dist['r_n'] = sorted(dist['r_n'])
    b, s = _run_stream(R, 'qc_rect_zero_exact', items, 'q', dist, chunk=8)
    bad_all += b
    n_pinned += s
    n_flagged += sum(1 for it in items if it.get('flagged'))

    # ---- qc_dispatch (utils._maxvol) ---------------------------------------------------------------
    items, dist = [], dict(trivial_n_le_r=0, to_maxvol=0, to_rect=0, dropped_near_tie=0, forced_zero_residual=0)
    tries = 0
    while len(items) < 60 * mult and tries < 3000 * mult:
        tries += 1
        r = rng.randint(1, rmax - 1)
        shape = rng.choice(['wide', 'square', 'tall', 'tall', 'tall'])
        n = {'wide': rng.randint(1, r), 'square': r}.get(shape, max(r + 1, rng.choice([r + 1, r + 2, 2 * r, 3 * r])))
        tau, tau0 = rng.choice([Fr(11, 10), Fr(3, 2), Fr(2)]), rng.choice(E_ANY)
        dr_min = rng.randint(0, 4)
        dr_max = rng.choice([0, 0, dr_min, dr_min + rng.randint(0, 3), rng.randint(0, 5)])
        k0 = rng.choice([0, 1, 2, 5, 100])
        if n <= r:
            A = [[Fr(rng.randint(-5, 5)) for _ in range(r)] for _ in range(n)]
            fz = False
            dist['trivial_n_le_r'] += 1
        else:
            A = _gen_int(rng, r, n, rng.choice(['generic', 'zero', 'dup']), POOL_INT)
            I0, B0, tf, ex = _sim_lu(A)
            I1, B1, sw, conv, safe, _ = _sim_loop(B0, I0, tau0, k0, False, False)
            d1 = min(dr_max, n - r)
            d0 = min(dr_min, d1)
            fz, safe2 = False, True
            if d1 != 0:
                _, _, safe2, fz = _sim_rect(B1, I1, tau, r + d0, min(n, r + d1), _dupclass(A), False)
            if not (tf and safe and safe2):
                dist['dropped_near_tie'] += 1
                continue
            dist['to_maxvol' if d1 == 0 else 'to_rect'] += 1
            dist['forced_zero_residual'] += int(fz)
        fa, Aarg = _form_A(rng, A)
        _form_note(dist, fa)
        impl = _impl(tn._maxvol, Aarg, _form_f(rng, tau), _form_i(rng, dr_min), _form_i(rng, dr_max), _form_f(rng, tau0),
                     _form_i(rng, k0))
        args = f'QX {_qmat(A)} {_qe(tau)} ({dr_min})%Z ({dr_max})%Z {_qe(tau0)} {k0}'
        coq = [f'showRQ (maxvol_dispatch OQc true {args})']
        if fz:
            coq.append(f'showRQ (maxvol_dispatch OQc false {args})')
        items.append(dict(coq=coq, impl=impl, flagged=fz,
                          input=dict(f='_maxvol', A=_jin(A), tau=str(tau), dr_min=dr_min, dr_max=dr_max, tau0=str(tau0), k0=k0)))
    b, s = _run_stream(R, 'qc_dispatch', items, 'q', dist, chunk=8)
    bad_all += b
    n_pinned += s
    n_flagged += sum(1 for it in items if it.get('flagged'))

    # ---- errors ------------------------------------------------------------------------------------
    items, dist = [], dict(wide_or_square=0, bad_dr=0)
    for _ in range(30 * mult):
        r = rng.randint(1, 4)
        n = rng.randint(1, r)
        A = [[Fr(rng.randint(-5, 5)) for _ in range(r)] for _ in range(n)]
        e = rng.choice(E_ANY)
        k = rng.randint(0, 5)
        dist['wide_or_square'] += 1
        items.append(dict(coq=[f'showRQ (maxvol OQc QX {_qmat(A)} {_qe(e)} {k})'],
                          impl=_impl(tn.maxvol, _fA(A), float(e), k), input=dict(f='maxvol', A=_jin(A), e=str(e), k=k)))
        dr_min = rng.randint(0, 2)
        dr_max = rng.choice([None, dr_min, dr_min + 1])
        items.append(dict(coq=[f'showRQ (maxvol_rect OQc QX {_qmat(A)} {_qe(e)} ({dr_min})%Z {_optz(dr_max)} {_qe(e)} {k})'],
                          impl=_impl(tn.maxvol_rect, _fA(A), float(e), dr_min, dr_max, float(e), k),
                          input=dict(f='maxvol_rect', A=_jin(A), e=str(e), dr_min=dr_min, dr_max=dr_max, e0=str(e), k0=k)))
    for _ in range(40 * mult):
        r = rng.randint(1, 3)
        n = rng.randint(r + 1, 3 * r + 1)
        A = _gen_int(rng, r, n, 'generic', POOL_INT)
        e = rng.choice(E_ANY)
        bad = rng.choice(['neg_min', 'min_gt_max', 'min_gt_n', 'neg_max', 'both_neg'])
        dr_min, dr_max = {'neg_min': (-rng.randint(1, 3), rng.choice([None, 1])),
                          'min_gt_max': (rng.randint(1, n - r), 0) if n - r >= 1 else (1, 0),
                          'min_gt_n': (n - r + rng.randint(1, 3), None),
                          'neg_max': (0, -rng.randint(1, 3)),
                          'both_neg': (-2, -1)}[bad]
        dist['bad_dr'] += 1
        items.append(dict(coq=[f'showRQ (maxvol_rect OQc QX {_qmat(A)} {_qe(e)} ({dr_min})%Z {_optz(dr_max)} {_qe(e)} 3)'],
                          impl=_impl(tn.maxvol_rect, _fA(A), float(e), dr_min, dr_max, float(e), 3),
                          input=dict(f='maxvol_rect', A=_jin(A), e=str(e), dr_min=dr_min, dr_max=dr_max, e0=str(e), k0=3, bad=bad)))
    b, s = _run_stream(R, 'errors', items, 'q', dist, chunk=25)
    bad_all += b

    # ---- float streams: PrimFloat instance + replayed initialisation -----------------------------------
    for name in ('f_maxvol', 'f_rect'):
        items = []
        dist = dict(cond_log10={}, kinds={}, r_n=set(), dropped_near_tie=0, swaps={}, stopped_by_test=0,
                    upper_limit=0, forced_zero_residual=0, limit_hit=0, converged=0)
        tries = 0
        target = (70 if name == 'f_maxvol' else 60) * mult
        while len(items) < target and tries < 3000 * mult:
            tries += 1
            want = len(items) % 3 != 0      # two cases out of three must swap at least once
            r = rng.randint(2 if want else 1, 8 if th else 6)
            n = max(r + 1, rng.choice([3 * r, 5 * r, 8 * r] if want else [r + 1, r + 2, 2 * r, 3 * r, 5 * r]))
            lc = rng.choice([0, 1, 2, 4, 6, 8])
            kind = rng.choice(['generic', 'generic', 'zero', 'dup', 'dupzero'])
            A = _gen_cond(rng, nprng, r, n, 10.0 ** lc, kind)
            n = A.shape[0]
            e0 = rng.choice([1.01, 1.05, 1.1] if want else [1.01, 1.05, 1.1, 1.5, 2.0, 1.0 + 10 ** rng.uniform(-2, 0.5)])
            with Recorder() as rec:
                probe = _impl(tn.maxvol, A, e0, 10000)
            if probe[0] != 0 or not rec.calls:
                continue
            rI0, rB0 = rec.calls[0]
            contract = _validate_init(A, rI0, rB0, 10.0 ** lc)
            _, _, need, _, _, _ = _sim_loop(rB0.tolist(), rI0, e0, 10000, None, False)
            if want and need == 0:
                continue
            k0 = _pick_k(rng, need) if name == 'f_maxvol' else rng.choice([need + 1, 100, _pick_k(rng, need)])
            I1, B1, sw, conv, _, _ = _sim_loop(rB0.tolist(), rI0, e0, k0, None, False)
            lu = f'(lu_replay {_natl(rI0)} {_fmat(rB0)})'
            if name == 'f_maxvol':
                impl = _impl(tn.maxvol, A, e0, k0)
                items.append(dict(coq=[f'showRF (maxvol OF {lu} {_fmat(A)} {_fe(e0)} {k0})'], impl=impl, contract=contract,
                                  input=dict(f='maxvol', A=[[x.hex() for x in row] for row in A.tolist()], e=e0, k=k0, cond_log10=lc)))
                dist['converged' if conv else 'limit_hit'] += 1
            else:
                e = rng.choice([1.01, 1.1, 1.5, 2.0, 1.0 + 10 ** rng.uniform(-2, 0.5)])
                dr_min = rng.randint(0, n - r)
                dr_max = rng.choice([None, dr_min, rng.randint(dr_min, n - r + 2), n - r])
                if dr_max is not None and dr_max < dr_min:
                    dr_max = dr_min
                r_max = min(n, n if dr_max is None else r + dr_max)
                _, stopped, safe2, fz = _sim_rect(B1, I1, e, r + dr_min, r_max, _dupclass(A.tolist()), False)
                if not safe2:
                    dist['dropped_near_tie'] += 1
                    continue
                impl = _impl(tn.maxvol_rect, A, e, dr_min, dr_max, e0, k0)
                args = f'{lu} {_fmat(A)} {_fe(e)} ({dr_min})%Z {_optz(dr_max)} {_fe(e0)} {k0}'
                coq = [f'showRF (maxvol_rect OF {args})']
                if fz:
                    coq.append(f'showRF (maxvol_rect_pinned OF {args})')
                items.append(dict(coq=coq, impl=impl, flagged=fz, contract=contract,
                                  input=dict(f='maxvol_rect', A=[[x.hex() for x in row] for row in A.tolist()], e=e,
                                             dr_min=dr_min, dr_max=dr_max, e0=e0, k0=k0, cond_log10=lc)))
                dist['stopped_by_test' if stopped else 'upper_limit'] += 1
                dist['forced_zero_residual'] += int(fz)
            dist['cond_log10'][lc] = dist['cond_log10'].get(lc, 0) + 1
            dist['kinds'][kind] = dist['kinds'].get(kind, 0) + 1
            dist['r_n'].add((r, n))
            dist['swaps'][sw] = dist['swaps'].get(sw, 0) + 1
        dist['r_n'] = sorted(dist['r_n'])
        b, s = _run_stream(R, name, items, 'f', dist, chunk=6)
        bad_all += b
        n_pinned += s
        n_flagged += sum(1 for it in items if it.get('flagged'))

    if n_pinned:
        R.notes.append(f'{n_pinned} of {n_flagged} zero-residual forced-growth cases: the implementation agrees with the '
                       f'PINNED variant i = np.argmax(F) (maxvol_rect_pinned), not with the model of the code; counted '
                       f'as correspondence mismatches (fix cac7db0 reverted? finding {FINDING_KEY})')
    else:
        R.notes.append(f'on all {n_flagged} zero-residual forced-growth cases the implementation agrees with the model '
                       f'of the code (masked arg-max) and, where the two differ, not with the pinned variant')
    return bad_all


# ----------------------------------------------------------------------------------------------------
# property-level oracle on the implementation (independent of the model)
# ----------------------------------------------------------------------------------------------------

def _tol(A, B, cond):
    return max(1e-10, 1e-13 * cond) * (1 + np.abs(B).max()) * (1 + np.abs(A).max())


def _common_clauses(A, I, B, cond, what):
    n, r = A.shape
    I = [int(i) for i in I]
    if len(set(I)) != len(I):
        return f'{what}: row numbers are not distinct: I={I}'
    if not all(0 <= i < n for i in I):
        return f'{what}: invalid row number in I={I}'
    if B.shape != (n, len(I)) or not np.all(np.isfinite(B)):
        return f'{what}: B has shape {B.shape}, expected {(n, len(I))}, or is not finite'
    t = _tol(A, B, cond)
    e1 = np.abs(B @ A[I] - A).max()
    if not e1 <= t:
        return f'{what}: |A - B A[I]| = {e1:.3e} > {t:.1e}'
    e2 = np.abs(B[I] - np.eye(len(I))).max()
    if not e2 <= t:
        return f'{what}: |B[I] - Id| = {e2:.3e} > {t:.1e}'
    return None


def oracle_maxvol(tn, A, e, k, cond=1e3):
    A = np.asarray(A, float)
    n, r = A.shape
    m = sys.modules['teneva.maxvol']
    px = _NpProxy(m.np)
    m.np = px
    try:
        try:
            I, B = tn.maxvol(A.copy(), e, k)
        finally:
            m.np = px._mod
    except Exception as ex:  # noqa
        return 'maxvol raised on a tall full-column-rank matrix: ' + repr(ex)[:200]
    if len(I) != r:
        return f'maxvol: {len(I)} rows instead of r={r}'
    msg = _common_clauses(A, I, np.asarray(B), cond, 'maxvol')
    if msg:
        return msg
    if px.n_outer > k:
        return f'maxvol: {px.n_outer} swaps with iteration limit {k}'
    if px.n_outer < k and not np.abs(B).max() <= e * (1 + 1e-9):
        return f'maxvol: iteration limit {k} not hit ({px.n_outer} swaps) but max|B| = {float(np.abs(B).max())!r} > e = {e}'
    return None


def oracle_rect(tn, A, e, dr_min, dr_max, e0, k0, cond=1e3, f='maxvol_rect'):
    A = np.asarray(A, float)
    n, r = A.shape
    try:
        if f == 'maxvol_rect':
            I, B = tn.maxvol_rect(A.copy(), e, dr_min, dr_max, e0, k0)
        else:
            I, B = tn._maxvol(A.copy(), e, dr_min, dr_max, e0, k0)
            dr_max = min(dr_max, n - r)
            dr_min = min(dr_min, dr_max)
    except Exception as ex:  # noqa
        return f'{f} raised on valid input: ' + repr(ex)[:200]
    lo, hi = r + dr_min, min(n, n if dr_max is None else r + dr_max)
    if not lo <= len(I) <= hi:
        return f'{f}: {len(I)} rows, expected between {lo} and {hi}'
    msg = _common_clauses(A, I, np.asarray(B), cond, f)
    if msg:
        return msg
    if len(I) < hi:
        nr = np.sqrt((np.asarray(B) ** 2).sum(axis=1)).max()
        if not nr <= e * (1 + 1e-9):
            return f'{f}: stopped at {len(I)} < {hi} rows but a row of B has norm {nr!r} > e = {e}'
    return None


def oracle_trivial(tn, A):
    A = np.asarray(A, float)
    n, r = A.shape
    try:
        I, B = tn._maxvol(A.copy())
    except Exception as ex:  # noqa
        return '_maxvol raised on n <= r: ' + repr(ex)[:200]
    if list(I) != list(range(n)) or np.asarray(B).shape != (n, n) or np.abs(np.asarray(B) - np.eye(n)).max() != 0:
        return f'_maxvol on n <= r: I={list(I)}, B is not the identity'
    return None


def oracle_reject(tn, what, *a):
    f = dict(maxvol=tn.maxvol, maxvol_rect=tn.maxvol_rect)[what]
    try:
        f(*a)
    except ValueError as ex:
        if isinstance(ex, np.linalg.LinAlgError):
            return f'{what}: LinAlgError instead of ValueError'
        return None
    except Exception as ex:  # noqa
        return f'{what}: {type(ex).__name__} instead of ValueError'
    return f'{what}: invalid input accepted'


def _is_s1(A, dr_min, msg):
    """exactly the finding S1: duplicate rows (and its consequence B[I] != Id) when dr_min forces growth into
    rows whose residual is zero (zero rows of A)"""
    A = np.asarray(A, float)
    n, r = A.shape
    nonzero = int((np.abs(A).max(axis=1) > 0).sum())
    return msg is not None and 'not distinct' in msg and nonzero < n and r + dr_min > nonzero


def _fail(what, f, args, s1=False):
    d = dict(what=what, input=dict(f=f, **args))
    if s1:
        d['finding_key'] = FINDING_KEY
    return d


def _js(A):
    return [[float(x).hex() for x in row] for row in np.asarray(A, float).tolist()]


def _unjs(A):
    return np.array([[float.fromhex(x) if isinstance(x, str) and ('p' in x or 'x' in x) else float(Fr(x)) for x in row]
                     for row in A], float).reshape(len(A), len(A[0]) if A else 0)


# ----------------------------------------------------------------------------------------------------
# cross-cutting families: argument forms, histories (argument objects reused), scales / exact thresholds
# ----------------------------------------------------------------------------------------------------

def _safe_at(A, e, dr_min, dr_max, e0, k0, rel):
    """classification only: no decision of the whole run (LU pivots, maxvol pivots / test, rect arg-max / test) is closer
    than `rel` to a tie, in exact rational arithmetic"""
    global REL
    old, REL = REL, rel
    try:
        Af = [[Fr(x) for x in row] for row in A]
        n, r = len(Af), len(Af[0])
        I0, B0, tf, _ = _sim_lu(Af)
        I1, B1, _, _, safe, _ = _sim_loop(B0, I0, Fr(e0), k0, False, False)
        r_max = min(n, n if dr_max is None else r + dr_max)
        _, _, safe2, _ = _sim_rect(B1, I1, Fr(e), r + dr_min, r_max, _dupclass(Af), False)
        return bool(tf and safe and safe2)
    except Singular:
        return False
    finally:
        REL = old


def _same(res, ref, tol):
    if res[0] != ref[0]:
        return f'outcome {res[0]} instead of {ref[0]}'
    if res[0] != 0:
        return None
    if res[1] != ref[1]:
        return f'I = {res[1]} instead of {ref[1]}'
    if res[2].shape != ref[2].shape:
        return f'B has shape {res[2].shape} instead of {ref[2].shape}'
    d = np.abs(res[2] - ref[2])
    if not np.all(d <= tol * np.maximum(1.0, np.abs(ref[2]))):
        return f'B differs by {float(d.max()):.3e} (allowed {tol:g})'
    return None


def _a_forms(A64):
    """(name, array-like, documented?, tolerance on B).  A64 is integer valued (|x| <= 8)"""
    n, r = A64.shape
    big = np.full((2 * n + 1, 3 * r + 2), 7.5)
    big[1::2, ::3][:n, :r] = A64
    out = [('F-ordered float64', np.asfortranarray(A64), True, 1e-12),
           ('non-contiguous view', big[1::2, ::3][:n, :r], True, 1e-12),
           ('transposed view of a C array', np.ascontiguousarray(A64.T).T, True, 1e-12),
           ('int64', A64.astype(np.int64), True, 1e-12), ('int32', A64.astype(np.int32), True, 1e-12),
           ('int8', A64.astype(np.int8), True, 1e-3), ('float32', A64.astype(np.float32), True, 1e-3),
           ('float16', A64.astype(np.float16), True, 1e-3),
           ('list of lists', A64.tolist(), False, 1e-12), ('tuple of tuples', tuple(map(tuple, A64.tolist())), False, 1e-12)]
    if A64.min() >= 0:
        out.append(('uint8', A64.astype(np.uint8), True, 1e-3))
    return out


def _snap(x):
    return (x.tobytes(), x.dtype, x.shape, x.strides) if isinstance(x, np.ndarray) else repr(x)


def o_forms08(tn, A, e, dr_min, dr_max, e0, k0):
    """every form of every argument gives the answer of the canonical call (C-ordered float64 A, Python scalars);
    undocumented forms may raise.  Returns (failure message or None, list of undocumented forms that raised)"""
    A64 = np.array(A, dtype=float)
    n, r = A64.shape
    dpx = (n - r) if dr_max is None else dr_max
    calls = dict(maxvol=lambda X, e=e, dm=dr_min, dx=dr_max, e0=e0, k0=k0: tn.maxvol(X, e0, k0),
                 maxvol_rect=lambda X, e=e, dm=dr_min, dx=dr_max, e0=e0, k0=k0: tn.maxvol_rect(X, e, dm, dx, e0, k0),
                 _maxvol=lambda X, e=e, dm=dr_min, dx=dpx, e0=e0, k0=k0: tn._maxvol(X, e, dm, dx, e0, k0))
    ref = {nm: _impl(c, A64.copy()) for nm, c in calls.items()}
    for nm, v in ref.items():
        if v[0] != 0:
            return f'{nm} raised on a valid canonical call (class {v[0]})', []
    raised = []

    def one(fn, what, doc, tol, **kw):
        X = kw.pop('X', None)
        X = A64.copy() if X is None else X
        before = _snap(X)
        res = _impl(lambda: calls[fn](X, **kw))
        if _snap(X) != before:
            return f'{fn}: the argument A ({what}) was modified by the call'
        if res[0] != 0 and not doc:
            raised.append(f'{fn}: {what} -> error class {res[0]}')
            return None
        msg = _same(res, ref[fn], tol)
        return f'{fn} with {what}: {msg}' if msg else None

    for fn in calls:
        for what, X, doc, tol in _a_forms(A64):
            msg = one(fn, 'A as ' + what, doc, tol, X=X)
            if msg:
                return msg, raised
    fl = lambda v: [('np.float64', np.float64(v), True), ('0-d array', np.array(float(v)), False)] + \
        ([('np.float32', np.float32(v), False)] if float(np.float32(v)) == v else []) + \
        ([('int', int(v), True)] if float(v) == int(v) else [])                                     # noqa
    it = lambda v: [('np.int64', np.int64(v), False), ('np.int32', np.int32(v), False), ('0-d array', np.array(int(v)), False),
                    ('float', float(v), False), ('np.uint8', np.uint8(v), False)]                   # noqa
    for fn in calls:
        for arg, forms in [('e', fl(e)), ('e0', fl(e0)), ('k0', it(k0)), ('dm', it(dr_min))] + \
                          ([('dx', it(dr_max if fn != '_maxvol' else dpx))] if dr_max is not None or fn == '_maxvol' else []):
            if fn == 'maxvol' and arg in ('e', 'dm', 'dx'):
                continue
            for nm, v, doc in forms:
                msg = one(fn, f'{arg} = {nm}({v})', doc, 1e-12, **{arg: v})
                if msg:
                    return msg, raised
    # dr_max: None = n - r = anything larger (clipped); dr_max = 0 = plain maxvol; defaults passed explicitly / by keyword
    eq = [('dr_max = n - r instead of None', _impl(tn.maxvol_rect, A64.copy(), e, dr_min, n - r, e0, k0),
           _impl(tn.maxvol_rect, A64.copy(), e, dr_min, None, e0, k0)),
          ('dr_max = n - r + 3 (clipped) instead of None', _impl(tn.maxvol_rect, A64.copy(), e, dr_min, n - r + 3, e0, k0),
           _impl(tn.maxvol_rect, A64.copy(), e, dr_min, None, e0, k0)),
          ('dr_min = dr_max = 0 instead of maxvol', _impl(tn.maxvol_rect, A64.copy(), e, 0, 0, e0, k0), ref['maxvol']),
          ('_maxvol dr_max = 0 instead of maxvol', _impl(tn._maxvol, A64.copy(), e, 0, 0, e0, k0), ref['maxvol']),
          ('maxvol: defaults passed explicitly', _impl(tn.maxvol, A64.copy(), 1.05, 100), _impl(tn.maxvol, A64.copy())),
          ('maxvol: keywords', _impl(lambda: tn.maxvol(A=A64.copy(), k=k0, e=e0)), ref['maxvol']),
          ('maxvol_rect: defaults passed explicitly', _impl(tn.maxvol_rect, A64.copy(), 1.1, 0, None, 1.05, 10),
           _impl(tn.maxvol_rect, A64.copy())),
          ('maxvol_rect: keywords', _impl(lambda: tn.maxvol_rect(A64.copy(), k0=k0, e0=e0, dr_max=dr_max, dr_min=dr_min, e=e)),
           ref['maxvol_rect']),
          ('_maxvol: defaults passed explicitly', _impl(tn._maxvol, A64.copy(), 1.1, 0, 0, 1.05, 100), _impl(tn._maxvol, A64.copy())),
          ('_maxvol: dr_max beyond n - r (clipped)', _impl(tn._maxvol, A64.copy(), e, dr_min, dpx + (n - r) + 2, e0, k0),
           _impl(tn._maxvol, A64.copy(), e, dr_min, max(dpx, n - r), e0, k0))]
    for what, got, want in eq:
        msg = _same(got, want, 1e-12)
        if msg:
            return f'{what}: {msg}', raised
    return None, raised


def o_hist08(tn, A, e, dr_min, dr_max, e0, k0):
    """the SAME array object A goes through maxvol, maxvol_rect, _maxvol, maxvol, maxvol_rect: every answer equals the
    one of a fresh copy, and A (and the array it is a view of) is bit-identical afterwards"""
    A64 = np.array(A, dtype=float)
    n, r = A64.shape
    dpx = (n - r) if dr_max is None else dr_max
    seq = [('maxvol', lambda X: tn.maxvol(X, e0, k0)), ('maxvol_rect', lambda X: tn.maxvol_rect(X, e, dr_min, dr_max, e0, k0)),
           ('_maxvol', lambda X: tn._maxvol(X, e, dr_min, dpx, e0, k0)), ('maxvol', lambda X: tn.maxvol(X, e0, k0)),
           ('maxvol_rect', lambda X: tn.maxvol_rect(X, e, dr_min, dr_max, e0, k0))]
    for what, X, doc, tol in _a_forms(A64)[:7]:
        base = X.base if isinstance(X, np.ndarray) and X.base is not None else X
        b0, x0 = _snap(base), _snap(X)
        for step, (fn, c) in enumerate(seq):
            ref = _impl(c, np.array(X, copy=True, order='K' if what != 'non-contiguous view' else 'C'))
            got = _impl(c, X)
            if _snap(X) != x0 or _snap(base) != b0:
                return f'{fn} (call {step + 1} on the same object, A as {what}) modified its argument A'
            msg = _same(got, ref, 0.0 if got[0] == 0 and got[2].dtype == np.float64 else tol)
            if msg:
                return f'{fn} (call {step + 1} on the same object, A as {what}) differs from the call on a fresh copy: {msg}'
    return None


def _rel_clauses(A, I, B, what):
    """scale-aware clauses: distinct valid rows, A = B A[I] row-wise relative, B[I] = Id"""
    n, r = A.shape
    I = [int(i) for i in I]
    if len(set(I)) != len(I) or not all(0 <= i < n for i in I):
        return f'{what}: rows not distinct / invalid: I={I}'
    if B.shape != (n, len(I)) or not np.all(np.isfinite(B)):
        return f'{what}: B has shape {B.shape} or is not finite'
    with np.errstate(all='ignore'):
        res = np.abs(A - B @ A[I])
        rowmax = np.abs(A).max(axis=1)          # residual of row a relative to the size of the rows that combine into it
        bound = (1e-9 * (np.abs(B) @ rowmax[I] + rowmax) + 1e-300).reshape(-1, 1) * np.ones((1, r))
    if not np.all(res <= bound):
        a, c = np.unravel_index(np.argmax(res - bound), res.shape)
        return f'{what}: A != B A[I] at ({a},{c}): residual {res[a, c]:.3e}, allowed {bound[a, c]:.3e}'
    if not np.abs(B[I] - np.eye(len(I))).max() <= 1e-9:
        return f'{what}: B[I] != Id'
    return None


def o_scale08(tn, A, e, dr_min, dr_max, e0, k0, rows):
    """exact power-of-two rescaling of the whole matrix: same I, bit-identical B (2^+-500), same I and B to 1e-9 (2^+-1000);
    rows rescaled individually by powers of two (list `rows` of exponents, conditioning kept <= 1e8): every clause,
    scale-aware"""
    A64 = np.array(A, dtype=float)
    n, r = A64.shape
    ref_mv, ref_rc = _impl(tn.maxvol, A64.copy(), e0, k0), _impl(tn.maxvol_rect, A64.copy(), e, dr_min, dr_max, e0, k0)
    for p in (500, -500, 1000, -1000, 64, -1):
        As = np.ldexp(A64, p)
        tol = 0.0 if abs(p) <= 500 else 1e-9
        for fn, got, ref in [('maxvol', _impl(tn.maxvol, As.copy(), e0, k0), ref_mv),
                             ('maxvol_rect', _impl(tn.maxvol_rect, As.copy(), e, dr_min, dr_max, e0, k0), ref_rc)]:
            msg = _same(got, ref, tol)
            if msg:
                return f'{fn} on A * 2^{p}: {msg}'
    Ar = np.ldexp(A64, np.array(rows, dtype=int).reshape(-1, 1))
    if np.linalg.cond(Ar) > 1e8:        # the property is quantified over conditioning up to 1e8
        return None
    m = sys.modules['teneva.maxvol']
    px = _NpProxy(m.np)
    m.np = px
    try:
        try:
            I, B = tn.maxvol(Ar.copy(), e0, 10 ** 5)
        finally:
            m.np = px._mod
        msg = _rel_clauses(Ar, I, np.asarray(B), 'maxvol on individually rescaled rows')
        if msg is None and px.n_outer < 10 ** 5 and not np.abs(B).max() <= e0 * (1 + 1e-9):
            msg = f'maxvol on individually rescaled rows: limit not hit but max|B| = {float(np.abs(B).max())!r} > e = {e0}'
        if msg:
            return msg
        I, B = tn.maxvol_rect(Ar.copy(), e, dr_min, dr_max, e0, 10 ** 5)
        hi = min(n, n if dr_max is None else r + dr_max)
        msg = _rel_clauses(Ar, I, np.asarray(B), 'maxvol_rect on individually rescaled rows')
        if msg is None and not r + dr_min <= len(I) <= hi:
            msg = f'maxvol_rect on individually rescaled rows: {len(I)} rows, expected {r + dr_min}..{hi}'
        if msg is None and len(I) < hi and not np.sqrt((np.asarray(B) ** 2).sum(axis=1)).max() <= e * (1 + 1e-9):
            msg = 'maxvol_rect on individually rescaled rows: stopped early but a row norm of B exceeds e'
        return msg
    except Exception as ex:  # noqa
        return 'raised on individually rescaled rows: ' + repr(ex)[:200]


def o_tie08(tn, A, kind, C=None):
    """thresholds hit exactly.  kind 'maxvol': e := max|B0| of the recorded LU initialisation -> no swap at all, B = B0;
    e one ulp below -> at least one swap.  kind 'rect': A = [Id; C] (|C| <= 1, exact squared row norms), e*e == max F
    exactly -> no row is added (dr_min = 0); e slightly smaller -> a row is added"""
    A64 = np.array(A, dtype=float)
    n, r = A64.shape
    m = sys.modules['teneva.maxvol']
    if kind == 'maxvol':
        with Recorder() as rec:
            tn.maxvol(A64.copy(), 1e30, 0)
        if not rec.calls:
            return 'no LU initialisation recorded'
        I0, B0 = rec.calls[0]
        e = float(np.abs(B0).max())
        for ee, want_swaps in ((e, False), (float(np.nextafter(e, 0)), True)):
            px = _NpProxy(m.np)
            m.np = px
            try:
                I, B = tn.maxvol(A64.copy(), ee, 1000)
            finally:
                m.np = px._mod
            if not want_swaps and (px.n_outer != 0 or list(map(int, I)) != list(I0) or not np.array_equal(B, B0)):
                return f'maxvol with e == max|B0| = {e!r} exactly: {px.n_outer} swaps instead of 0 (test is |B_ij| <= e)'
            if want_swaps and e > 1 and px.n_outer == 0:
                return f'maxvol with e one ulp below max|B0| = {e!r}: no swap'
        return None
    e = float(np.sqrt((A64[r:] ** 2).sum(axis=1).max()))
    I, B = tn.maxvol_rect(A64.copy(), e, 0, None, 1.0, 10)
    if list(map(int, I)) != list(range(r)):
        return f'maxvol_rect with e*e == max F = {e * e!r} exactly and dr_min = 0: I = {list(map(int, I))} instead of {list(range(r))}'
    I, B = tn.maxvol_rect(A64.copy(), e - 2.0 ** -40, 0, None, 1.0, 10)
    if len(I) <= r:
        return f'maxvol_rect with e slightly below sqrt(max F) = {e!r}: no row added'
    return None


EXTREME_E = ['1e154', '2e154', '1e200', '1e308', 'max', 'inf', 'np.float64(1e200)', 'np.float64(max)', 'np.float64(inf)',
             'np.float32(3e38)', 'int 10', 'int 10**100']
# (a Python int e >= 10**155 is outside the family: e*e is then an int that cannot be converted to float and the comparison
#  raises OverflowError on the unchanged tree; e is documented as float - reported to the lead as an observation)


def _extreme_value(name):
    return {'max': sys.float_info.max, 'inf': float('inf'), 'np.float64(1e200)': np.float64(1e200),
            'np.float64(max)': np.float64(sys.float_info.max), 'np.float64(inf)': np.float64('inf'), 'int 10': 10,
            'int 10**100': 10 ** 100,
            'np.float32(3e38)': np.float32(3e38)}.get(name) if not name[0].isdigit() else float(name)


def o_extreme08(tn, A, dr_min, dr_max, which):
    """extreme but valid parameter values: a huge accuracy parameter e ("never add rows for accuracy") must give exactly
    r + dr_min rows with every clause; a huge e0 / tau0 leaves the LU initialisation unchanged (no swap); huge k0 and
    dr_max (clipped to n - r) change nothing"""
    A64 = np.array(A, dtype=float)
    n, r = A64.shape
    e = _extreme_value(which)
    for fn, call in [('maxvol_rect', lambda: tn.maxvol_rect(A64.copy(), e, dr_min, dr_max, 1.05, 10)),
                     ('_maxvol', lambda: tn._maxvol(A64.copy(), e, dr_min, (n - r) if dr_max is None else dr_max, 1.05, 10))]:
        if fn == '_maxvol' and dr_max == 0:
            continue
        try:
            I, B = call()
        except Exception as ex:  # noqa
            return f'{fn} with e = {which} raised {type(ex).__name__}: {str(ex)[:80]} (expected {r + dr_min} rows)'
        hi = min(n, n if dr_max is None else r + dr_max)
        want = r + min(dr_min, hi - r)
        if len(I) != want:
            return f'{fn} with e = {which}: {len(I)} rows, expected exactly r + dr_min = {want}'
        msg = _common_clauses(A64, I, np.asarray(B), 1e3, f'{fn} with e = {which}')
        if msg:
            return msg
    with Recorder() as rec:
        try:
            I, B = tn.maxvol(A64.copy(), e, 10 ** 12)
        except Exception as ex:  # noqa
            return f'maxvol with e = {which}, k = 10**12 raised {type(ex).__name__}: {str(ex)[:80]}'
    if rec.calls and (list(map(int, I)) != list(rec.calls[0][0]) or not np.array_equal(np.asarray(B), rec.calls[0][1])):
        return f'maxvol with e = {which}: the LU initialisation was changed although no entry exceeds e'
    ref = _impl(tn.maxvol_rect, A64.copy(), 1.1, dr_min, dr_max, 1.05, 10)
    for what, got in [('k0 = 10**12', _impl(tn.maxvol_rect, A64.copy(), 1.1, dr_min, dr_max, 1.05, 10 ** 12)),
                      ('dr_max = 10**15', _impl(tn.maxvol_rect, A64.copy(), 1.1, dr_min, 10 ** 15, 1.05, 10))
                      if dr_max is None else ('dr_max given', ref)]:
        if what.startswith('k0'):
            full = _impl(tn.maxvol_rect, A64.copy(), 1.1, dr_min, dr_max, 1.05, 100000)
            msg = _same(got, full, 1e-12)
        else:
            msg = _same(got, ref, 1e-12)
        if msg:
            return f'maxvol_rect with {what}: {msg}'
    return None


def _crosscut_one(tn, inp):
    f = inp['f']
    A = _unjs(inp['A']).tolist()
    if f == 'extreme':
        return o_extreme08(tn, A, inp['dr_min'], inp['dr_max'], inp['which'])
    if f == 'tie':
        return o_tie08(tn, A, inp['kind'])
    a = (A, inp['e'], inp['dr_min'], inp['dr_max'], inp['e0'], inp['k0'])
    if f == 'forms':
        return o_forms08(tn, *a)[0]
    if f == 'history':
        return o_hist08(tn, *a)
    return o_scale08(tn, *a, inp['rows'])


def _check_one(tn, inp, cond=None):
    """run the oracle on one json-able input description; returns failure dict or None"""
    f = inp['f']
    if f in ('forms', 'history', 'scale', 'tie', 'extreme'):
        try:
            with np.errstate(all='ignore'):
                msg = _crosscut_one(tn, inp)
        except Exception as ex:  # noqa
            msg = f'{f} family: valid call raised ' + repr(ex)[:200]
        return dict(what=msg, input=dict(inp)) if msg else None
    A = _unjs(inp['A'])
    cond = cond or 10.0 ** inp.get('cond_log10', 3)
    n, r = A.shape
    if f == 'maxvol':
        e, k = float(Fr(inp['e'])) if isinstance(inp['e'], str) else inp['e'], inp['k']
        if n <= r:
            msg = oracle_reject(tn, 'maxvol', A, e, k)
        else:
            msg = oracle_maxvol(tn, A, e, k, cond)
        return _fail(msg, f, dict(A=_js(A), e=e, k=k)) if msg else None
    g = lambda x: float(Fr(x)) if isinstance(x, str) else x   # noqa
    if f == 'maxvol_rect':
        e, e0, dr_min, dr_max, k0 = g(inp['e']), g(inp['e0']), inp['dr_min'], inp['dr_max'], inp['k0']
        hi = min(n, n if dr_max is None else r + dr_max)
        if n <= r or dr_min < 0 or r + dr_min > hi:
            msg = oracle_reject(tn, 'maxvol_rect', A, e, dr_min, dr_max, e0, k0)
        else:
            msg = oracle_rect(tn, A, e, dr_min, dr_max, e0, k0, cond)
        return _fail(msg, f, dict(A=_js(A), e=e, dr_min=dr_min, dr_max=dr_max, e0=e0, k0=k0),
                     s1=_is_s1(A, dr_min, msg)) if msg else None
    if f == '_maxvol':
        tau, tau0, dr_min, dr_max, k0 = g(inp['tau']), g(inp['tau0']), inp['dr_min'], inp['dr_max'], inp['k0']
        if n <= r:
            msg = oracle_trivial(tn, A)
            return _fail(msg, f, dict(A=_js(A), tau=tau, dr_min=dr_min, dr_max=dr_max, tau0=tau0, k0=k0)) if msg else None
        d1 = min(dr_max, n - r)
        d0 = min(dr_min, d1)
        if d1 == 0:
            try:
                I, B = tn._maxvol(A.copy(), tau, dr_min, dr_max, tau0, k0)
                msg = None if len(I) == r else f'_maxvol with dr_max=0 returned {len(I)} rows'
                msg = msg or _common_clauses(A, I, np.asarray(B), cond, '_maxvol')
            except Exception as ex:  # noqa
                msg = '_maxvol raised on valid input: ' + repr(ex)[:200]
        else:
            msg = oracle_rect(tn, A, tau, dr_min, dr_max, tau0, k0, cond, f='_maxvol')
        return _fail(msg, f, dict(A=_js(A), tau=tau, dr_min=dr_min, dr_max=dr_max, tau0=tau0, k0=k0),
                     s1=_is_s1(A, d0, msg)) if msg else None
    return None


def search(R, ctx, deep, hints):
    tn = C.import_teneva()
    rng = ctx['rng']
    nprng = np.random.default_rng(rng.randrange(2 ** 32))
    fails, n_eval = [], 0
    seen = set()

    def run(inp, cond=None):
        nonlocal n_eval
        n_eval += 1
        f = _check_one(tn, inp, cond)
        if f:
            key = (f['what'][:60], f.get('finding_key'))
            if key not in seen and len(fails) < 12:
                seen.add(key)
                fails.append(f)
        return f

    # 0. degenerate family first: zero rows + forced growth (minimal instance first), duplicates, n = r+1
    run(dict(f='maxvol_rect', A=[[1], [0]], e=1.1, dr_min=1, dr_max=1, e0=1.05, k0=10))
    run(dict(f='_maxvol', A=[[1], [0]], tau=1.1, dr_min=1, dr_max=1, tau0=1.05, k0=10))
    run(dict(f='maxvol_rect', A=[[1, 2, 0], [0, 1, 3], [2, 0, 1], [0, 0, 0], [0, 0, 0], [0, 0, 0], [0, 0, 0]],
             e=1.1, dr_min=2, dr_max=None, e0=1.05, k0=10))
    for r in (1, 2, 3):
        for nz in (1, 2, 3):
            M = nprng.integers(-4, 5, size=(r + 1, r)).astype(float)
            if np.linalg.matrix_rank(M) < r:
                continue
            A = np.vstack([M, np.zeros((nz, r))])
            A = A[nprng.permutation(A.shape[0])]
            n = A.shape[0]
            for dr_min in range(0, n - r + 1):
                for dr_max in (None, dr_min, n - r):
                    run(dict(f='maxvol_rect', A=_js(A), e=1.1, dr_min=dr_min, dr_max=dr_max, e0=1.05, k0=10))
            A2 = np.vstack([M, M[:nz]])
            for dr_min in range(0, A2.shape[0] - r + 1):
                run(dict(f='maxvol_rect', A=_js(A2), e=1.1, dr_min=dr_min, dr_max=None, e0=1.05, k0=10))
            for k in range(0, 4):
                run(dict(f='maxvol', A=_js(A), e=1.05, k=k))
                run(dict(f='maxvol', A=_js(A2), e=1.05, k=k))
    # 1. hints from the correspondence
    for h in hints[:40]:
        run(h['input'])
    # 2. random structured inputs: every aspect ratio from n = r+1, conditioning up to 1e8, all e, limits, dr
    N = 1500 if deep else 250
    for t in range(N):
        r = rng.randint(1, 8)
        n = max(r + 1, rng.choice([r + 1, r + 1, r + 2, 2 * r, 3 * r, 6 * r, 40]))
        lc = rng.choice([0, 1, 2, 4, 6, 8])
        A = _gen_cond(rng, nprng, r, n, 10.0 ** lc, rng.choice(['generic', 'zero', 'dup', 'dupzero']))
        if rng.random() < 0.3:
            A = A * 10.0 ** rng.randint(-3, 3)
        n = A.shape[0]
        e = rng.choice([1.01, 1.05, 1.1, 2.0, 1.0 + 10 ** rng.uniform(-2, 1)])
        which = rng.choice(['maxvol', 'maxvol_rect', 'maxvol_rect', '_maxvol'])
        if which == 'maxvol':
            run(dict(f='maxvol', A=_js(A), e=e, k=rng.choice([0, 1, 2, 3, 5, 10, 100, 1000]), cond_log10=lc))
        else:
            dr_min = rng.randint(0, n - r)
            dr_max = rng.choice([None, dr_min, rng.randint(dr_min, n - r + 3)])
            e0 = rng.choice([1.01, 1.05, 1.5])
            k0 = rng.choice([0, 1, 3, 10, 100])
            if which == 'maxvol_rect':
                run(dict(f='maxvol_rect', A=_js(A), e=e, dr_min=dr_min, dr_max=dr_max, e0=e0, k0=k0, cond_log10=lc))
            else:
                run(dict(f='_maxvol', A=_js(A), tau=e, dr_min=rng.randint(0, 5), dr_max=rng.randint(0, 6), tau0=e0, k0=k0,
                         cond_log10=lc))
    # 2b. cross-cutting families: argument forms, histories, scales, thresholds hit exactly (small integer matrices,
    #     incl. r = 1 and n = r + 1; kept only if no decision of the run is within 1e-3 of a tie, so that the float32 /
    #     float16 forms must take the same decisions)
    undocumented = set()
    n_cc = 0
    for t in range(2000 if deep else 400):
        if n_cc >= (150 if deep else 36) or len(fails) >= 12:
            break
        r = rng.choice([1, 1, 2, 2, 3, 4])
        n = rng.choice([r + 1, r + 1, r + 2, 2 * r + 1, 3 * r])
        lo = 0 if t % 4 == 0 else -4
        A = nprng.integers(lo, 5, size=(n, r)).astype(float)
        if t % 7 == 0:
            A[rng.randrange(n)] = 0.0
        if np.linalg.matrix_rank(A) < r:
            continue
        e, e0 = rng.choice([1.0625, 1.125, 1.25, 1.5, 2.0]), rng.choice([1.0, 1.0625, 1.125, 1.5])
        dr_min = rng.randint(0, n - r)
        dr_max = rng.choice([None, dr_min, n - r])
        k0 = rng.choice([0, 1, 3, 10, 100])
        if not _safe_at(A.tolist(), e, dr_min, dr_max, e0, k0, 1e-3):
            continue
        n_cc += 1
        base = dict(A=_js(A), e=e, dr_min=dr_min, dr_max=dr_max, e0=e0, k0=k0)
        n_eval += 1
        try:
            msg, raised = o_forms08(tn, A.tolist(), e, dr_min, dr_max, e0, k0)
        except Exception as ex:  # noqa
            msg, raised = 'forms family: valid call raised ' + repr(ex)[:200], []
        undocumented.update(x.split(' = ')[0] + ' ' + x.split('(')[0].split(' = ')[-1] + x[x.rfind(' ->'):] if ' = ' in x else x
                            for x in raised)
        if msg:
            fails.append(dict(what=msg, input=dict(f='forms', **base)))
        run(dict(f='history', **base))
        run(dict(f='scale', rows=[rng.choice([0, 0, 1, -1, 5, -5, 10, -10]) for _ in range(n)], **base))
    for t in range(120 if deep else 30):
        r = rng.randint(1, 4)
        n = rng.randint(r + 1, 3 * r + 1)
        A = np.array([[float(x) for x in row] for row in _gen_L(rng, r, n, POOL_LDY)])
        run(dict(f='tie', kind='maxvol', A=_js(A)))
        Cm = nprng.choice([0.0, 1.0, -1.0, 0.5, -0.5, 0.25], size=(n - r, r))
        F = (Cm ** 2).sum(axis=1).max()
        if F > 0 and float(np.sqrt(F)) ** 2 == F:
            run(dict(f='tie', kind='rect', A=_js(np.vstack([np.eye(r), Cm]))))
    if undocumented:
        R.notes.append('argument forms outside the documented types that raise (allowed; they never return a different '
                       'answer): ' + '; '.join(sorted(undocumented))[:1500])
    #     extreme but valid parameter values (huge e / e0 / k0 / dr_max as Python and NumPy scalars)
    for t in range(200 if deep else 40):
        r = rng.choice([1, 2, 3, 4])
        n = rng.choice([r + 1, r + 2, 2 * r + 1, 3 * r, 15])
        A = nprng.normal(size=(n, r)) if t % 2 else nprng.integers(-4, 5, size=(n, r)).astype(float)
        if np.linalg.matrix_rank(A) < r:
            continue
        dr_min = rng.choice([0, 0, 1, rng.randint(0, n - r)])
        dr_max = rng.choice([None, None, n - r, rng.randint(dr_min, n - r), 0 if dr_min == 0 else dr_min])
        run(dict(f='extreme', A=_js(A), dr_min=dr_min, dr_max=dr_max, which=EXTREME_E[t % len(EXTREME_E)]))
    # 2c. the clause "max|B| <= e when the iteration limit is not hit" on MANY small matrices: n = r+1 .. 3r (some 4r),
    #     r = 2 .. 5 (some up to 8), e in {1.0, 1.01, 1.05, 1.1}, k large.  Families in which the LU start is poor, pivots
    #     cycle and swapped-out rows regain dominance: P L with |L| ~ 1 below the diagonal, near-tie magnitudes, rows that
    #     are perturbations / rescalings of each other, nearly rank-one, permuted triangular, small integers.
    def small(fam, r, n):
        if fam == 'L':
            lo = rng.choice([0.0, 0.7, 0.9])
            L = np.zeros((n, r))
            for i in range(n):
                for j in range(min(i, r)):
                    L[i, j] = rng.choice([-1.0, 1.0]) * rng.uniform(lo, 1.0)
                if i < r:
                    L[i, i] = 1.0
            if rng.random() < 0.3:
                L = L @ (np.eye(r) + np.triu(nprng.normal(size=(r, r)), 1))
            return L[nprng.permutation(n)]
        if fam == 'near':
            return nprng.choice([-1.0, 1.0], size=(n, r)) * nprng.uniform(0.8, 1.25, size=(n, r))
        if fam == 'pm01':
            return nprng.choice([-1.0, 0.0, 1.0], size=(n, r)) + 0.2 * nprng.normal(size=(n, r))
        if fam == 'perturb':
            base = nprng.normal(size=(rng.randint(1, r), r))
            A = base[nprng.integers(0, base.shape[0], size=n)] * (1 + 0.2 * nprng.normal(size=(n, 1)))
            return A + 10.0 ** rng.randint(-3, -1) * nprng.normal(size=(n, r))
        if fam == 'rank1ish':
            return nprng.normal(size=(n, 1)) @ nprng.normal(size=(1, r)) + 10.0 ** rng.randint(-3, -1) * nprng.normal(size=(n, r))
        if fam == 'tri':
            A = np.tril(nprng.normal(size=(n, r))) + 0.1 * nprng.normal(size=(n, r))
            return A[nprng.permutation(n)]
        if fam == 'int':
            return nprng.integers(-9, 10, size=(n, r)).astype(float)
        if fam == 'rescaled':      # rows rescaled so that rows dropped early regain dominance after later swaps
            return nprng.normal(size=(n, r)) * np.exp(0.7 * nprng.normal(size=(n, 1))) * np.exp(0.7 * nprng.normal(size=(1, r)))
        return nprng.normal(size=(n, r))
    fams = ['L', 'L', 'L', 'L', 'near', 'pm01', 'perturb', 'rank1ish', 'tri', 'int', 'rescaled', 'gauss']
    n_small, n_rank = (60000 if deep else 8000), 0
    t_start = time.time()
    for t in range(n_small):
        if len(fails) >= 12:
            break
        if time.time() - t_start > (600 if deep else 90):
            R.notes.append(f'small-matrix family stopped after {t} of {n_small} cases (time guard)')
            break
        fam = fams[t % len(fams)]
        r = rng.randint(2, 5) if t % 4 else rng.randint(5, 8)
        n = rng.randint(r + 1, 3 * r) if t % 5 else rng.randint(r + 1, 4 * r)
        A = small(fam, r, n)
        if np.linalg.matrix_rank(A) < r or np.linalg.cond(A) > 1e6:
            n_rank += 1
            continue
        run(dict(f='maxvol', A=_js(A), e=rng.choice([1.0, 1.01, 1.05, 1.1]), k=20000, fam=fam), cond=max(1e3, np.linalg.cond(A)))
        if len(fails) >= 12:
            break
    # 3. rejection clauses and the trivial dispatch
    for t in range(60):
        r = rng.randint(1, 5)
        n = rng.randint(1, r)
        A = nprng.normal(size=(n, r))
        run(dict(f='maxvol', A=_js(A), e=1.05, k=3))
        run(dict(f='maxvol_rect', A=_js(A), e=1.1, dr_min=0, dr_max=None, e0=1.05, k0=3))
        run(dict(f='_maxvol', A=_js(A), tau=1.1, dr_min=rng.randint(0, 2), dr_max=rng.randint(0, 3), tau0=1.05, k0=3))
        n = rng.randint(r + 1, 3 * r + 1)
        A = nprng.normal(size=(n, r))
        for dr_min, dr_max in [(-1, None), (2, 1), (n - r + 1, None), (0, -1), (n - r + 1, n - r + 5)]:
            run(dict(f='maxvol_rect', A=_js(A), e=1.1, dr_min=dr_min, dr_max=dr_max, e0=1.05, k0=3))
    R.search.append(dict(name='numpy oracle of every clause of C08 (distinct valid rows, A = B A[I], B[I] = Id, '
                              'max|B| <= e / row norms <= e unless the limit was hit, row-count bounds, ValueError); '
                              'incl. %d small matrices (r = 2..8, n = r+1..4r, e in {1.0,1.01,1.05,1.1}, k = 2e4) from '
                              'pivot-cycling families for the max|B| <= e clause' % n_small,
                         evaluations=n_eval, failures=len(fails), deep=deep))
    return fails


def replay(data):
    tn = C.import_teneva()
    p = data['payload']
    print(data['what'])
    if isinstance(p, dict) and isinstance(p.get('input'), dict) and 'f' in p['input']:
        f = _check_one(tn, p['input'])
        print('input:', p['input'])
        print('replayed:', f['what'] if f else 'property holds on this input now')
        return 1 if f else 0
    print('no concrete input in the replay file (broken proof / correspondence):', p.get('broken') if isinstance(p, dict) else p)
    return 1
