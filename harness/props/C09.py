"""C09 — no mutation of arguments, no aliasing of results.

Static side: harness/skeleton_c09.py regenerates coq/Gen/SkelC09.v (skeleton + certificate of every function variant
reachable from the exported API) from C.REPO before every build; Properties/C09.v re-checks it (`api_ok ... = true` by
vm_compute) and states the soundness of the checker (Proofs/HeapP.v).
Dynamic side (this file): the observed footprint of EVERY exported function, over every documented flag combination,
C / F / strided layouts, list vs array index arguments and callbacks that return their argument, must lie within what
the skeleton predicts; plus write-after-return probes; plus direct calls of every library routine the translation
classified as fresh.  It validates the translator's fresh / view tables and is the failing-input search."""
import ast
import re
import inspect
import io
import itertools
import os
import sys
import contextlib
import warnings
import numpy as np
from harness import common as C
from harness import skeleton_c09 as SK

THEOREMS = 'Properties/C09.v'
TIME_LIMIT = {'quick': 1200, 'thorough': 5400}
CLAIM = dict(
    text='Proved in Coq (axiom-free, "Closed under the global context"), for EVERY program of the effect-skeleton IR, every '
         'closed heap (object identity = memory buffer, so every layout / view / stride), every argument list and every '
         'execution of the relational semantics with calls to any depth: a function of a program that passes the certificate '
         'checker meets the meaning of its summary (C09_check_sound, full): objects of the caller\'s heap keep data, shape '
         'and element list unless reachable from a parameter listed as written, and everything the result reaches afterwards '
         'did not exist before the call unless it was reachable from a parameter listed as escaping / stored. Consequences, '
         'generic: C09_clean_writes, C09_clean_result, C09_separate_disjoint (summaries within the exception table), '
         'C09_pure_unchanged, C09_pure_result_new, C09_pure_disjoint (empty summary: result and arguments share no object). '
         'For teneva as it is now: the skeleton + certificate of every function variant reachable from the 96 exported '
         'functions is regenerated from the source on every run, C09_api_clean re-checks it by vm_compute (all certificates '
         'valid, every exported summary within the exception table of Model/Heap.v: orthogonalize_left/right inplace=True, '
         'info / cache, grid_prep_opt(s), core_stab only in the variant where its threshold test v_max <= thr holds, methods on self), and C09_teneva_no_mutation, C09_teneva_no_alias, '
         'C09_teneva_separate_unchanged, C09_teneva_disjoint instantiate the theorems on it: no exported function changes an '
         'argument, and no object is reachable both from its result and from a non-exempt argument afterwards. Non-vacuity: '
         'the semantics has mutating / aliasing executions and the checker rejects those skeletons (C09_ex_*).',
    note='The theorems speak about the regenerated skeletons; that a skeleton describes the Python function is NOT proved: '
         'the translator harness/skeleton_c09.py is trusted (classification of NumPy / SciPy / builtin calls as fresh / view '
         '/ in-place, overwrite_a/b operands written and handed back, rules 1-7 of its docstring; rule 6: a callback is an '
         'object, writes none of its arguments, and what it returns may reference its arguments or its own closure; rule 2: '
         'parameters that no Args entry documents stay at their default -- e.g. optima_tt_beam(to_orth=False), which rescales '
         'the end core of its argument in place, is outside the property because to_orth is not in the Args; rule 3 (x is a number in the true branch of _is_num(x)) is granted only while the source of utils._is_num is `return '
         'isinstance(A, <immutable number types>)`; `flag is False / '
         'True` tests on a parameter are left undecided because 0 / np.bool_ are equally falsy; rule 5 is withdrawn: every loop '
         'may run zero times, so d = 1, q = 1, single samples and empty lists are covered; rule 7: name bound to np.where / a '
         'mask, or an entry X[..., k], is an advanced index (copy); rule 8: a basic-index view of a core of a documented '
         'TT-tensor (3-D numeric array) has a known number of dimensions, an index fixing all of them yields a scalar). It is validated numerically on every run by the dynamic footprint of all 96 exported functions '
         '(byte snapshots, np.shares_memory, container identity, write-after-return probes; C / F / strided layouts, lists '
         'vs arrays, callbacks returning a view of their argument or of their own buffer): every observed write / alias must '
         'be allowed by the exception table and predicted by the skeleton; in addition every table entry the translation relied '
         'on to call a library routine FRESH (new memory, operands untouched) is called directly on C / Fortran / strided / '
         'size-1 operands and checked with np.shares_memory; and every recipe is re-run with its option / index / point '
         'arguments given as C-contiguous int64 / float64 ndarrays (so that asanyarray / ascontiguousarray / grid_prep_opt(s) '
         'are the identity), scalar options written out as arrays, batches reduced to a single point or a single row, the whole '
         'call reduced to one dimension (d = 1), boolean flags passed as 0 / 1, np.bool_ and None, the optional arguments of two '
         'recipes of a function supplied together, iterative drivers with a stop criterion already met at entry, number operands '
         'passed as NumPy scalars and as (mutable) 0-d ndarrays, and core_stab swept over every binade 2^-6 .. 2^6 above and below its '
         'threshold. Result objects that a function also stores into '
         'the info / cache dictionaries are covered by the exception (info / cache may reach them). Exported classes (ANOVA, '
         'ANOVA_func) and underscore helpers are analysed as callees only. Heap model: a view / slice / reshape of an array '
         'is the same object as its base (conservative: two disjoint slices of one buffer count as aliased).',
    technique='Coq: verified certificate checker over a regenerated effect skeleton (translator route, abstract '
              'interpretation with allocation-site labelling, relational big-step semantics) + dynamic footprint harness')
TRUSTED = ['Coq 8.16.1 kernel + vm_compute (closed boolean check of the regenerated skeletons)',
           'translator harness/skeleton_c09.py: Python ast -> IR of Model/Heap.v; its fresh / view / in-place tables '
           'for NumPy, SciPy, builtins and rules 1-7 (validated by the dynamic footprint on every run)',
           'heap model of Model/Heap.v: object identity = memory buffer (views, slices, reshapes are the same object); '
           'lists / dicts / object arrays / instances / closures are objects holding references; only declared parameters '
           'are bound at entry',
           'user callbacks write none of their arguments; their results reference only what is reachable from their '
           'arguments or from the callback object itself (rule 6, ECallback = callspec with esc = all operands)',
           'mutable default arguments (info={}, cache={}) are treated as the argument they stand for']
ASSUMPTIONS = ['none on the number of dimensions: d >= 1, every loop may run zero times (the former rule 5 is withdrawn)',
               'documented argument combinations only: parameters no Args entry documents stay at their defaults (rule 2); '
               'for the five exported functions without an Args section (core_dot, core_dot_inv, core_dot_maxvol, '
               'core_qr_rand, func_diff_matrix_apply) the boolean flags are ranged over, the other defaults are kept',
               'the caller\'s heap is closed (no dangling reference) and the arguments are allocated in it']

GEN_FILE = os.path.join(C.COQ, 'Gen', 'SkelC09.v')
_GEN = {}


def pregen(R, ctx):
    """regenerate Gen/SkelC09.v from the current source tree"""
    g = SK.generate(C.REPO, GEN_FILE)
    _GEN['g'] = g
    return g


def gen():
    return _GEN.get('g') or pregen(None, None)


# ----------------------------------------------------------------------------------------------------------------
# snapshots
# ----------------------------------------------------------------------------------------------------------------
def snap(x, depth=0):
    """byte-level snapshot: arrays -> bytes + shape + dtype + strides; containers -> identity, length, elements"""
    if isinstance(x, np.ndarray):
        if x.dtype == object:
            return ('objarr', id(x), x.shape, [snap(y, depth + 1) for y in x.ravel(order='K')])
        return ('arr', id(x), x.shape, str(x.dtype), x.strides, np.array(x, copy=True, order='K').tobytes(order='A'))
    if isinstance(x, (list, tuple)):
        return (type(x).__name__, id(x), len(x), [(id(y), snap(y, depth + 1)) for y in x])
    if isinstance(x, dict):
        return ('dict', id(x), len(x), [(repr(k), id(v), snap(v, depth + 1)) for k, v in x.items()])
    if isinstance(x, (int, float, complex, str, bool, type(None), np.generic)):
        return ('val', repr(x))
    return ('obj', id(x))


def snap_diff(a, b, path=''):
    """first difference between two snapshots, ignoring nothing"""
    if a == b:
        return None
    if a[0] != b[0]:
        return path + ': kind changed'
    if a[0] == 'arr':
        for k, nm in ((1, 'identity'), (2, 'shape'), (3, 'dtype'), (4, 'strides'), (5, 'contents')):
            if a[k] != b[k]:
                return f'{path}: array {nm} changed'
    if a[0] in ('list', 'tuple'):
        if a[2] != b[2]:
            return f'{path}: length {a[2]} -> {b[2]}'
        for i, (u, v) in enumerate(zip(a[3], b[3])):
            if u[0] != v[0]:
                return f'{path}[{i}]: element replaced'
            d = snap_diff(u[1], v[1], f'{path}[{i}]')
            if d:
                return d
    if a[0] == 'dict':
        if a[2] != b[2]:
            return f'{path}: dict size {a[2]} -> {b[2]}'
        for u, v in zip(a[3], b[3]):
            if u[:2] != v[:2]:
                return f'{path}[{u[0]}]: entry replaced'
            d = snap_diff(u[2], v[2], f'{path}[{u[0]}]')
            if d:
                return d
    if a[0] == 'objarr':
        for i, (u, v) in enumerate(zip(a[3], b[3])):
            d = snap_diff(u, v, f'{path}.flat[{i}]')
            if d:
                return d
    return path + ': changed'


def arrays_in(x, out=None, conts=None, seen=None):
    """all ndarrays and all container objects reachable from x (lists, tuples, dicts, object arrays, closures)"""
    out = [] if out is None else out
    conts = [] if conts is None else conts
    seen = set() if seen is None else seen
    if id(x) in seen:
        return out, conts
    seen.add(id(x))
    if isinstance(x, np.ndarray):
        out.append(x)
        if x.dtype == object:
            conts.append(x)
            for y in x.ravel(order='K'):
                arrays_in(y, out, conts, seen)
    elif isinstance(x, (list, tuple)):
        if isinstance(x, list):
            conts.append(x)
        for y in x:
            arrays_in(y, out, conts, seen)
    elif isinstance(x, dict):
        conts.append(x)
        for y in x.values():
            arrays_in(y, out, conts, seen)
    elif callable(x) and getattr(x, '__closure__', None):
        for c in x.__closure__:
            try:
                arrays_in(c.cell_contents, out, conts, seen)
            except ValueError:
                pass
    return out, conts


# ----------------------------------------------------------------------------------------------------------------
# inputs
# ----------------------------------------------------------------------------------------------------------------
class Env:
    """input factory for one layout"""
    def __init__(self, tn, layout, aslist, seed):
        self.tn, self.layout, self.aslist, self.seed = tn, layout, aslist, seed
        self.rs = np.random.RandomState(seed)

    def arr(self, a, dtype=None):
        a = np.array(a, dtype=dtype)
        if self.layout == 'C':
            return np.ascontiguousarray(a)
        if self.layout == 'F':
            return np.asfortranarray(a) if a.ndim > 1 else a.copy()
        if a.ndim == 0:
            return a
        big = np.empty(a.shape + (2,), dtype=a.dtype)       # strided, non-contiguous view
        big[..., 0] = a
        big[..., 1] = -7
        v = big[..., 0]
        assert not v.flags['C_CONTIGUOUS'] or v.size <= 1
        return v

    def idx(self, a):
        """index argument: nested list or int array"""
        a = np.array(a, dtype=int)
        return a.tolist() if self.aslist else self.arr(a)

    def vec(self, a):
        a = np.array(a, dtype=float)
        return a.tolist() if self.aslist else self.arr(a)

    def tt(self, n=(3, 4, 3), r=2, seed=None, pos=False):
        n = list(n)
        d = len(n)
        rs = np.random.RandomState(self.seed * 7 + (seed or 0))
        rk = [1] + [r] * (d - 1) + [1]
        Y = []
        for k in range(d):
            G = rs.randint(-3, 4, size=(rk[k], n[k], rk[k + 1])).astype(float)
            if pos:
                G = np.abs(G) + 1.
            G[0, 0, 0] += 0.5
            Y.append(self.arr(G))
        return Y

    def full(self, n=(3, 4, 3), seed=0):
        rs = np.random.RandomState(self.seed * 11 + seed)
        return self.arr(rs.randint(-4, 5, size=tuple(n)).astype(float))


def _clone(x, memo=None):
    """independent copy of a recipe argument that keeps dtype, memory layout (C / Fortran / strided) and the identity
    relations between its parts; callables and numbers are shared"""
    memo = {} if memo is None else memo
    if id(x) in memo:
        return memo[id(x)]
    if isinstance(x, np.ndarray):
        if x.dtype == object:
            y = np.empty(x.shape, dtype=object)
            memo[id(x)] = y
            for idx in np.ndindex(x.shape):
                y[idx] = _clone(x[idx], memo)
            return y
        if x.ndim == 0 or x.flags['C_CONTIGUOUS']:
            y = x.copy(order='C')
        elif x.flags['F_CONTIGUOUS']:
            y = x.copy(order='F')
        else:
            big = np.empty(x.shape + (2,), dtype=x.dtype)
            big[..., 0] = x
            big[..., 1] = -7
            y = big[..., 0]
        memo[id(x)] = y
        return y
    if isinstance(x, list):
        y = []
        memo[id(x)] = y
        y.extend(_clone(v, memo) for v in x)
        return y
    if isinstance(x, tuple):
        return tuple(_clone(v, memo) for v in x)
    if isinstance(x, dict):
        y = {}
        memo[id(x)] = y
        for k, v in x.items():
            y[k] = _clone(v, memo)
        return y
    return x


def clone_case(case):
    label, args, kw = case
    memo = {}
    return label, [_clone(a, memo) for a in args], {k: _clone(v, memo) for k, v in kw.items()}


def ident(x):
    return x


def recipes(tn, E, only=None):
    """name -> list of (label, args, kwargs).  Every exported function of teneva/__init__.py has an entry here
    (uncovered names are reported in the evidence)."""
    n3 = [3, 4, 3]
    Y, Y2 = E.tt(n3, 2, 1), E.tt(n3, 2, 2)
    Yp = E.tt(n3, 2, 3, pos=True)
    Yq = E.tt([4, 4], 2, 4)            # mode size a power of two
    Yqq = E.tt([2, 2, 2, 2], 2, 5)     # QTT with q = 2
    Ym = E.tt([4, 4, 4], 2, 6)         # QTT-matrix (mode size 4)
    I1 = E.idx([1, 2, 0])
    Ib = E.idx([[1, 2, 0], [0, 0, 1], [2, 3, 2], [1, 1, 1]])
    rs = np.random.RandomState(E.seed + 5)
    # training data for als / anova on a 3 x 4 x 3 tensor: every slice is covered
    Iall = np.array(list(itertools.product(range(3), range(4), range(3))), dtype=int)
    yall = np.array([np.sin(i[0] + 2. * i[1] - i[2]) for i in Iall])
    Xtr = rs.uniform(-1, 1, size=(40, 3))
    ytr = np.array([np.cos(x.sum()) for x in Xtr])
    R = {}

    def add(name, label, *args, **kw):
        if only is None or name == only:
            R.setdefault(name, []).append((label, list(args), kw))
    add('add_many', 'tensors', [Y, Y2, E.tt(n3, 1, 7)])
    add('add_many', 'with number', [Y, 2.5, Y2], e=1e-8, r=3, trunc_freq=1)
    add('outer_many', 'three', [Y, Y2, Yq])
    add('copy', 'tt', Y)
    add('copy', 'array', E.full())
    add('copy', 'number', 3.5)
    add('copy', 'none', None)
    for ltr in (False, True):
        add('interface', f'plain ltr={ltr}', Y, ltr=ltr)
        add('interface', f'i ltr={ltr}', Y, i=I1, norm='natural', ltr=ltr)
        add('interface', f'Plist ltr={ltr}', Y, P=[E.vec([.2, .3, .5]), E.vec([.1, .2, .3, .4]), E.vec([.5, .2, .3])],
            norm=None, ltr=ltr)
        for nrm in (None, 'linalg', 'natural'):
            add('interface', f'Plist and i, norm={nrm} ltr={ltr}', Y, [E.vec([.2, .3, .5]), E.vec([.1, .2, .3, .4]), E.vec([.5, .2, .3])],
                I1, norm=nrm, ltr=ltr)
        add('interface', f'shared P and i ltr={ltr}', Yq, P=E.vec([.1, .2, .3, .4]), i=E.idx([1, 3]), norm=None, ltr=ltr)
        add('interface', f'shared P ltr={ltr}', Yq, P=E.vec([.1, .2, .3, .4]), ltr=ltr)
    add('get', 'one', Y, I1)
    add('get', 'batch', Y, Ib)
    add('get_and_grad', 'one', Y, I1)
    add('get_many', 'batch', Y, Ib)
    add('mean', 'plain', Y)
    add('mean', 'P', Y, P=[E.vec([.2, .3, .5]), E.vec([.1, .2, .3, .4]), E.vec([.5, .2, .3])])
    for us in (False, True):
        add('norm', f'use_stab={us}', Y, use_stab=us)
        add('mul_scalar', f'use_stab={us}', Y, Y2, use_stab=us)
        add('orthogonalize', f'k=1 use_stab={us}', Y, 1, use_stab=us)
        add('orthogonalize', f'k=None use_stab={us}', Y, use_stab=us)
    add('qtt_to_tt', 'q=2', Yqq, 2)
    add('sum', 'plain', Y)
    add('tt_to_qtt', 'n=4', Yq)
    add('accuracy', 'tt', Y, Y2)
    add('accuracy', 'arrays', E.full(), E.full(seed=1))
    for nm in ('add', 'mul', 'sub'):
        add(nm, 'tt tt', Y, Y2)
        add(nm, 'num tt', 2., Y2)
        add(nm, 'tt num', Y, 3.)
        add(nm, 'num num', 2., 3.)
    add('outer', 'tt tt', Y, Yq)
    for asw in (False, True):
        for ask in (False, True):
            for us in (False, True):
                kw = dict(nswp=2, info={}, allow_swap=asw, allow_skip_cores=ask, use_stab=us,
                          I_vld=E.arr(Iall[::3]), y_vld=E.arr(yall[::3]))
                if asw and us:
                    continue      # als(r=.., use_stab=True) raises AttributeError (orthogonalize returns a pair there):
                                  # a teneva defect outside C09, reported to the lead
                if asw:
                    kw['r'] = 3
                add('als', f'swap={asw} skip={ask} stab={us}', E.idx(Iall), E.vec(yall), E.tt(n3, 2, 8), **kw)
    add('als', 'w, cb, lamb None', E.arr(Iall), E.arr(yall), E.tt(n3, 2, 8), nswp=2, info={}, w=E.arr(np.ones(len(yall))),
        cb=lambda Y, info, opts: None, lamb=None)
    add('als', 'rank-adaptive', E.arr(Iall), E.arr(yall), E.tt(n3, 2, 8), nswp=2, info={}, r=3, e_adap=1e-3)
    add('als_func', 'cheb', E.arr(Xtr), E.arr(ytr), E.tt([3, 3, 3], 2, 9), nswp=2, info={},
        X_vld=E.arr(Xtr[:7]), y_vld=E.arr(ytr[:7]))
    add('als_func', 'fh identity-like, n_max', E.arr(Xtr), E.arr(ytr), E.tt([3, 3, 3], 2, 9), nswp=2, info={},
        fh=lambda X: tn.func_basis(X, 3), lamb=None)
    add('als_func', 'n_max', E.arr(Xtr), E.arr(ytr), E.tt([2, 2, 2], 2, 9), nswp=2, info={}, n_max=4)
    add('anova', 'order 1', E.arr(Iall), E.arr(yall), 2, 1, seed=1)
    add('anova', 'order 2', E.idx(Iall), E.vec(yall), 2, 2, seed=1)
    add('anova_func', 'plain', E.arr(Xtr), E.arr(ytr), 3)
    add('anova_func', 'e None', E.arr(Xtr), E.arr(ytr), 3, e=None)
    G = E.arr(rs.randint(-3, 4, size=(2, 3, 2)).astype(float) + np.eye(2)[:, None, :] * 5)
    Rm = E.arr(np.array([[2., 1.], [0., 3.]]))
    for ltr in (True, False):
        add('core_dot', f'ltr={ltr}', G, Rm, ltr=ltr)
        add('core_dot_inv', f'ltr={ltr}', G, Rm, ltr=ltr)
        add('core_dot_maxvol', f'ltr={ltr}', G, Rm, ltr=ltr)
        add('core_qr_rand', f'ltr={ltr}', G, 1, ltr=ltr, seed=3)
    add('core_dot', 'number', E.arr(rs.randint(-3, 4, size=(2, 3, 1)).astype(float)), 2.)
    add('core_qtt_to_tt', 'two cores', [E.arr(rs.rand(1, 2, 2)), E.arr(rs.rand(2, 2, 3))])
    add('core_qtt_to_tt', 'one core', [E.arr(rs.rand(2, 2, 3))])
    add('core_stab', 'scaled', E.arr(rs.rand(2, 3, 2) * 100))
    # the pass-through of core_stab is allowed only at / below its threshold: sweep the magnitude of the core over every binade
    # 2^-6 .. 2^6 (four positions inside each, [1, 2) included), above the threshold, and the same magnitudes below an
    # explicit threshold
    Gb = rs.uniform(-1., 1., size=(3, 4, 2))
    Gb /= np.max(np.abs(Gb))
    for eb in range(-6, 7):
        for fb in (1.0, 1.25, 1.5, 1.999):
            add('core_stab', f'max|G| = {fb} * 2^{eb}', E.arr(Gb * (fb * 2.**eb)))
        add('core_stab', f'max|G| = 2^{eb}, p0 = 3', E.arr(Gb * 2.**eb), 3)
        add('core_stab', f'max|G| = 1.5 * 2^{eb} below thr = 2^8', E.arr(Gb * (1.5 * 2.**eb)), 0, 256.)
    add('core_stab', 'below threshold', E.arr(np.zeros((2, 3, 2))), 1, 1e-100)
    add('core_tt_to_qtt', 'n=4', E.arr(rs.rand(2, 4, 3)))
    add('core_tt_to_qtt', 'n=2', E.arr(rs.rand(2, 2, 3)))

    def f3(I):
        return np.sin(I[:, 0] + 2. * I[:, 1] - I[:, 2])
    add('cross', 'm', f3, E.tt(n3, 2, 10), m=300, info={}, cache={})
    add('cross', 'nswp, vld, cb', f3, E.tt(n3, 2, 10), nswp=2, info={}, I_vld=E.arr(Iall[::3]), y_vld=E.arr(yall[::3]),
        cb=lambda Y, info, opts: None)
    add('cross', 'callback returns a column of its argument', lambda I: I[:, 0], E.tt(n3, 2, 10), nswp=2, info={},
        cache={}, e=1e-9)
    add('cross', 'e, dr', f3, E.tt(n3, 1, 10), e=1e-4, nswp=3, dr_min=0, dr_max=2, info={})
    add('cross_act', 'sum', lambda X: X[:, 0] + X[:, 1], [E.tt(n3, 2, 11), E.tt(n3, 2, 12)], E.tt(n3, 2, 13), nswp=2, seed=1)
    add('cross_act', 'identity callback, dr=0', lambda X: X[:, 0], [E.tt(n3, 2, 11)], E.tt(n3, 2, 13), nswp=1, dr=0, seed=1)
    # iterative drivers with a stop criterion ALREADY met at entry (nothing, or almost nothing, is computed: the result must
    # still be independent of Y0 / A0 and of every other argument): no sweeps allowed, a huge tolerance, validation data the
    # initial guess already fits (warm start with the exact tensor), an empty / tiny budget, a callback that stops at once
    Yex = E.tt(n3, 2, 50)
    yex = np.array([np.einsum('a,ab,b->', np.ones(1), np.linalg.multi_dot([G[:, i, :] for G, i in zip(Yex, ii)]), np.ones(1))
                    for ii in Iall])

    def stop_now(Y, info, opts):
        return True
    for tag, kw in (('nswp=0', dict(nswp=0)), ('e huge', dict(e=1e99)), ('e_vld huge', dict(e_vld=1e99)),
                    ('warm start, e_vld met by Y0', dict(e_vld=1e-6)), ('warm start, nswp=1', dict(nswp=1)),
                    ('cb stops at once', dict(cb=stop_now))):
        add('als', f'entry stop: {tag}', E.arr(Iall), E.arr(yex), _clone(Yex), info={},
            I_vld=E.arr(Iall[::2]), y_vld=E.arr(yex[::2]), **dict(dict(nswp=3), **kw))
        add('als', f'entry stop, rank-adaptive: {tag}', E.arr(Iall), E.arr(yex), _clone(Yex), info={}, r=3,
            I_vld=E.arr(Iall[::2]), y_vld=E.arr(yex[::2]), **dict(dict(nswp=3), **kw))
        add('cross', f'entry stop: {tag}', lambda I: np.array([yex[np.ravel_multi_index(tuple(i), n3)] for i in I]), _clone(Yex),
            info={}, cache={}, I_vld=E.arr(Iall[::2]), y_vld=E.arr(yex[::2]), **dict(dict(nswp=3), **kw))
    for tag, kw in (('m=0', dict(m=0)), ('m=1', dict(m=1)), ('m=5', dict(m=5))):
        add('cross', f'entry stop: {tag}', f3, E.tt(n3, 2, 10), info={}, cache={}, **kw)
    Atr = E.tt([3, 3, 3], 2, 51)
    ytr_ex = tn.func_get(Xtr, Atr, -1., 1.)
    for tag, kw in (('nswp=0', dict(nswp=0)), ('e huge', dict(e=1e99)), ('e_vld huge', dict(e_vld=1e99)),
                    ('warm start, e_vld met by A0', dict(e_vld=1e-6))):
        add('als_func', f'entry stop: {tag}', E.arr(Xtr), E.arr(ytr_ex), _clone(Atr), info={},
            X_vld=E.arr(Xtr[:9]), y_vld=E.arr(ytr_ex[:9]), **dict(dict(nswp=3), **kw))
    for tag, kw in (('nswp=0', dict(nswp=0)), ('e huge', dict(e=1e99, nswp=2)), ('nswp=1 dr=0', dict(nswp=1, dr=0))):
        add('cross_act', f'entry stop: {tag}', lambda X: X[:, 0] + X[:, 1], [E.tt(n3, 2, 11), E.tt(n3, 2, 12)], E.tt(n3, 2, 13),
            seed=1, **kw)
    add('optima_qtt', 'e huge', E.tt([4, 4, 4], 2, 20), k=2, e=1e99)
    add('optima_qtt', 'r=1', E.tt([4, 4, 4], 2, 20), k=2, r=1)
    add('optima_tt_maxvol', 'k=1', Y, 1)
    add('optima_func_tt_beam', 'k=1', E.tt([3, 3, 3], 2, 21), 1)
    add('truncate', 'e huge', E.tt(n3, 3, 24), 1e99)
    add('truncate', 'r=1', E.tt(n3, 3, 24), 1e-2, 1)
    add('add_many', 'entry stop: trunc_freq larger than the list', [Y, Y2], trunc_freq=10)
    add('accuracy_on_data', 'plain', Y, E.idx(Ib), E.vec([1., 2., 3., 4.]))
    add('accuracy_on_data', 'trunc', Y, E.idx(Ib), E.vec([1., 2., 3., 4.]), e_trunc=1e-3)
    add('accuracy_on_data', 'none', Y, None, None)
    add('cache_to_data', 'dict', {(0, 1, 2): 1.5, (1, 1, 1): 2.5})
    X1 = E.arr(rs.uniform(-1, 1, size=(5, 3)))
    add('func_basis', 'm=4', X1, 4)
    add('func_basis', 'm=1', X1, 1)
    for kind in ('cheb', 'sin'):
        add('func_diff_matrix', f'{kind} m=1', -1., 1., 5, 1, kind)
        add('func_diff_matrix', f'{kind} m=2', -1., 1., 5, 2, kind)
        add('func_gets', f'{kind}', E.tt([3, 3, 3], 2, 14), kind=kind)
        add('func_gets', f'{kind} m', E.tt([3, 3, 3], 2, 14), m=E.idx([4, 4, 4]), kind=kind)
        add('func_int', f'{kind}', E.tt([4, 4, 4], 2, 15), kind=kind)
        add('func_sum', f'{kind}', E.tt([4, 4, 4], 2, 16), E.vec([-1., -1., -1.]), E.vec([1., 2., 1.]), kind=kind)
    add('func_diff_matrix_apply', 'sin', E.tt([4, 4, 4], 2, 17), E.arr(tn.func_diff_matrix(0., 1., 4, 1, 'sin')), 'sin')
    add('func_get', 'many', X1, E.tt([3, 3, 3], 2, 18), E.vec([-1., -1., -1.]), E.vec([1., 1., 1.]))
    add('func_get', 'one', E.vec([.1, .2, .3]), E.tt([3, 3, 3], 2, 18), -1., 1., z=-1.)
    add('func_get', 'funcs', X1, E.tt([3, 3, 3], 2, 18), funcs=lambda x: tn.func_basis(x, 3), skip_out=False)
    add('func_get', 'identity-like funcs', X1, E.tt([1, 1, 1], 1, 18), funcs=lambda x: x[None, :], skip_out=False)
    add('func_get', 'a b None', X1, E.tt([3, 3, 3], 2, 18))
    Xc = np.cos(np.pi * np.arange(4) / 3)
    add('func_int_general', 'rank 2 (first core has r1 = 1)', E.tt([4, 4, 4], 2, 19), E.vec(Xc), lambda X: tn.func_basis(X, 4))
    add('func_int_general', 'rank 1 (every core is a vector)', E.tt([4, 4, 4], 1, 19), E.vec(Xc), lambda X: tn.func_basis(X, 4))
    add('func_int_general', '2-D X, fewer functions', E.tt([4, 4, 4], 2, 19), E.arr(np.array([Xc] * 3)),
        lambda X: tn.func_basis(X, 3))
    Af = E.full([3, 3, 3], seed=2)
    add('func_get_full', 'many', X1, Af, -1., 1.)
    add('func_get_full', 'skip_out False', X1, Af, E.vec([-1.] * 3), E.vec([1.] * 3), z=2., skip_out=False)
    add('func_gets_full', 'plain', Af, -1., 1.)
    add('func_gets_full', 'm', Af, -1., 1., m=E.idx([4, 4, 4]))
    add('func_int_full', 'plain', Af)
    add('func_sum_full', 'plain', Af, E.vec([-1., -2., -1.]), E.vec([1., 2., 1.]))
    add('grid_flat', 'list', E.idx([2, 3, 2]))
    add('grid_flat', 'number', 4)
    add('grid_prep_opt', 'number', 2., 3)
    add('grid_prep_opt', 'list/array', E.vec([1., 2., 3.]), 3)
    add('grid_prep_opt', 'int kind reps', E.idx([1, 2, 3]), 3, int, 2)
    add('grid_prep_opt', 'none', None)
    add('grid_prep_opts', 'mixed', E.vec([-1., -1., -1.]), 1., E.idx([4, 4, 4]))
    add('grid_prep_opts', 'reps', -1., E.vec([1., 2., 3.]), 5, 3, 2)
    add('ind_qtt_to_tt', 'one', E.idx([1, 0, 0, 1, 1, 1]), 2)
    add('ind_qtt_to_tt', 'batch', E.idx([[1, 0, 0, 1, 1, 1], [0, 0, 1, 1, 0, 1]]), 2)
    add('ind_tt_to_qtt', 'one', E.idx([1, 2, 3]), 4)
    add('ind_tt_to_qtt', 'batch', E.idx([[1, 2, 3], [0, 3, 1]]), 4)
    for kind in ('uni', 'cheb'):
        add('ind_to_poi', f'{kind} one', E.idx([1, 2, 0]), -1., 1., 4, kind)
        add('ind_to_poi', f'{kind} batch arrays', E.idx([[1, 2, 0], [3, 3, 3]]), E.vec([-1., -2., -3.]), E.vec([1., 2., 3.]),
            E.idx([4, 4, 4]), kind)
        add('poi_scale', f'{kind}', X1, E.vec([-1., -1., -1.]), E.vec([1., 1., 1.]), kind)
        add('poi_scale', f'{kind} one', E.vec([.1, .2, 5.]), -1., 1., kind)
        add('poi_to_ind', f'{kind}', X1, E.vec([-1., -1., -1.]), E.vec([1., 1., 1.]), E.idx([4, 5, 6]), kind)
        add('poi_to_ind', f'{kind} one', E.vec([.1, .2, .3]), -1., 1., 4, kind)
    add('matrix_delta', 'plain', 3, 2, 5, 2.)
    A = E.arr(rs.rand(7, 3))
    add('maxvol', 'plain', A)
    add('maxvol_rect', 'plain', A, dr_min=1, dr_max=2)
    add('maxvol_rect', 'dr_max None', A)
    Y44 = E.tt([4, 4, 4], 2, 20)
    add('optima_qtt', 'n=4', Y44, k=5)
    add('optima_tt', 'plain', Y, k=5)
    for l2r in (True, False):
        for ra in (True, False):
            add('optima_tt_beam', f'l2r={l2r} ret_all={ra}', Y, 5, l2r, ra)
    add('optima_tt_max', 'plain', Y, 5)
    for how in ('l2r', 'r2l', 'both', 'smart'):
        add('optima_tt_maxvol', how, Y, 3, how)
    for ra in (True, False):
        add('optima_func_tt_beam', f'ret_all={ra}', E.tt([3, 3, 3], 2, 21), 3, ret_all=ra)
    add('optima_func_tt_beam', 'k_loc', E.tt([3, 3, 3], 2, 21), 3, k_loc=2)
    for nm in ('erank', 'ranks', 'shape', 'size', 'show', 'full'):
        add(nm, 'plain', Y)
    add('erank', 'd=2', Yq)
    add('full', 'd=2', Yq)
    add('sample', 'm=5', Yp, 5, seed=2)
    add('sample', 'm=1', Yp, seed=2)
    for un in (True, False):
        add('sample_square', f'unique={un}', Yp, 4, unique=un, seed=3)
    add('sample_lhs', 'plain', E.idx([3, 4, 3]), 6, seed=1)
    add('sample_rand', 'plain', E.idx([3, 4, 3]), 6, seed=1)
    add('sample_rand_poi', 'plain', E.vec([-1., -2., -3.]), E.vec([1., 2., 3.]), 5, seed=1)
    add('sample_tt', 'plain', E.idx([3, 4, 3]), 2, seed=1)
    for cap in (False,):
        add('sample_func', f'prepared={cap}', E.tt([3, 3, 3], 2, 22, pos=True), seed=4, cores_are_prepared=cap)
    Aprep = tn.orthogonalize(E.tt([3, 3, 3], 2, 22, pos=True), 0)
    add('sample_func', 'prepared=True', [E.arr(g) for g in Aprep], seed=4, cores_are_prepared=True)
    add('cdf_confidence', 'plain', E.arr(rs.rand(6)))
    add('cdf_getter', 'array', E.arr(rs.rand(6)))
    add('cdf_getter', 'list', rs.rand(6).tolist())
    M = E.arr(rs.rand(5, 4))
    for gt in ('m', 'l', 'r'):
        for rel in (False, True):
            add('matrix_skeleton', f'give_to={gt} rel={rel}', M, 1e-3, 3, rel=rel, give_to=gt)
    add('matrix_skeleton', 'hermitian', E.arr(M.T @ M), hermitian=True)
    add('matrix_svd', 'tall', M, 1e-3, 3)
    add('matrix_svd', 'wide', E.arr(np.array(M).T.copy()))
    add('svd', '3-D', E.full([3, 4, 3]))
    add('svd', '2-D', E.full([3, 4]))
    add('svd', '1 x n x 1', E.full([1, 4, 1]))
    add('svd_matrix', '4x4', E.full([4, 4]))
    It, idx, idxm = tn.sample_tt([3, 4, 3], 2, seed=1)
    yt = np.array([np.sin(i[0] + 2. * i[1] - i[2]) for i in It])
    add('svd_incomplete', 'plain', E.arr(It), E.arr(yt), E.arr(idx), E.arr(idxm), 1e-10, 2)
    add('const', 'plain', E.idx([3, 4, 3]), 2.)
    add('const', 'zeros', E.idx([3, 4, 3]), 2., I_zero=E.idx([[0, 1, 2], [1, 1, 1]]), i_non_zero=E.idx([0, 2, 2]))
    add('delta', 'plain', E.idx([3, 4, 3]), E.idx([1, 2, 0]), 2.)
    add('poly', 'plain', E.idx([3, 4, 3]), 1., 2, 2.)
    add('poly', 'shift array', E.idx([3, 4, 3]), E.vec([1., 2., 3.]))
    add('rand', 'plain', E.idx([3, 4, 3]), 2, seed=1)
    add('rand', 'rank list', E.idx([3, 4, 3]), E.idx([1, 2, 3, 1]), seed=1)
    add('rand_custom', 'f', E.idx([3, 4, 3]), 2, lambda sz: np.arange(sz, dtype=float))
    _buf = np.arange(1000, dtype=float)
    add('rand_custom', 'f returns a view of its own buffer', E.idx([3, 4, 3]), E.idx([1, 2, 2, 1]), lambda sz: _buf[:sz])
    add('rand_norm', 'plain', E.idx([3, 4, 3]), 2, seed=1)
    add('rand_stab', 'plain', E.idx([3, 4, 3]), 2, seed=1)
    add('rand_stab', 'rank list', E.idx([3, 4, 3]), E.idx([1, 2, 3, 1]), seed=1)
    add('rand_norm', 'rank list', E.idx([3, 4, 3]), E.idx([1, 2, 3, 1]), seed=1)
    add('full_matrix', 'q=3', Ym)
    for ip in (False, True):
        add('orthogonalize_left', f'inplace={ip}', E.tt(n3, 2, 23), 0, inplace=ip)
        add('orthogonalize_left', f'i=1 inplace={ip}', E.tt(n3, 2, 23), 1, ip)
        add('orthogonalize_right', f'inplace={ip}', E.tt(n3, 2, 23), 2, inplace=ip)
        add('orthogonalize_right', f'i=1 inplace={ip}', E.tt(n3, 2, 23), 1, ip)
    for orth in (True, False):
        for us in (True, False):
            for ie in (True, False):
                add('truncate', f'orth={orth} stab={us} eigh={ie}', tn.add(Y, Y) if False else E.tt(n3, 3, 24), 1e-2, 2,
                    orth, us, ie)
    add('vector_delta', 'plain', 3, 5, 2.)
    # degenerate shapes: d = 2, TT-rank 1, modes of size 1 (NumPy hands out views more readily for size-1 / contiguous data:
    # reshape, squeeze, ascontiguousarray, asanyarray are the layout-dependent entries of the translator's tables)
    Yd, Yd_ = E.tt([2, 3], 1, 30), E.tt([2, 3], 1, 31)
    Ym1, Ym1_ = E.tt([1, 3, 1], 2, 32), E.tt([1, 3, 1], 2, 33)
    Y11 = E.tt([1, 1], 1, 34)
    for tag, A_, B_, i_ in (('d=2 r=1', Yd, Yd_, [1, 2]), ('modes of size 1', Ym1, Ym1_, [0, 2, 0]), ('1 x 1', Y11, E.tt([1, 1], 1, 35), [0, 0])):
        for nm in ('add', 'mul', 'sub', 'outer', 'mul_scalar', 'accuracy'):
            add(nm, tag, A_, B_)
        for nm in ('copy', 'full', 'sum', 'mean', 'norm', 'ranks', 'shape', 'size', 'erank', 'interface', 'orthogonalize'):
            add(nm, tag, A_)
        add('get', tag, A_, E.idx(i_))
        add('get_many', tag, A_, E.idx([i_, i_]))
        add('truncate', tag, A_, 1e-10)
        add('truncate', tag + ' orth=False', A_, 1e-10, orth=False)
        add('orthogonalize', tag + ' k=0', A_, 0)
        add('orthogonalize_left', tag, A_, 0)
        add('orthogonalize_right', tag, A_, len(A_) - 1)
        add('add_many', tag, [A_, B_, A_])
        add('optima_tt', tag, A_)
    # shapes that make a loop run zero times (besides d = 1 / m = 1, which the derived modes 'd1' / 'm1' produce for every recipe)
    Y1d = [E.arr(rs.randint(-3, 4, size=(1, 4, 1)).astype(float) + 0.5)]
    add('full', 'd=1', Y1d)
    add('copy', 'd=1', Y1d)
    add('get', 'd=1', Y1d, E.idx([2]))
    add('get_many', 'd=1, m=1', Y1d, E.idx([[2]]))
    add('svd', 'd=1 (vector)', E.full([4]))
    add('tt_to_qtt', 'q=1 (n=2)', E.tt([2, 2], 2, 40))
    add('qtt_to_tt', 'q=1', E.tt([2, 2], 2, 41), 1)
    add('ind_qtt_to_tt', 'q=1', E.idx([1, 0, 1]), 1)
    add('ind_tt_to_qtt', 'q=1 (n=2)', E.idx([1, 0, 1]), 2)
    add('optima_qtt', 'q=1 (n=2)', E.tt([2, 2, 2], 2, 42), k=3)
    add('full_matrix', 'q=1', E.tt([4], 1, 43))
    add('add_many', 'one tensor', [Y])
    add('outer_many', 'one tensor', [Y])
    add('const', 'empty zero list', E.idx([3, 4, 3]), 2., I_zero=[], i_non_zero=None)
    add('optima_tt_beam', 'k=1', Y, 1)
    add('optima_tt', 'k=1', Y, k=1)
    add('sample', 'm=1 explicit', Yp, 1, seed=2)
    add('sample_lhs', 'm=1', E.idx([3, 4, 3]), 1, seed=1)
    add('sample_tt', 'r=1', E.idx([3, 4, 3]), 1, seed=1)
    add('cross', 'nswp=1', f3, E.tt(n3, 1, 10), nswp=1, info={})
    add('als', 'nswp=1', E.arr(Iall), E.arr(yall), E.tt(n3, 1, 8), nswp=1, info={})
    add('svd', '2 x 1', E.full([2, 1]))
    add('svd', '1 x 1 x 1', E.full([1, 1, 1]))
    add('svd', '1 x 3', E.full([1, 3]))
    add('matrix_svd', '1 x 1', E.arr(np.array([[2.]])))
    add('matrix_skeleton', '1 x 3', E.arr(np.array([[1., 2., 3.]])))
    add('const', 'd=2 n=1', E.idx([1, 1]), 2.)
    add('delta', 'd=2 n=1', E.idx([1, 1]), E.idx([0, 0]))
    add('rand', 'd=2 n=1', E.idx([1, 1]), 1, seed=1)
    add('rand_custom', 'd=2 n=1, view of own buffer', E.idx([1, 1]), 1, lambda sz: _buf[:sz])
    add('sample', 'd=2', E.tt([2, 3], 1, 36, pos=True), 3, seed=2)
    add('core_stab', '1 x 1 x 1', E.arr(np.array([[[4.]]])))
    add('core_dot', '1 x 1 x 1', E.arr(np.array([[[4.]]])), E.arr(np.array([[2.]])))
    add('getter', 'numba', Y)
    return R


# ----------------------------------------------------------------------------------------------------------------
# footprint of one call
# ----------------------------------------------------------------------------------------------------------------
# the tests on which the translator specialises a pass-through exception (skeleton_c09.GUARD_SPLITS), on actual arguments
GUARDS = {'v_max <= thr': lambda b: float(np.max(np.abs(b['G']))) <= float(b['thr'])}


def predicted(g, name, bound):
    """what the skeleton predicts for the call: the union over the variants compatible with the bound arguments.  A flag
    that is specialised True / False but passed as None (func_get(skip_out=None) decides inside) is compatible with both;
    a call that leaves the documented argument combinations (an undocumented parameter off its default, e.g.
    func_int(kind='sin')) is compared with the union of all variants of the function.  None: no variant at all."""
    rs = [r for r in _report(g) if r['name'] == name]
    if not rs:
        return None

    try:
        src = inspect.getsource(getattr(sys.modules['teneva'], name))
    except Exception:
        src = ''

    def compatible(r):
        for k, v in r['flags'].items():
            if k in GUARDS:      # guard pseudo-flag of the exception table, evaluated on the actual arguments
                try:
                    if str(bool(GUARDS[k](bound))) != v:
                        return False
                except Exception:
                    pass
                continue
            if k not in bound:
                continue
            b = bound[k]
            if callable(b) and v == '<lambda-default>':
                continue
            if v in ('True', 'False'):
                # a flag is compared by truthiness: False, 0, np.bool_(False) select the False variant; None selects it too
                # unless the function tests `flag is None` itself (func_get(skip_out=None) decides inside)
                if b is None and re.search(rf'\b{k} is (not )?None', src):
                    continue
                if b is None or isinstance(b, (bool, np.bool_, int, np.integer)):
                    if str(bool(b)) != v:
                        return False
                    continue
            if str(b) != v:
                return False
        return True
    sel = [r for r in rs if compatible(r)] or rs
    out = dict(name=name, flags=sel[0]['flags'], variants=len(sel))
    for key in ('writes', 'escapes', 'bad_writes', 'bad_escapes', 'unknown'):
        out[key] = sorted({x for r in sel for x in r[key]})
    return out


def _report(g):
    if 'report' not in _GEN or _GEN.get('report_for') is not g:
        _GEN['report'], _GEN['report_for'] = g.report(), g
    return _GEN['report']


def run_case(tn, g, name, label, args, kw, probes=True, tolerant=False):
    """returns (list of violations, info dict)"""
    f = getattr(tn, name)
    try:
        sig = inspect.signature(f)
        ba = sig.bind(*args, **kw)
        ba.apply_defaults()
        bound = dict(ba.arguments)
        passed = set(sig.bind(*args, **kw).arguments)
    except Exception as e:
        return [dict(what=f'{name}: recipe does not match the signature: {e!r}', recipe_error=True)], {}
    pred = predicted(g, name, bound)
    if pred is None:
        return [dict(what=f'{name}: no skeleton variant for this call (flags {[(k, bound[k]) for k in bound if isinstance(bound[k], bool)]})',
                     recipe_error=True)], {}
    before = {k: snap(v) for k, v in bound.items() if k in passed}
    arg_arr, arg_cont = {}, {}
    for k, v in bound.items():
        if k in passed:
            arg_arr[k], arg_cont[k] = arrays_in(v)
    buf = io.StringIO()
    try:
        with contextlib.redirect_stdout(buf), warnings.catch_warnings():
            warnings.simplefilter('ignore')
            res = f(*args, **kw)
    except Exception as e:
        if name == 'getter' and 'Numba' in str(e):
            return [], dict(skipped='numba is not installed')
        # the call raised: the arguments must be intact all the same (an exception half-way must not leave a modified
        # argument behind); for the fixed seed 1 a raising recipe is a harness problem, for the other seeds it is tolerated
        ok_w = set(pred['writes']) - set(pred['bad_writes'])
        viol = [dict(what=f'{name} [{label}] raised {type(e).__name__} and left its argument modified: {d}', param=k, kind='write')
                for k in before for d in [snap_diff(before[k], snap(bound[k]), k)] if d and k not in ok_w]
        if not tolerant:
            viol.append(dict(what=f'{name} [{label}] raised {e!r} (recipe problem, not a C09 failure)', recipe_error=True))
        return viol, dict(raised=type(e).__name__)
    viol = []
    # what the exception table allows for this variant / what the skeleton predicts beyond it (then the static side flags
    # the function too: the observed effect is a violation of the PROPERTY with a concrete input, predicted or not)
    ok_writes = set(pred['writes']) - set(pred['bad_writes'])
    ok_escapes = set(pred['escapes']) - set(pred['bad_escapes'])

    def why(k, predicted_set):
        return ('the skeleton flags it too' if k in predicted_set else
                'NOT predicted by the skeleton: a classification table of the translator is wrong')
    # 1. arguments unchanged
    for k in before:
        d = snap_diff(before[k], snap(bound[k]), k)
        if d and k not in ok_writes:
            viol.append(dict(what=f'{name} [{label}]: argument modified: {d} ({why(k, pred["writes"])})', param=k,
                             kind='write'))
    # 2. no aliasing of results
    res_arr, res_cont = arrays_in(res)
    exempt_dicts = [bound[k] for k in ('info', 'cache') if k in passed and isinstance(bound.get(k), dict)]
    for k in arg_arr:
        if k in ('info', 'cache'):
            continue
        hit = None
        for ra in res_arr:
            for aa in arg_arr[k]:
                if ra.dtype != object and aa.dtype != object and np.may_share_memory(ra, aa) and np.shares_memory(ra, aa):
                    hit = 'result array shares memory with argument'
        for rc in res_cont:
            for ac in arg_cont[k]:
                if rc is ac:
                    hit = 'result container IS an argument container'
        if hit and k not in ok_escapes:
            viol.append(dict(what=f'{name} [{label}]: {hit} {k} ({why(k, pred["escapes"])})', param=k, kind='alias'))
    for dct in exempt_dicts:
        da, _ = arrays_in(dct)
        for ra in res_arr:
            for aa in da:
                if ra.dtype != object and aa.dtype != object and np.shares_memory(ra, aa):
                    viol.append(dict(what=f'{name} [{label}]: result shares memory with an array stored into info / cache',
                                     kind='alias-info'))
    # 3. write-after-return probes
    if probes and not viol:
        clean = [k for k in arg_arr if k not in ok_escapes and k not in ('info', 'cache')]
        s0 = {k: snap(bound[k]) for k in clean}
        for ra in res_arr:
            if ra.dtype != object and ra.flags.writeable and ra.size:
                try:
                    ra[...] = (1 if ra.dtype.kind in 'iub' else 0.123)
                except Exception:
                    pass
        for rc in res_cont:
            if isinstance(rc, list):
                rc.append('probe')
        for k in clean:
            d = snap_diff(s0[k], snap(bound[k]), k)
            if d:
                viol.append(dict(what=f'{name} [{label}]: writing into the result changed argument {d}', param=k,
                                 kind='probe-result'))
        if not viol:
            rs0 = snap(res)
            for k in clean:
                for aa in arg_arr[k]:
                    if aa.dtype != object and aa.flags.writeable and aa.size:
                        aa[...] = (1 if aa.dtype.kind in 'iub' else 0.321)
            d = snap_diff(rs0, snap(res), 'result')
            if d:
                viol.append(dict(what=f'{name} [{label}]: writing into the arguments changed the {d}', kind='probe-arg'))
    return viol, dict(pred=pred)


# ----------------------------------------------------------------------------------------------------------------
# derived recipe family: identity conversions
# ----------------------------------------------------------------------------------------------------------------
# teneva normalises option / index / point arguments with np.asanyarray / asarray / ascontiguousarray / grid_prep_opt(s):
# when the caller's array already has the target dtype and C layout the conversion is the identity and the function works
# on the caller's own memory.  Every base recipe is therefore re-run with every numeric argument given as a C-contiguous
# ndarray of dtype int64 (integral values) or float64, optionally with scalar options written out as arrays of length d, and
# optionally with batch arguments (points / multi-indices) reduced to a single point.  Calls that raise are tolerated (the
# arguments are compared all the same).
SINGLE_PARAMS = {'X', 'I', 'i', 'x', 'X_trn', 'I_trn', 'X_vld', 'I_vld', 'I_data', 'X_data', 'I_qtt', 'I_tt'}
DERIVED_MODES = [(dt, arr, single) for single in (False, True) for arr in (False, True) for dt in ('i', 'f')] + \
    [('d1', False, False), ('m1', False, False), ('flags', 'int', False), ('flags', 'np', False), ('flags', 'none', False),
     ('num', 'npscalar', False), ('num', '0d', False)]
# 'num': every Python number passed for a parameter that also accepts a tensor / array (Y1, Y2 of add / mul / sub, the entries
#        of add_many, copy(Y), grid options a, b, n, ranks r, ...) is passed as a NumPy scalar (np.float64 / np.int64, immutable)
#        and as a 0-d ndarray (np.array(2.5): MUTABLE -- handing it back unchanged is an alias like any other).
# 'flags': every boolean flag of the call (passed or left at its default) in another form of the same truthiness: 0 / 1,
#          np.bool_(False) / np.bool_(True), and None for a False flag (tolerated if the function rejects it).
# 'merge': the optional arguments that ANOTHER recipe of the same function supplies are added to this call (interaction of
#       optional arguments: interface(Y, P=.., i=..), func_get(a, b, funcs), als(w, I_vld, ...)); built in footprint().
# 'd1': the whole call reduced to ONE dimension (every TT-tensor cut to its first core, shape (1, n, 1); every length-d option
#       / index to its first entry; lists of d things to their first element): loops over range(1, d) / Y[1:] run zero times;
# 'm1': batches of points / multi-indices (and the value vectors of the same length) cut to a single row, kept 2-D.


def _is_num(x):
    return isinstance(x, (int, float, np.integer, np.floating)) and not isinstance(x, (bool, np.bool_))


def _numeric_nested(v):
    """rectangular nested list / tuple of numbers?"""
    if not isinstance(v, (list, tuple)) or not v:
        return False
    try:
        a = np.array(v)
    except Exception:
        return False
    return a.dtype != object and a.dtype.kind in 'iuf' and not any(isinstance(x, np.ndarray) for x in v)


def _exact(v, dt):
    a = np.asarray(v)
    if dt == 'i' and a.dtype.kind in 'iuf' and a.size and np.all(np.isfinite(a)) and np.all(a == np.rint(a)):
        return np.array(a, dtype=np.int64, order='C')
    return np.array(a, dtype=np.float64, order='C')


def _dimension(bound):
    for v in bound.values():
        if isinstance(v, list) and v and all(isinstance(x, np.ndarray) and x.ndim == 3 for x in v):
            return len(v)
    for k, v in bound.items():
        if k in SINGLE_PARAMS and (isinstance(v, np.ndarray) or _numeric_nested(v)):
            a = np.asarray(v)
            if a.ndim in (1, 2):
                return a.shape[-1]
    for v in bound.values():
        if (isinstance(v, np.ndarray) and v.dtype != object and v.ndim == 1) or _numeric_nested(v):
            a = np.asarray(v)
            if a.ndim == 1:
                return a.shape[0]
    d = bound.get('d')
    return int(d) if _is_num(d) else None


def _is_tt(v):
    return isinstance(v, list) and len(v) > 0 and all(isinstance(x, np.ndarray) and x.ndim == 3 for x in v)


def _shrink(tn, name, args, kw, mode):
    """the 'd1' / 'm1' forms of a call"""
    f = getattr(tn, name)
    try:
        sig = inspect.signature(f)
        ba = sig.bind(*args, **kw)
    except Exception:
        return None
    bound = dict(ba.arguments)
    d = _dimension(bound)
    m = None
    for k, v in bound.items():
        if k in SINGLE_PARAMS and isinstance(v, (np.ndarray, list)) and not _is_tt(v):
            a = np.asarray(v)
            if a.dtype != object and a.ndim == 2:
                m = a.shape[0]
    signature = []

    def d1(k, v):
        if _is_tt(v):
            return [np.array(v[0][:1, :, :1], order='C')]
        if isinstance(v, list) and v and all(_is_tt(x) or _is_num(x) for x in v) and any(_is_tt(x) for x in v):
            return [d1(k, x) for x in v]                      # list of TT-tensors (add_many, outer_many, cross_act)
        if isinstance(v, (list, tuple)) and d and len(v) == d and all(isinstance(x, np.ndarray) for x in v):
            return [v[0]]                                      # one array per mode (P of mean / interface)
        if isinstance(v, np.ndarray) and v.dtype != object and v.ndim >= 3 and d and v.ndim == d:
            return np.array(v[(slice(None),) + (0,) * (v.ndim - 1)], order='C')      # dense tensor -> first fibre
        if isinstance(v, np.ndarray) or _numeric_nested(v):
            a = np.asarray(v)
            if a.dtype == object or not d:
                return v
            out = None
            if a.ndim == 1 and a.shape[0] == d:
                out = a[:1]
            elif a.ndim == 1 and a.shape[0] == d + 1 and k == 'r':
                out = a[[0, -1]]
            elif a.ndim == 2 and a.shape[1] == d and k in SINGLE_PARAMS | {'I_zero'}:
                out = a[:, :1]
            if out is None:
                return v
            out = np.array(out, order='C')
            return out if isinstance(v, np.ndarray) else out.tolist()
        return v

    def m1(k, v):
        if _is_tt(v) or m is None:
            return v
        if isinstance(v, np.ndarray) or _numeric_nested(v):
            a = np.asarray(v)
            if a.dtype != object and a.ndim in (1, 2) and a.shape[0] == m and (a.ndim == 1 or k in SINGLE_PARAMS):
                out = np.array(a[:1], order='C')
                return out if isinstance(v, np.ndarray) else out.tolist()
        return v
    changed = False
    for k in list(ba.arguments):
        par = sig.parameters[k]
        if par.kind in (par.VAR_POSITIONAL, par.VAR_KEYWORD):
            continue
        nv = (d1 if mode[0] == 'd1' else m1)(k, ba.arguments[k])
        if nv is not ba.arguments[k]:
            changed = True
            signature.append((k, mode[0]))
        ba.arguments[k] = nv
    if not changed:
        return None
    return list(ba.args), dict(ba.kwargs), tuple(signature)


def _reflag(tn, name, args, kw, mode):
    f = getattr(tn, name)
    try:
        sig = inspect.signature(f)
        ba = sig.bind(*args, **kw)
        ba.apply_defaults()
    except Exception:
        return None
    signature = []
    for k, v in list(ba.arguments.items()):
        if isinstance(v, (bool, np.bool_)) and not k.startswith('_'):
            if mode[1] == 'int':
                nv = int(v)
            elif mode[1] == 'np':
                nv = np.bool_(v)
            else:
                if v:
                    continue
                nv = None
            ba.arguments[k] = nv
            signature.append((k, 'flags', mode[1]))
    if not signature:
        return None
    return list(ba.args), dict(ba.kwargs), tuple(signature)


MERGE_PER_CASE = 2


def merge_partners(tn, name, cases, ci):
    """indices of other recipes of the function that supply optional arguments this recipe leaves out (same required
    arguments in number)"""
    try:
        sig = inspect.signature(getattr(tn, name))
        ba = sig.bind(*cases[ci][1], **cases[ci][2]).arguments
    except Exception:
        return []
    out, seen = [], set()
    for bi, (lb, ab, kb) in enumerate(cases):
        if bi == ci:
            continue
        try:
            bb = sig.bind(*ab, **kb).arguments
        except Exception:
            continue
        extra = tuple(sorted(k for k, v in bb.items() if v is not None and sig.parameters[k].default is not inspect._empty
                             and ba.get(k) is None and not isinstance(v, (bool, str))))
        if extra and extra not in seen:
            seen.add(extra)
            out.append(bi)
        if len(out) >= MERGE_PER_CASE:
            break
    return out


def merged(tn, name, case_a, case_b):
    sig = inspect.signature(getattr(tn, name))
    ba = sig.bind(*case_a[1], **case_a[2])
    bb = sig.bind(*case_b[1], **case_b[2]).arguments
    added = []
    for k, v in bb.items():
        if v is not None and sig.parameters[k].default is not inspect._empty and ba.arguments.get(k) is None \
                and not isinstance(v, (bool, str)):
            ba.arguments[k] = v
            added.append(k)
    return list(ba.args), dict(ba.kwargs), added


def _renum(tn, g, name, args, kw, mode):
    f = getattr(tn, name)
    try:
        sig = inspect.signature(f)
        ba = sig.bind(*args, **kw)
    except Exception:
        return None
    ex = g.pkg.exports.get(name)
    info = g.pkg.funcs.get(ex[1]) if ex else None
    doct = info.doctypes if info else {}

    def conv(v):
        if mode[1] == 'npscalar':
            return np.int64(v) if isinstance(v, (int, np.integer)) else np.float64(v)
        return np.array(v)
    signature = []
    for k, v in list(ba.arguments.items()):
        par = sig.parameters[k]
        if par.kind in (par.VAR_POSITIONAL, par.VAR_KEYWORD):
            continue
        accepts = (not doct) or (k in doct and re.search(r'int|float', doct[k][0]) and re.search(r'list|ndarray', doct[k][0]))
        if _is_num(v) and accepts:
            ba.arguments[k] = conv(v)
            signature.append((k, 'num', mode[1]))
        elif isinstance(v, list) and any(_is_num(x) for x in v) and any(_is_tt(x) for x in v):
            ba.arguments[k] = [conv(x) if _is_num(x) else x for x in v]
            signature.append((k, 'num', mode[1]))
    if not signature:
        return None
    return list(ba.args), dict(ba.kwargs), tuple(signature)


def derive(tn, g, name, args, kw, mode):
    """(args', kw', signature) of the derived call, or None when the function signature does not bind"""
    if mode[0] == 'num':
        return _renum(tn, g, name, args, kw, mode)
    if mode[0] in ('d1', 'm1'):
        return _shrink(tn, name, args, kw, mode)
    if mode[0] == 'flags':
        return _reflag(tn, name, args, kw, mode)
    dt, arrayify, single = mode
    f = getattr(tn, name)
    try:
        sig = inspect.signature(f)
        ba = sig.bind(*args, **kw)
    except Exception:
        return None
    bound = dict(ba.arguments)
    d = _dimension(bound)
    ex = g.pkg.exports.get(name)
    info = g.pkg.funcs.get(ex[1]) if ex else None
    doct = info.doctypes if info else {}
    signature = []

    def tr(k, v, top=True):
        if isinstance(v, np.ndarray) and v.dtype != object and v.dtype.kind in 'iuf':
            if v.ndim >= 3:
                return v
            a = _exact(v, dt)
            if single and top and k in SINGLE_PARAMS and a.ndim == 2:
                a = np.array(a[0], order='C')
            return a
        if _numeric_nested(v):
            return tr(k, np.array(v), top)
        if isinstance(v, (list, tuple)) and v and all(isinstance(x, np.ndarray) and x.ndim <= 2 for x in v) and top:
            return type(v)(tr(k, x, False) for x in v) if isinstance(v, tuple) else [tr(k, x, False) for x in v]
        if top and arrayify and _is_num(v) and d and k in doct and re.search(r'list|ndarray', doct[k][0]):
            return _exact(np.full(d, v), dt)
        return v
    for k in list(ba.arguments):
        par = sig.parameters[k]
        if par.kind in (par.VAR_POSITIONAL, par.VAR_KEYWORD):
            continue
        nv = tr(k, ba.arguments[k])
        ba.arguments[k] = nv
        if isinstance(nv, np.ndarray) and nv.ndim <= 2:
            signature.append((k, str(nv.dtype), nv.shape, nv.flags['C_CONTIGUOUS']))
        elif isinstance(nv, (list, tuple)) and nv and all(isinstance(x, np.ndarray) and x.ndim <= 2 for x in nv):
            signature.append((k, tuple(str(x.dtype) for x in nv)))
        elif _is_num(nv):
            signature.append((k, 'num'))
    return list(ba.args), dict(ba.kwargs), tuple(signature)


def _same_as_base(sig, args, kw, tn, name):
    """the derived call passes exactly the kinds of values the base call passes (nothing to add)"""
    ba = inspect.signature(getattr(tn, name)).bind(*args, **kw).arguments
    for x in sig:
        v = ba.get(x[0])
        if len(x) >= 2 and x[1] in ('d1', 'm1', 'flags', 'num'):
            return False
        if len(x) == 4:
            if not (isinstance(v, np.ndarray) and str(v.dtype) == x[1] and v.shape == x[2] and v.flags['C_CONTIGUOUS']):
                return False
        elif x[1:] == ('num',):
            if not _is_num(v):
                return False
        else:
            if not (isinstance(v, (list, tuple)) and all(isinstance(y, np.ndarray) for y in v)
                    and tuple(str(y.dtype) for y in v) == x[1] and all(y.flags['C_CONTIGUOUS'] for y in v)):
                return False
    return True


def mode_label(mode):
    if mode[0] == 'd1':
        return 'reduced to one dimension (d = 1)'
    if mode[0] == 'm1':
        return 'batch of a single sample (m = 1)'
    if mode[0] == 'num':
        return 'number operands as ' + {'npscalar': 'NumPy scalars (np.float64 / np.int64)', '0d': '0-d ndarrays'}[mode[1]]
    if mode[0] == 'flags':
        return 'boolean flags as ' + {'int': '0 / 1', 'np': 'np.bool_', 'none': 'None (for False)'}[mode[1]]
    dt, arrayify, single = mode
    return ('exact ' + ('int64' if dt == 'i' else 'float64') + ' C arrays' + (', scalar options as arrays' if arrayify else '')
            + (', single point' if single else ''))


def conversion_sites(g):
    """(exported function, parameter) pairs the source passes directly through an identity-capable conversion"""
    conv = {'asanyarray', 'asarray', 'ascontiguousarray', 'asfortranarray', 'atleast_1d', 'atleast_2d'}
    out = {}
    for nm, (what, q) in g.pkg.exports.items():
        if what != 'func' or nm.startswith('_'):
            continue
        info = g.pkg.funcs[q]
        for n in ast.walk(info.node):
            if not isinstance(n, ast.Call):
                continue
            fn = n.func.attr if isinstance(n.func, ast.Attribute) else getattr(n.func, 'id', None)
            if fn in conv and n.args and isinstance(n.args[0], ast.Name) and n.args[0].id in info.params:
                dtk = [ast.unparse(k.value) for k in n.keywords if k.arg == 'dtype']
                out[(nm, n.args[0].id)] = {'int': 'int64', 'float': 'float64'}.get(dtk[0] if dtk else None)
            if fn == 'grid_prep_opts':
                for pos, t in ((0, 'float64'), (1, 'float64'), (2, 'int64')):
                    if pos < len(n.args) and isinstance(n.args[pos], ast.Name) and n.args[pos].id in info.params:
                        out[(nm, n.args[pos].id)] = t
            if fn == 'grid_prep_opt' and n.args and isinstance(n.args[0], ast.Name) and n.args[0].id in info.params:
                kd = ast.unparse(n.args[2]) if len(n.args) > 2 else 'float'
                out[(nm, n.args[0].id)] = {'int': 'int64', 'float': 'float64'}.get(kd)
    return out


LAYOUTS = [('C', False), ('F', False), ('S', False), ('C', True)]


def footprint(R, ctx, names=None, seeds=(1,), probes=True, derived=True):
    tn = C.import_teneva()
    g = gen()
    exported = sorted(nm for nm, (what, q) in g.pkg.exports.items())
    public = [nm for nm, (what, q) in sorted(g.pkg.exports.items()) if what == 'func' and not nm.startswith('_')]
    fails, ncalls, recipe_errors, covered = [], 0, [], set()
    shr = {}                # ('d1' | 'm1', function) -> outcomes of the shrunk calls
    exact_seen = set()      # (function, parameter, dtype) called with a C-contiguous ndarray of that dtype
    dist = dict(layouts={}, functions=0)
    skipped = {}
    for seed in seeds:
        for layout, aslist in LAYOUTS:
            E = Env(tn, layout, aslist, seed)
            with contextlib.redirect_stdout(io.StringIO()), warnings.catch_warnings():
                warnings.simplefilter('ignore')
                rec = recipes(tn, E)
            for name in sorted(rec):
                if names and name not in names:
                    continue
                for ci in range(len(rec[name])):
                    # rebuild the inputs for every case: an earlier (faulty) call and the write-after-return probes
                    # must not spoil later ones
                    label, args, kw = clone_case(rec[name][ci])       # the master copy in `rec` is never handed out
                    viol, inf = run_case(tn, g, name, label, args, kw, probes, tolerant=(seed != 1))
                    ncalls += 1
                    if inf.get('skipped'):
                        skipped[name] = inf['skipped']
                    if inf.get('raised'):
                        dist['raised'] = dist.get('raised', 0) + 1
                    else:
                        covered.add(name)
                        try:
                            for k, v in inspect.signature(getattr(tn, name)).bind(*args, **kw).arguments.items():
                                if isinstance(v, np.ndarray) and v.dtype != object and v.flags['C_CONTIGUOUS']:
                                    exact_seen.add((name, k, str(v.dtype)))
                        except TypeError:
                            pass
                    key = f'{layout}{"/lists" if aslist else ""}'
                    dist['layouts'][key] = dist['layouts'].get(key, 0) + 1
                    if R is not None:
                        R.add_distinct((name, label, layout, aslist, seed))
                    for v in viol:
                        v['input'] = dict(function=name, case=label, layout=layout, index_args_as_lists=aslist, seed=seed)
                        (recipe_errors if v.get('recipe_error') else fails).append(v)
                    if layout != 'C' or aslist or not derived or (seed != seeds[0] and not ctx.get('thorough')):
                        continue
                    # identity-conversion family (see above)
                    dv0 = derive(tn, g, name, args, kw, DERIVED_MODES[0])
                    if dv0 is None:
                        continue
                    seen_sig, todo = set(), []
                    label, args, kw = clone_case(rec[name][ci])
                    for mode in DERIVED_MODES:      # which modes add something (shapes / dtypes only; nothing is called)
                        dv = derive(tn, g, name, args, kw, mode)
                        if dv is None or dv[2] in seen_sig:
                            continue
                        seen_sig.add(dv[2])
                        if not _same_as_base(dv[2], args, kw, tn, name):
                            todo.append(mode)
                    for bi in merge_partners(tn, name, rec[name], ci):
                        todo.append(('merge', bi, False))
                    for mode in todo:
                        cases_now = {ci: clone_case(rec[name][ci])}
                        if mode[0] == 'merge':
                            cases_now[mode[1]] = clone_case(rec[name][mode[1]])
                        label, args, kw = cases_now[ci]
                        if mode[0] == 'merge':
                            try:
                                a2, k2, added = merged(tn, name, cases_now[ci], cases_now[mode[1]])
                            except Exception:
                                continue
                            dv = (a2, k2, tuple((k, 'merge') for k in added))
                            dist['merged'] = dist.get('merged', 0) + 1
                        else:
                            dv = derive(tn, g, name, args, kw, mode)
                        dlabel = f'{label} | {mode_label(mode)}' if mode[0] != 'merge' else \
                            f'{label} | plus {", ".join(x[0] for x in dv[2])} of [{cases_now[mode[1]][0]}]'
                        viol, inf = run_case(tn, g, name, dlabel, dv[0], dv[1], probes, tolerant=True)
                        ncalls += 1
                        dist['derived'] = dist.get('derived', 0) + 1
                        if mode[0] in ('d1', 'm1'):
                            shr.setdefault((mode[0], name), []).append(inf.get('raised') or 'ok')
                        if inf.get('raised'):
                            dist['derived_raised'] = dist.get('derived_raised', 0) + 1
                        else:
                            for x in dv[2]:
                                if len(x) == 4 and x[3]:
                                    exact_seen.add((name, x[0], x[1]))
                        if R is not None:
                            R.add_distinct((name, dlabel, layout, seed))
                        for v in viol:
                            v['input'] = dict(function=name, case=label, derived=list(mode), layout=layout,
                                              index_args_as_lists=aslist, seed=seed)
                            (recipe_errors if v.get('recipe_error') else fails).append(v)
    dist['functions'] = len(covered)
    for tag in ('d1', 'm1'):
        dist[tag + '_functions_run'] = sorted(nm for (t, nm), v in shr.items() if t == tag and 'ok' in v)
        dist[tag + '_functions_every_call_raised'] = sorted(f'{nm}: {sorted(set(v))}' for (t, nm), v in shr.items()
                                                            if t == tag and 'ok' not in v)
    sites = conversion_sites(g)
    dist['conversion_sites'] = len(sites)
    dist['conversion_sites_not_reached_with_an_exact_array'] = sorted(
        f'{nm}.{p}' for (nm, p), t in sites.items() if (names is None or nm in names)
        and not any(a == nm and b == p and (t is None or c == t) for a, b, c in exact_seen))
    uncovered = [nm for nm in public if nm not in covered]
    return fails, recipe_errors, ncalls, dist, uncovered, skipped


# ----------------------------------------------------------------------------------------------------------------
# direct validation of the trusted classification tables
# ----------------------------------------------------------------------------------------------------------------
def _resolve(dotted):
    """callable behind a dotted name as it appears in the teneva source"""
    import importlib
    special = {'lu': 'scipy.linalg.lu', 'solve_triangular': 'scipy.linalg.solve_triangular', 'dct': 'scipy.fft.dct',
               'dst': 'scipy.fft.dst', 'contract': 'opt_einsum.contract'}
    d = special.get(dotted, dotted)
    parts = d.split('.')
    parts[0] = {'np': 'numpy', 'sp': 'scipy'}.get(parts[0], parts[0])
    for k in range(len(parts) - 1, 0, -1):
        try:
            obj = importlib.import_module('.'.join(parts[:k]))
        except Exception:
            continue
        try:
            for q in parts[k:]:
                obj = getattr(obj, q)
            return obj
        except AttributeError:
            continue
    return None


def _objs_in(x, out, seen, depth=0):
    """every ndarray reachable from x: containers, object arrays, instance attributes (polynomials, generators)"""
    if id(x) in seen or depth > 4:
        return
    seen.add(id(x))
    if isinstance(x, np.ndarray):
        out.append(x)
        if x.dtype == object:
            for y in x.ravel():
                _objs_in(y, out, seen, depth + 1)
    elif isinstance(x, (list, tuple, set)):
        for y in x:
            _objs_in(y, out, seen, depth + 1)
    elif isinstance(x, dict):
        for y in x.values():
            _objs_in(y, out, seen, depth + 1)
    elif hasattr(x, '__dict__') and not callable(x) and not isinstance(x, type):
        for y in vars(x).values():
            _objs_in(y, out, seen, depth + 1)


def _probe_call(fn, cands):
    """call fn on the first candidate argument tuples it accepts (up to 4); returns list of (label, problem or None)"""
    done = []
    for mk in cands:
        args = mk()
        ins = []
        _objs_in(args, ins, set())
        before = [(x, x.tobytes(), x.shape, x.strides) for x in ins if x.dtype != object]
        try:
            with warnings.catch_warnings(), np.errstate(all='ignore'), contextlib.redirect_stdout(io.StringIO()):
                warnings.simplefilter('ignore')
                res = fn(*args)
        except Exception:
            continue
        outs = []
        _objs_in(res, outs, set())
        prob = None
        for x, b, sh, st in before:
            if x.tobytes() != b or x.shape != sh or x.strides != st:
                prob = 'an operand was modified'
        for r in outs:
            for x in ins:
                if r.dtype != object and x.dtype != object and r.size and x.size and np.shares_memory(r, x):
                    prob = 'the result shares memory with an operand'
        done.append((repr([getattr(a, 'shape', a) for a in args])[:80], prob))
        if len(done) >= 4:
            break
    return done


def table_probes(R, ctx):
    """Every table entry of the translator that classifies a library call as FRESH (new memory, operands untouched) or as
    yielding a value without identity, and that the translation of the current source relied on, is called directly on C /
    Fortran / strided / size-1 operands: no result array may share memory with an operand, no operand may change.  View /
    in-place entries are conservative and need no probe.  Entries no generic call pattern fits are listed as unprobed."""
    g = gen()
    tn = C.import_teneva()
    bad, unprobed, nprobe = [], [], 0
    spd = np.array([[4., 1., 0.5], [1., 3., 0.25], [0.5, 0.25, 2.]])
    for kind, name in sorted(g.used):
        ok_any = False
        for layout in ('C', 'F', 'S', '1'):
            E = Env(tn, layout if layout != '1' else 'C', False, 1)
            if layout == '1':
                def A(): return E.arr(np.array([[2.]]))
                def V(): return E.arr(np.array([1.5]))
                def IV(): return E.arr(np.array([0]))
            else:
                def A(): return E.arr(spd)
                def V(): return E.arr(np.array([0.25, 0.5, 0.75]))
                def IV(): return E.arr(np.array([0, 1, 2]))
            sh = (1, 1) if layout == '1' else (3, 3)
            cands = [lambda: (A(),), lambda: (A(), A()), lambda: (V(),), lambda: (V(), V()), lambda: (A(), V()),
                     lambda: (A(), 2), lambda: (V(), 2), lambda: (A(), 0), lambda: (A(), 1), lambda: (IV(),),
                     lambda: (IV(), sh[0] * sh[1]), lambda: ((IV(), IV()), sh), lambda: (IV(), sh),
                     lambda: (A(), 0., 1.), lambda: (V(), V(), V()), lambda: ((A(), A()),), lambda: ([A(), A()],),
                     lambda: ('ij,jk->ik', A(), A()), lambda: (A() > 1.,), lambda: (A(), (1, 0)), lambda: (A(), A(), 1),
                     lambda: (3,), lambda: (sh,), lambda: (0., 1., 3)]
            if kind in ('np-fresh', 'np-scalar'):
                fn = _resolve(name)
                if fn is None:
                    continue
                if isinstance(fn, np.ufunc):
                    # a further positional array would be the `out` operand (the translator treats out= as an in-place write)
                    cands = [lambda: (A(),) * fn.nin, lambda: (V(),) * fn.nin, lambda: (A(), 2)[:fn.nin]]
                elif (getattr(fn, '__module__', '') or '').startswith('scipy.linalg'):
                    # further positional parameters are the overwrite_a / overwrite_b switches (handled by the translator)
                    cands = [lambda: (A(),), lambda: (A(), A()), lambda: (A(), V())]
                elif name.split('.')[-1] in ('einsum', 'contract'):
                    # with a single operand the translator already treats the result as a possible view
                    cands = [lambda: ('ij,jk->ik', A(), A()), lambda: ('ij,j->i', A(), V()), lambda: ('ij,ij->', A(), A())]
                res = _probe_call(fn, cands)
            else:
                res = []
                rng = np.random.default_rng(0)
                recvs = [A, V, lambda: rng, lambda: np.polynomial.chebyshev.Chebyshev(V()),
                         lambda: np.polynomial.polynomial.Polynomial(V())]
                for mk in recvs:
                    r0 = mk()
                    if not hasattr(r0, name):
                        continue
                    mcands = [lambda: (mk(),), lambda: (mk(), 0), lambda: (mk(), A()), lambda: (mk(), V()), lambda: (mk(), 3),
                              lambda: (mk(), np.polynomial.polynomial.Polynomial)]
                    res += _probe_call(lambda recv, *a: getattr(recv, name)(*a), mcands)
            for label, prob in res:
                nprobe += 1
                ok_any = True
                if R is not None:
                    R.add_distinct(('table', kind, name, layout, label))
                if prob:
                    bad.append(dict(what=f'translator table: {name} is classified {kind} but {prob} (operands {label}, layout {layout})',
                                    input=dict(table_entry=name, kind=kind, layout=layout, operands=label)))
        if not ok_any:
            unprobed.append(name)
    if R is not None:
        R.corr.append(dict(name='classification tables: fresh / no-identity entries the translation relied on, called directly',
                           cases=nprobe, mismatches=len(bad),
                           comparison='np.shares_memory of every result array with every operand array, operand bytes / shape '
                                      '/ strides before and after; C, Fortran, strided and size-1 operands',
                           distribution=dict(entries_used=len(g.used), entries_probed=len(g.used) - len(unprobed),
                                             unprobed=unprobed),
                           first_mismatches=[b['what'] for b in bad[:5]]))
    return bad


def correspondence(R, ctx):
    g = gen()
    rep = g.report()
    static_bad = [r for r in rep if r['bad_writes'] or r['bad_escapes'] or r['unknown']]
    R.notes.append(dict(variants=len(g.order), api_entries=len(g.api), exported_functions_checked=len({n for n, _ in g.api}),
                        underscore_helpers_as_callees_only=g.helpers, classes_as_callees_only=g.classes_exported,
                        translator_notes=g.notes[:20], dynamic_only=[],
                        flagged_by_skeleton=[dict(name=r['name'], flags=r['flags'], writes=r['bad_writes'],
                                                  escapes=r['bad_escapes'], unknown=r['unknown'][:3]) for r in static_bad][:20],
                        documented_exceptions_seen=[dict(name=r['name'], flags=r['flags'], writes=r['writes'], escapes=r['escapes'])
                                                    for r in rep if r['writes'] or r['escapes']]))
    # seed 1: every recipe is known to run (a recipe that raises there is a harness error); the other seeds derive from
    # VERIF_SEED (integer cores may then make a LAPACK routine raise: tolerated, the arguments are still compared)
    base = 2 + ctx['seed'] % 100003
    seeds = (1, base, base + 1, base + 2) if ctx['thorough'] else (1, base)
    fails, rerr, ncalls, dist, uncovered, skipped = footprint(R, ctx, seeds=seeds)
    if uncovered:
        rerr.append(dict(what=f'exported functions without a successful call: {uncovered}', recipe_error=True))
    dist['uncovered_exported_functions'] = uncovered
    dist['skipped'] = skipped
    dist['recipe_errors'] = [e['what'] for e in rerr][:20]
    R.corr.append(dict(name='dynamic footprint within the skeleton prediction', cases=ncalls, mismatches=len(fails) + len(rerr),
                       comparison='byte-level snapshots of every argument before/after, np.shares_memory and container '
                                  'identity of every result against every argument, write-after-return probes; observed '
                                  'writes / aliases must be predicted by the skeleton variant of the call',
                       distribution=dist, first_mismatches=[f['what'] for f in (fails + rerr)[:5]]))
    if fails:
        R.samples.append(dict(stream='footprint', violation=fails[0]['what'], input=fails[0]['input']))
    else:
        R.samples.append(dict(stream='footprint', input=dict(function='truncate', layout='S'), observed='no write, no alias'))
    tb = table_probes(R, ctx)
    _GEN['fails'] = fails
    _GEN['table_bad'] = tb
    _GEN['static_bad'] = static_bad
    return fails


def search(R, ctx, deep, hints):
    """same harness, more seeds; failures found by the correspondence are re-run first.  A static flag without a dynamic
    witness is reported by ./check as no-failing-input-found (the skeleton diagnosis is in the notes)."""
    fails = list(_GEN.get('fails') or hints or [])
    n = 0
    if deep and not fails:
        names = None
        sb = _GEN.get('static_bad') or []
        if sb and not ctx['thorough']:
            names = {r['name'] for r in sb}      # look where the skeleton says something is wrong
        b2 = 11 + ctx['seed'] % 99991
        f2, _, n, _, _, _ = footprint(None, ctx, names=names, seeds=tuple(b2 + k for k in range(4 if ctx['thorough'] else 2)))
        fails += f2
    out = []
    seen = set()
    for f in fails:
        k = (f['input']['function'], f.get('param'), f.get('kind'))
        if k in seen:
            continue
        seen.add(k)
        out.append(dict(what=f['what'], input=f['input'], got=f.get('kind'), expected='no write / no alias beyond the '
                        'documented exceptions'))
    R.search.append(dict(name='dynamic footprint, extra seeds', evaluations=n, failures=len(out), deep=deep))
    return out[:10]


def replay(data):
    p = data['payload']
    inp = p.get('input') or {}
    print(data['what'])
    if not inp.get('function'):
        g = gen()
        bad = [r for r in g.report() if r['bad_writes'] or r['bad_escapes'] or r['unknown']]
        for r in bad[:10]:
            print('skeleton flags', r['name'], r['flags'], 'writes', r['bad_writes'], 'escapes', r['bad_escapes'], r['unknown'][:2])
        return 1 if bad else 0
    tn = C.import_teneva()
    g = gen()
    E = Env(tn, inp['layout'], inp['index_args_as_lists'], inp['seed'])
    for label, args, kw in recipes(tn, E)[inp['function']]:
        if label == inp['case']:
            if inp.get('derived') and inp['derived'][0] == 'merge':
                cs = recipes(tn, E)[inp['function']]
                a2, k2, added = merged(tn, inp['function'], (label, args, kw), cs[inp['derived'][1]])
                label, args, kw = f'{label} | plus {", ".join(added)} of [{cs[inp["derived"][1]][0]}]', a2, k2
                viol, _ = run_case(tn, g, inp['function'], label, args, kw, tolerant=True)
                for v in viol:
                    print('replayed:', v['what'])
                return 1 if viol else 0
            if inp.get('derived'):
                dv = derive(tn, g, inp['function'], args, kw, tuple(inp['derived']))
                label, args, kw = f'{label} | {mode_label(tuple(inp["derived"]))}', dv[0], dv[1]
            viol, _ = run_case(tn, g, inp['function'], label, args, kw, tolerant=bool(inp.get('derived')))
            for v in viol:
                print('replayed:', v['what'])
            return 1 if viol else 0
    return 1
