"""C09 — no mutation of arguments, no aliasing of results.

Static side: harness/skeleton_c09.py regenerates coq/Gen/SkelC09.v (skeleton + certificate of every function variant
reachable from the exported API) from C.REPO before every build; Properties/C09.v re-checks it (`api_ok ... = true` by
vm_compute) and states the soundness of the checker (Proofs/HeapP.v).
Dynamic side (this file): the observed footprint of EVERY exported function, over every documented flag combination,
C / F / strided layouts, list vs array index arguments and callbacks that return their argument, must lie within what
the skeleton predicts; plus write-after-return probes.  It validates the translator's fresh / view tables and is the
failing-input search."""
import ast
import inspect
import io
import itertools
import os
import sys
import contextlib
import warnings
import numpy as np
from harness import common as C
from harness import skeleton_c09 as SK

THEOREMS = 'Properties/C09.v'
TIME_LIMIT = {'quick': 1200, 'thorough': 5400}
CLAIM = dict(
    text='For every exported function of teneva (every documented flag combination; specialised variants are '
         'regenerated from the source on every run) a verified checker validates an alias-analysis certificate '
         '(C09_api_clean, vm_compute); C09_check_sound proves in Coq, for every heap, every memory layout (identity = '
         'buffer), every execution of the relational semantics including calls to any depth, that a checked function '
         'changes no object reachable from an argument and returns nothing reachable from an argument, except as its '
         'summary says; the summaries of the exported functions are within the exception table of Model/Heap.v '
         '(orthogonalize_left/right inplace=True, info / cache, grid_prep_opt(s), core_stab).',
    note='Trusted: the translator harness/skeleton_c09.py (classification of NumPy / SciPy / builtin calls as fresh / '
         'view / in-place, rules 1-7 of its docstring, standing precondition d >= 2 for `range(1, d)` / `Y[1:]` loops); '
         'it is validated on every run by the dynamic footprint of all exported functions (C / F / strided layouts, '
         'lists vs arrays, identity callbacks). Result objects that a function also stores into the info / cache '
         'dictionaries are outside the theorem and covered dynamically only. Exported classes (ANOVA, ANOVA_func) and '
         'underscore helpers are analysed as callees only.',
    technique='Coq: verified certificate checker over a regenerated effect skeleton (translator route) + dynamic '
              'footprint harness')
TRUSTED = ['Coq 8.16.1 kernel + vm_compute (closed boolean check of the regenerated skeletons)',
           'translator harness/skeleton_c09.py: Python ast -> IR of Model/Heap.v; its fresh / view / in-place tables '
           'for NumPy, SciPy, builtins and rules 1-7 (validated by the dynamic footprint on every run)',
           'heap model of Model/Heap.v: object identity = memory buffer (views, slices, reshapes are the same object); '
           'lists / dicts / object arrays / instances / closures are objects holding references',
           'user callbacks write none of their arguments (rule 6)',
           'mutable default arguments (info={}, cache={}) are treated as the argument they stand for']
ASSUMPTIONS = ['d >= 2 (loops over range(1, d) and Y[1:] run at least once)',
               'documented argument combinations only: undocumented parameters at their defaults (rule 2)']

GEN_FILE = os.path.join(C.COQ, 'Gen', 'SkelC09.v')
_GEN = {}


def pregen(R, ctx):
    """regenerate Gen/SkelC09.v from the current source tree"""
    g = SK.generate(C.REPO, GEN_FILE)
    _GEN['g'] = g
    return g


def gen():
    return _GEN.get('g') or pregen(None, None)


# ----------------------------------------------------------------------------------------------------------------
# snapshots
# ----------------------------------------------------------------------------------------------------------------
def snap(x, depth=0):
    """byte-level snapshot: arrays -> bytes + shape + dtype + strides; containers -> identity, length, elements"""
    if isinstance(x, np.ndarray):
        if x.dtype == object:
            return ('objarr', id(x), x.shape, [snap(y, depth + 1) for y in x.ravel(order='K')])
        return ('arr', id(x), x.shape, str(x.dtype), x.strides, np.array(x, copy=True, order='K').tobytes(order='A'))
    if isinstance(x, (list, tuple)):
        return (type(x).__name__, id(x), len(x), [(id(y), snap(y, depth + 1)) for y in x])
    if isinstance(x, dict):
        return ('dict', id(x), len(x), [(repr(k), id(v), snap(v, depth + 1)) for k, v in x.items()])
    if isinstance(x, (int, float, complex, str, bool, type(None), np.generic)):
        return ('val', repr(x))
    return ('obj', id(x))


def snap_diff(a, b, path=''):
    """first difference between two snapshots, ignoring nothing"""
    if a == b:
        return None
    if a[0] != b[0]:
        return path + ': kind changed'
    if a[0] == 'arr':
        for k, nm in ((1, 'identity'), (2, 'shape'), (3, 'dtype'), (4, 'strides'), (5, 'contents')):
            if a[k] != b[k]:
                return f'{path}: array {nm} changed'
    if a[0] in ('list', 'tuple'):
        if a[2] != b[2]:
            return f'{path}: length {a[2]} -> {b[2]}'
        for i, (u, v) in enumerate(zip(a[3], b[3])):
            if u[0] != v[0]:
                return f'{path}[{i}]: element replaced'
            d = snap_diff(u[1], v[1], f'{path}[{i}]')
            if d:
                return d
    if a[0] == 'dict':
        if a[2] != b[2]:
            return f'{path}: dict size {a[2]} -> {b[2]}'
        for u, v in zip(a[3], b[3]):
            if u[:2] != v[:2]:
                return f'{path}[{u[0]}]: entry replaced'
            d = snap_diff(u[2], v[2], f'{path}[{u[0]}]')
            if d:
                return d
    if a[0] == 'objarr':
        for i, (u, v) in enumerate(zip(a[3], b[3])):
            d = snap_diff(u, v, f'{path}.flat[{i}]')
            if d:
                return d
    return path + ': changed'


def arrays_in(x, out=None, conts=None, seen=None):
    """all ndarrays and all container objects reachable from x (lists, tuples, dicts, object arrays, closures)"""
    out = [] if out is None else out
    conts = [] if conts is None else conts
    seen = set() if seen is None else seen
    if id(x) in seen:
        return out, conts
    seen.add(id(x))
    if isinstance(x, np.ndarray):
        out.append(x)
        if x.dtype == object:
            conts.append(x)
            for y in x.ravel(order='K'):
                arrays_in(y, out, conts, seen)
    elif isinstance(x, (list, tuple)):
        if isinstance(x, list):
            conts.append(x)
        for y in x:
            arrays_in(y, out, conts, seen)
    elif isinstance(x, dict):
        conts.append(x)
        for y in x.values():
            arrays_in(y, out, conts, seen)
    elif callable(x) and getattr(x, '__closure__', None):
        for c in x.__closure__:
            try:
                arrays_in(c.cell_contents, out, conts, seen)
            except ValueError:
                pass
    return out, conts


# ----------------------------------------------------------------------------------------------------------------
# inputs
# ----------------------------------------------------------------------------------------------------------------
class Env:
    """input factory for one layout"""
    def __init__(self, tn, layout, aslist, seed):
        self.tn, self.layout, self.aslist, self.seed = tn, layout, aslist, seed
        self.rs = np.random.RandomState(seed)

    def arr(self, a, dtype=None):
        a = np.array(a, dtype=dtype)
        if self.layout == 'C':
            return np.ascontiguousarray(a)
        if self.layout == 'F':
            return np.asfortranarray(a) if a.ndim > 1 else a.copy()
        if a.ndim == 0:
            return a
        big = np.empty(a.shape + (2,), dtype=a.dtype)       # strided, non-contiguous view
        big[..., 0] = a
        big[..., 1] = -7
        v = big[..., 0]
        assert not v.flags['C_CONTIGUOUS'] or v.size <= 1
        return v

    def idx(self, a):
        """index argument: nested list or int array"""
        a = np.array(a, dtype=int)
        return a.tolist() if self.aslist else self.arr(a)

    def vec(self, a):
        a = np.array(a, dtype=float)
        return a.tolist() if self.aslist else self.arr(a)

    def tt(self, n=(3, 4, 3), r=2, seed=None, pos=False):
        n = list(n)
        d = len(n)
        rs = np.random.RandomState(self.seed * 7 + (seed or 0))
        rk = [1] + [r] * (d - 1) + [1]
        Y = []
        for k in range(d):
            G = rs.randint(-3, 4, size=(rk[k], n[k], rk[k + 1])).astype(float)
            if pos:
                G = np.abs(G) + 1.
            G[0, 0, 0] += 0.5
            Y.append(self.arr(G))
        return Y

    def full(self, n=(3, 4, 3), seed=0):
        rs = np.random.RandomState(self.seed * 11 + seed)
        return self.arr(rs.randint(-4, 5, size=tuple(n)).astype(float))


def ident(x):
    return x


def recipes(tn, E):
    """name -> list of (label, args, kwargs).  Every exported function of teneva/__init__.py has an entry here
    (uncovered names are reported in the evidence)."""
    n3 = [3, 4, 3]
    Y, Y2 = E.tt(n3, 2, 1), E.tt(n3, 2, 2)
    Yp = E.tt(n3, 2, 3, pos=True)
    Yq = E.tt([4, 4], 2, 4)            # mode size a power of two
    Yqq = E.tt([2, 2, 2, 2], 2, 5)     # QTT with q = 2
    Ym = E.tt([4, 4, 4], 2, 6)         # QTT-matrix (mode size 4)
    I1 = E.idx([1, 2, 0])
    Ib = E.idx([[1, 2, 0], [0, 0, 1], [2, 3, 2], [1, 1, 1]])
    rs = np.random.RandomState(E.seed + 5)
    # training data for als / anova on a 3 x 4 x 3 tensor: every slice is covered
    Iall = np.array(list(itertools.product(range(3), range(4), range(3))), dtype=int)
    yall = np.array([np.sin(i[0] + 2. * i[1] - i[2]) for i in Iall])
    Xtr = rs.uniform(-1, 1, size=(40, 3))
    ytr = np.array([np.cos(x.sum()) for x in Xtr])
    R = {}

    def add(name, label, *args, **kw):
        R.setdefault(name, []).append((label, list(args), kw))
    add('add_many', 'tensors', [Y, Y2, E.tt(n3, 1, 7)])
    add('add_many', 'with number', [Y, 2.5, Y2], e=1e-8, r=3, trunc_freq=1)
    add('outer_many', 'three', [Y, Y2, Yq])
    add('copy', 'tt', Y)
    add('copy', 'array', E.full())
    add('copy', 'number', 3.5)
    add('copy', 'none', None)
    for ltr in (False, True):
        add('interface', f'plain ltr={ltr}', Y, ltr=ltr)
        add('interface', f'P,i ltr={ltr}', Y, P=E.vec([0.1, 0.2, 0.3, 0.4]) if False else None, i=I1, norm='natural', ltr=ltr)
        add('interface', f'Plist ltr={ltr}', Y, P=[E.vec([.2, .3, .5]), E.vec([.1, .2, .3, .4]), E.vec([.5, .2, .3])],
            norm=None, ltr=ltr)
    add('get', 'one', Y, I1)
    add('get', 'batch', Y, Ib)
    add('get_and_grad', 'one', Y, I1)
    add('get_many', 'batch', Y, Ib)
    add('mean', 'plain', Y)
    add('mean', 'P', Y, P=[E.vec([.2, .3, .5]), E.vec([.1, .2, .3, .4]), E.vec([.5, .2, .3])])
    for us in (False, True):
        add('norm', f'use_stab={us}', Y, use_stab=us)
        add('mul_scalar', f'use_stab={us}', Y, Y2, use_stab=us)
        add('orthogonalize', f'k=1 use_stab={us}', Y, 1, use_stab=us)
        add('orthogonalize', f'k=None use_stab={us}', Y, use_stab=us)
    add('qtt_to_tt', 'q=2', Yqq, 2)
    add('sum', 'plain', Y)
    add('tt_to_qtt', 'n=4', Yq)
    add('accuracy', 'tt', Y, Y2)
    add('accuracy', 'arrays', E.full(), E.full(seed=1))
    for nm in ('add', 'mul', 'sub'):
        add(nm, 'tt tt', Y, Y2)
        add(nm, 'num tt', 2., Y2)
        add(nm, 'tt num', Y, 3.)
        add(nm, 'num num', 2., 3.)
    add('outer', 'tt tt', Y, Yq)
    for asw in (False, True):
        for ask in (False, True):
            for us in (False, True):
                kw = dict(nswp=2, info={}, allow_swap=asw, allow_skip_cores=ask, use_stab=us,
                          I_vld=E.arr(Iall[::3]), y_vld=E.arr(yall[::3]))
                if asw or us:
                    kw['r'] = 3
                add('als', f'swap={asw} skip={ask} stab={us}', E.idx(Iall), E.vec(yall), E.tt(n3, 2, 8), **kw)
    add('als', 'w, cb, lamb None', E.arr(Iall), E.arr(yall), E.tt(n3, 2, 8), nswp=2, info={}, w=E.arr(np.ones(len(yall))),
        cb=lambda Y, info, opts: None, lamb=None)
    add('als', 'rank-adaptive', E.arr(Iall), E.arr(yall), E.tt(n3, 2, 8), nswp=2, info={}, r=3, e_adap=1e-3)
    add('als_func', 'cheb', E.arr(Xtr), E.arr(ytr), E.tt([3, 3, 3], 2, 9), nswp=2, info={},
        X_vld=E.arr(Xtr[:7]), y_vld=E.arr(ytr[:7]))
    add('als_func', 'fh identity-like, n_max', E.arr(Xtr), E.arr(ytr), E.tt([3, 3, 3], 2, 9), nswp=2, info={},
        fh=lambda X: tn.func_basis(X, 3), lamb=None)
    add('als_func', 'n_max', E.arr(Xtr), E.arr(ytr), E.tt([2, 2, 2], 2, 9), nswp=2, info={}, n_max=4)
    add('anova', 'order 1', E.arr(Iall), E.arr(yall), 2, 1, seed=1)
    add('anova', 'order 2', E.idx(Iall), E.vec(yall), 2, 2, seed=1)
    add('anova_func', 'plain', E.arr(Xtr), E.arr(ytr), 3)
    add('anova_func', 'e None', E.arr(Xtr), E.arr(ytr), 3, e=None)
    G = E.arr(rs.randint(-3, 4, size=(2, 3, 2)).astype(float) + np.eye(2)[:, None, :] * 5)
    Rm = E.arr(np.array([[2., 1.], [0., 3.]]))
    for ltr in (True, False):
        add('core_dot', f'ltr={ltr}', G, Rm, ltr=ltr)
        add('core_dot_inv', f'ltr={ltr}', G, Rm, ltr=ltr)
        add('core_dot_maxvol', f'ltr={ltr}', G, Rm, ltr=ltr)
        add('core_qr_rand', f'ltr={ltr}', G, 1, ltr=ltr, seed=3)
    add('core_dot', 'number', G, 2.)
    add('core_qtt_to_tt', 'two cores', [E.arr(rs.rand(1, 2, 2)), E.arr(rs.rand(2, 2, 3))])
    add('core_qtt_to_tt', 'one core', [E.arr(rs.rand(2, 2, 3))])
    add('core_stab', 'scaled', E.arr(rs.rand(2, 3, 2) * 100))
    add('core_stab', 'below threshold', E.arr(np.zeros((2, 3, 2))), 1, 1e-100)
    add('core_tt_to_qtt', 'n=4', E.arr(rs.rand(2, 4, 3)))
    add('core_tt_to_qtt', 'n=2', E.arr(rs.rand(2, 2, 3)))

    def f3(I):
        return np.sin(I[:, 0] + 2. * I[:, 1] - I[:, 2])
    add('cross', 'm', f3, E.tt(n3, 2, 10), m=300, info={}, cache={})
    add('cross', 'nswp, vld, cb', f3, E.tt(n3, 2, 10), nswp=2, info={}, I_vld=E.arr(Iall[::3]), y_vld=E.arr(yall[::3]),
        cb=lambda Y, info, opts: None)
    add('cross', 'callback returns a column of its argument', lambda I: I[:, 0], E.tt(n3, 2, 10), nswp=2, info={},
        cache={}, e=1e-9)
    add('cross', 'e, dr', f3, E.tt(n3, 1, 10), e=1e-4, nswp=3, dr_min=0, dr_max=2, info={})
    add('cross_act', 'sum', lambda X: X[:, 0] + X[:, 1], [E.tt(n3, 2, 11), E.tt(n3, 2, 12)], E.tt(n3, 2, 13), nswp=2, seed=1)
    add('cross_act', 'identity callback, dr=0', lambda X: X[:, 0], [E.tt(n3, 2, 11)], E.tt(n3, 2, 13), nswp=1, dr=0, seed=1)
    add('accuracy_on_data', 'plain', Y, E.idx(Ib), E.vec([1., 2., 3., 4.]))
    add('accuracy_on_data', 'trunc', Y, E.idx(Ib), E.vec([1., 2., 3., 4.]), e_trunc=1e-3)
    add('accuracy_on_data', 'none', Y, None, None)
    add('cache_to_data', 'dict', {(0, 1, 2): 1.5, (1, 1, 1): 2.5})
    X1 = E.arr(rs.uniform(-1, 1, size=(5, 3)))
    add('func_basis', 'm=4', X1, 4)
    add('func_basis', 'm=1', X1, 1)
    for kind in ('cheb', 'sin'):
        add('func_diff_matrix', f'{kind} m=1', -1., 1., 5, 1, kind)
        add('func_diff_matrix', f'{kind} m=2', -1., 1., 5, 2, kind)
        add('func_gets', f'{kind}', E.tt([3, 3, 3], 2, 14), kind=kind)
        add('func_gets', f'{kind} m', E.tt([3, 3, 3], 2, 14), m=E.idx([4, 4, 4]), kind=kind)
        add('func_int', f'{kind}', E.tt([4, 4, 4], 2, 15), kind=kind)
        add('func_sum', f'{kind}', E.tt([4, 4, 4], 2, 16), E.vec([-1., -1., -1.]), E.vec([1., 2., 1.]), kind=kind)
    add('func_diff_matrix_apply', 'sin', E.tt([4, 4, 4], 2, 17), E.arr(tn.func_diff_matrix(0., 1., 4, 1, 'sin')), 'sin')
    add('func_get', 'many', X1, E.tt([3, 3, 3], 2, 18), E.vec([-1., -1., -1.]), E.vec([1., 1., 1.]))
    add('func_get', 'one', E.vec([.1, .2, .3]), E.tt([3, 3, 3], 2, 18), -1., 1., z=-1.)
    add('func_get', 'funcs', X1, E.tt([3, 3, 3], 2, 18), funcs=lambda x: tn.func_basis(x, 3), skip_out=False)
    add('func_get', 'identity-like funcs', X1, E.tt([1, 1, 1], 1, 18), funcs=lambda x: x[None, :], skip_out=False)
    add('func_get', 'a b None', X1, E.tt([3, 3, 3], 2, 18))
    Xc = np.cos(np.pi * np.arange(4) / 3)
    add('func_int_general', 'rank 2 (first core has r1 = 1)', E.tt([4, 4, 4], 2, 19), E.vec(Xc), lambda X: tn.func_basis(X, 4))
    add('func_int_general', 'rank 1 (every core is a vector)', E.tt([4, 4, 4], 1, 19), E.vec(Xc), lambda X: tn.func_basis(X, 4))
    add('func_int_general', '2-D X, fewer functions', E.tt([4, 4, 4], 2, 19), E.arr(np.array([Xc] * 3)),
        lambda X: tn.func_basis(X, 3))
    Af = E.full([3, 3, 3], seed=2)
    add('func_get_full', 'many', X1, Af, -1., 1.)
    add('func_get_full', 'skip_out False', X1, Af, E.vec([-1.] * 3), E.vec([1.] * 3), z=2., skip_out=False)
    add('func_gets_full', 'plain', Af, -1., 1.)
    add('func_gets_full', 'm', Af, -1., 1., m=E.idx([4, 4, 4]))
    add('func_int_full', 'plain', Af)
    add('func_sum_full', 'plain', Af, E.vec([-1., -2., -1.]), E.vec([1., 2., 1.]))
    add('grid_flat', 'list', E.idx([2, 3, 2]))
    add('grid_flat', 'number', 4)
    add('grid_prep_opt', 'number', 2., 3)
    add('grid_prep_opt', 'list/array', E.vec([1., 2., 3.]), 3)
    add('grid_prep_opt', 'int kind reps', E.idx([1, 2, 3]), 3, int, 2)
    add('grid_prep_opt', 'none', None)
    add('grid_prep_opts', 'mixed', E.vec([-1., -1., -1.]), 1., E.idx([4, 4, 4]))
    add('grid_prep_opts', 'reps', -1., E.vec([1., 2., 3.]), 5, 3, 2)
    add('ind_qtt_to_tt', 'one', E.idx([1, 0, 0, 1, 1, 1]), 2)
    add('ind_qtt_to_tt', 'batch', E.idx([[1, 0, 0, 1, 1, 1], [0, 0, 1, 1, 0, 1]]), 2)
    add('ind_tt_to_qtt', 'one', E.idx([1, 2, 3]), 4)
    add('ind_tt_to_qtt', 'batch', E.idx([[1, 2, 3], [0, 3, 1]]), 4)
    for kind in ('uni', 'cheb'):
        add('ind_to_poi', f'{kind} one', E.idx([1, 2, 0]), -1., 1., 4, kind)
        add('ind_to_poi', f'{kind} batch arrays', E.idx([[1, 2, 0], [3, 3, 3]]), E.vec([-1., -2., -3.]), E.vec([1., 2., 3.]),
            E.idx([4, 4, 4]), kind)
        add('poi_scale', f'{kind}', X1, E.vec([-1., -1., -1.]), E.vec([1., 1., 1.]), kind)
        add('poi_scale', f'{kind} one', E.vec([.1, .2, 5.]), -1., 1., kind)
        add('poi_to_ind', f'{kind}', X1, E.vec([-1., -1., -1.]), E.vec([1., 1., 1.]), E.idx([4, 5, 6]), kind)
        add('poi_to_ind', f'{kind} one', E.vec([.1, .2, .3]), -1., 1., 4, kind)
    add('matrix_delta', 'plain', 3, 2, 5, 2.)
    A = E.arr(rs.rand(7, 3))
    add('maxvol', 'plain', A)
    add('maxvol_rect', 'plain', A, dr_min=1, dr_max=2)
    add('maxvol_rect', 'dr_max None', A)
    Y44 = E.tt([4, 4, 4], 2, 20)
    add('optima_qtt', 'n=4', Y44, k=5)
    add('optima_tt', 'plain', Y, k=5)
    for l2r in (True, False):
        for ra in (True, False):
            add('optima_tt_beam', f'l2r={l2r} ret_all={ra}', Y, 5, l2r, ra)
    add('optima_tt_max', 'plain', Y, 5)
    for how in ('l2r', 'r2l', 'both', 'smart'):
        add('optima_tt_maxvol', how, Y, 3, how)
    for ra in (True, False):
        add('optima_func_tt_beam', f'ret_all={ra}', E.tt([3, 3, 3], 2, 21), 3, ret_all=ra)
    add('optima_func_tt_beam', 'k_loc', E.tt([3, 3, 3], 2, 21), 3, k_loc=2)
    for nm in ('erank', 'ranks', 'shape', 'size', 'show', 'full'):
        add(nm, 'plain', Y)
    add('erank', 'd=2', Yq)
    add('full', 'd=2', Yq)
    add('sample', 'm=5', Yp, 5, seed=2)
    add('sample', 'm=1', Yp, seed=2)
    for un in (True, False):
        add('sample_square', f'unique={un}', Yp, 4, unique=un, seed=3)
    add('sample_lhs', 'plain', E.idx([3, 4, 3]), 6, seed=1)
    add('sample_rand', 'plain', E.idx([3, 4, 3]), 6, seed=1)
    add('sample_rand_poi', 'plain', E.vec([-1., -2., -3.]), E.vec([1., 2., 3.]), 5, seed=1)
    add('sample_tt', 'plain', E.idx([3, 4, 3]), 2, seed=1)
    for cap in (False,):
        add('sample_func', f'prepared={cap}', E.tt([3, 3, 3], 2, 22, pos=True), seed=4, cores_are_prepared=cap)
    Aprep = tn.orthogonalize(E.tt([3, 3, 3], 2, 22, pos=True), 0)
    add('sample_func', 'prepared=True', [E.arr(g) for g in Aprep], seed=4, cores_are_prepared=True)
    add('cdf_confidence', 'plain', E.arr(rs.rand(6)))
    add('cdf_getter', 'array', E.arr(rs.rand(6)))
    add('cdf_getter', 'list', rs.rand(6).tolist())
    M = E.arr(rs.rand(5, 4))
    for gt in ('m', 'l', 'r'):
        for rel in (False, True):
            add('matrix_skeleton', f'give_to={gt} rel={rel}', M, 1e-3, 3, rel=rel, give_to=gt)
    add('matrix_skeleton', 'hermitian', E.arr(M.T @ M), hermitian=True)
    add('matrix_svd', 'tall', M, 1e-3, 3)
    add('matrix_svd', 'wide', E.arr(np.array(M).T.copy()))
    add('svd', '3-D', E.full([3, 4, 3]))
    add('svd', '2-D', E.full([3, 4]))
    add('svd', '1 x n x 1', E.full([1, 4, 1]))
    add('svd_matrix', '4x4', E.full([4, 4]))
    It, idx, idxm = tn.sample_tt([3, 4, 3], 2, seed=1)
    yt = np.array([np.sin(i[0] + 2. * i[1] - i[2]) for i in It])
    add('svd_incomplete', 'plain', E.arr(It), E.arr(yt), E.arr(idx), E.arr(idxm), 1e-10, 2)
    add('const', 'plain', E.idx([3, 4, 3]), 2.)
    add('const', 'zeros', E.idx([3, 4, 3]), 2., I_zero=E.idx([[0, 1, 2], [1, 1, 1]]), i_non_zero=E.idx([0, 2, 2]))
    add('delta', 'plain', E.idx([3, 4, 3]), E.idx([1, 2, 0]), 2.)
    add('poly', 'plain', E.idx([3, 4, 3]), 1., 2, 2.)
    add('poly', 'shift array', E.idx([3, 4, 3]), E.vec([1., 2., 3.]))
    add('rand', 'plain', E.idx([3, 4, 3]), 2, seed=1)
    add('rand', 'rank list', E.idx([3, 4, 3]), E.idx([1, 2, 3, 1]), seed=1)
    add('rand_custom', 'f', E.idx([3, 4, 3]), 2, lambda sz: np.arange(sz, dtype=float))
    _buf = np.arange(1000, dtype=float)
    add('rand_custom', 'f returns a view of its own buffer', E.idx([3, 4, 3]), E.idx([1, 2, 2, 1]), lambda sz: _buf[:sz])
    add('rand_norm', 'plain', E.idx([3, 4, 3]), 2, seed=1)
    add('rand_stab', 'plain', E.idx([3, 4, 3]), 2, seed=1)
    add('full_matrix', 'q=3', Ym)
    for ip in (False, True):
        add('orthogonalize_left', f'inplace={ip}', E.tt(n3, 2, 23), 0, inplace=ip)
        add('orthogonalize_left', f'i=1 inplace={ip}', E.tt(n3, 2, 23), 1, ip)
        add('orthogonalize_right', f'inplace={ip}', E.tt(n3, 2, 23), 2, inplace=ip)
        add('orthogonalize_right', f'i=1 inplace={ip}', E.tt(n3, 2, 23), 1, ip)
    for orth in (True, False):
        for us in (True, False):
            for ie in (True, False):
                add('truncate', f'orth={orth} stab={us} eigh={ie}', tn.add(Y, Y) if False else E.tt(n3, 3, 24), 1e-2, 2,
                    orth, us, ie)
    add('vector_delta', 'plain', 3, 5, 2.)
    add('getter', 'numba', Y)
    return R


# ----------------------------------------------------------------------------------------------------------------
# footprint of one call
# ----------------------------------------------------------------------------------------------------------------
def predicted(g, name, bound):
    """(writes, escapes) the skeleton predicts for the variant matching the call; None if no variant matches"""
    best = None
    for r in _report(g):
        if r['name'] != name:
            continue
        ok = True
        for k, v in r['flags'].items():
            if k in bound and str(bound[k]) != v and not (callable(bound[k]) and v == '<lambda-default>'):
                ok = False
        if ok:
            best = r
            break
    return best


def _report(g):
    if 'report' not in _GEN or _GEN.get('report_for') is not g:
        _GEN['report'], _GEN['report_for'] = g.report(), g
    return _GEN['report']


def run_case(tn, g, name, label, args, kw, probes=True):
    """returns (list of violations, info dict)"""
    f = getattr(tn, name)
    try:
        sig = inspect.signature(f)
        ba = sig.bind(*args, **kw)
        ba.apply_defaults()
        bound = dict(ba.arguments)
        passed = set(sig.bind(*args, **kw).arguments)
    except Exception as e:
        return [dict(what=f'{name}: recipe does not match the signature: {e!r}', recipe_error=True)], {}
    pred = predicted(g, name, bound)
    if pred is None:
        return [dict(what=f'{name}: no skeleton variant for this call (flags {[(k, bound[k]) for k in bound if isinstance(bound[k], bool)]})',
                     recipe_error=True)], {}
    before = {k: snap(v) for k, v in bound.items() if k in passed}
    arg_arr, arg_cont = {}, {}
    for k, v in bound.items():
        if k in passed:
            arg_arr[k], arg_cont[k] = arrays_in(v)
    buf = io.StringIO()
    try:
        with contextlib.redirect_stdout(buf), warnings.catch_warnings():
            warnings.simplefilter('ignore')
            res = f(*args, **kw)
    except Exception as e:
        if name == 'getter' and 'Numba' in str(e):
            return [], dict(skipped='numba is not installed')
        return [dict(what=f'{name} [{label}] raised {e!r} (recipe problem, not a C09 failure)', recipe_error=True)], {}
    viol = []
    # 1. arguments unchanged
    for k in before:
        d = snap_diff(before[k], snap(bound[k]), k)
        if d and k not in pred['writes']:
            viol.append(dict(what=f'{name} [{label}]: argument modified: {d}', param=k, kind='write'))
    # 2. no aliasing of results
    res_arr, res_cont = arrays_in(res)
    exempt_dicts = [bound[k] for k in ('info', 'cache') if k in passed and isinstance(bound.get(k), dict)]
    for k in arg_arr:
        if k in ('info', 'cache'):
            continue
        hit = None
        for ra in res_arr:
            for aa in arg_arr[k]:
                if ra.dtype != object and aa.dtype != object and np.may_share_memory(ra, aa) and np.shares_memory(ra, aa):
                    hit = 'result array shares memory with argument'
        for rc in res_cont:
            for ac in arg_cont[k]:
                if rc is ac:
                    hit = 'result container IS an argument container'
        if hit and k not in pred['escapes']:
            viol.append(dict(what=f'{name} [{label}]: {hit} {k}', param=k, kind='alias'))
    for dct in exempt_dicts:
        da, _ = arrays_in(dct)
        for ra in res_arr:
            for aa in da:
                if ra.dtype != object and aa.dtype != object and np.shares_memory(ra, aa):
                    viol.append(dict(what=f'{name} [{label}]: result shares memory with an array stored into info / cache',
                                     kind='alias-info'))
    # 3. write-after-return probes
    if probes and not viol:
        clean = [k for k in arg_arr if k not in pred['escapes'] and k not in ('info', 'cache')]
        s0 = {k: snap(bound[k]) for k in clean}
        for ra in res_arr:
            if ra.dtype != object and ra.flags.writeable and ra.size:
                try:
                    ra[...] = ra * 0 + (1 if ra.dtype.kind in 'iub' else 0.123)
                except Exception:
                    pass
        for rc in res_cont:
            if isinstance(rc, list):
                rc.append('probe')
        for k in clean:
            d = snap_diff(s0[k], snap(bound[k]), k)
            if d:
                viol.append(dict(what=f'{name} [{label}]: writing into the result changed argument {d}', param=k,
                                 kind='probe-result'))
        if not viol:
            rs0 = snap(res)
            for k in clean:
                for aa in arg_arr[k]:
                    if aa.dtype != object and aa.flags.writeable and aa.size:
                        aa[...] = aa * 0 + (1 if aa.dtype.kind in 'iub' else 0.321)
            d = snap_diff(rs0, snap(res), 'result')
            if d:
                viol.append(dict(what=f'{name} [{label}]: writing into the arguments changed the {d}', kind='probe-arg'))
    return viol, dict(pred=pred)


LAYOUTS = [('C', False), ('F', False), ('S', False), ('C', True)]


def footprint(R, ctx, names=None, seeds=(1,), probes=True):
    tn = C.import_teneva()
    g = gen()
    exported = sorted(nm for nm, (what, q) in g.pkg.exports.items())
    public = [nm for nm, (what, q) in sorted(g.pkg.exports.items()) if what == 'func' and not nm.startswith('_')]
    fails, ncalls, recipe_errors, covered = [], 0, [], set()
    dist = dict(layouts={}, functions=0)
    skipped = {}
    for seed in seeds:
        for layout, aslist in LAYOUTS:
            E = Env(tn, layout, aslist, seed)
            with contextlib.redirect_stdout(io.StringIO()), warnings.catch_warnings():
                warnings.simplefilter('ignore')
                rec = recipes(tn, E)
            for name in sorted(rec):
                if names and name not in names:
                    continue
                # rebuild the inputs for every function: an earlier (faulty) call must not spoil later ones
                with contextlib.redirect_stdout(io.StringIO()), warnings.catch_warnings():
                    warnings.simplefilter('ignore')
                    cases = recipes(tn, Env(tn, layout, aslist, seed))[name]
                for label, args, kw in cases:
                    viol, inf = run_case(tn, g, name, label, args, kw, probes)
                    ncalls += 1
                    if inf.get('skipped'):
                        skipped[name] = inf['skipped']
                    covered.add(name)
                    key = f'{layout}{"/lists" if aslist else ""}'
                    dist['layouts'][key] = dist['layouts'].get(key, 0) + 1
                    if R is not None:
                        R.add_distinct((name, label, layout, aslist, seed))
                    for v in viol:
                        v['input'] = dict(function=name, case=label, layout=layout, index_args_as_lists=aslist, seed=seed)
                        (recipe_errors if v.get('recipe_error') else fails).append(v)
    dist['functions'] = len(covered)
    uncovered = [nm for nm in public if nm not in covered]
    return fails, recipe_errors, ncalls, dist, uncovered, skipped


def correspondence(R, ctx):
    g = gen()
    rep = g.report()
    static_bad = [r for r in rep if r['bad_writes'] or r['bad_escapes'] or r['unknown']]
    R.notes.append(dict(variants=len(g.order), api_entries=len(g.api), exported_functions_checked=len({n for n, _ in g.api}),
                        underscore_helpers_as_callees_only=g.helpers, classes_as_callees_only=g.classes_exported,
                        translator_notes=g.notes[:20], dynamic_only=[],
                        flagged_by_skeleton=[dict(name=r['name'], flags=r['flags'], writes=r['bad_writes'],
                                                  escapes=r['bad_escapes'], unknown=r['unknown'][:3]) for r in static_bad][:20],
                        documented_exceptions_seen=[dict(name=r['name'], flags=r['flags'], writes=r['writes'], escapes=r['escapes'])
                                                    for r in rep if r['writes'] or r['escapes']]))
    seeds = (1, 2, 3) if ctx['thorough'] else (1,)
    fails, rerr, ncalls, dist, uncovered, skipped = footprint(R, ctx, seeds=seeds)
    dist['uncovered_exported_functions'] = uncovered
    dist['skipped'] = skipped
    dist['recipe_errors'] = [e['what'] for e in rerr][:20]
    R.corr.append(dict(name='dynamic footprint within the skeleton prediction', cases=ncalls, mismatches=len(fails) + len(rerr),
                       comparison='byte-level snapshots of every argument before/after, np.shares_memory and container '
                                  'identity of every result against every argument, write-after-return probes; observed '
                                  'writes / aliases must be predicted by the skeleton variant of the call',
                       distribution=dist, first_mismatches=[f['what'] for f in (fails + rerr)[:5]]))
    if fails:
        R.samples.append(dict(stream='footprint', violation=fails[0]['what'], input=fails[0]['input']))
    else:
        R.samples.append(dict(stream='footprint', input=dict(function='truncate', layout='S'), observed='no write, no alias'))
    _GEN['fails'] = fails
    _GEN['static_bad'] = static_bad
    return fails


def search(R, ctx, deep, hints):
    """same harness, more seeds; failures found by the correspondence are re-run first.  A static flag without a dynamic
    witness is reported by ./check as no-failing-input-found (the skeleton diagnosis is in the notes)."""
    fails = list(_GEN.get('fails') or hints or [])
    n = 0
    if deep and not fails:
        names = None
        sb = _GEN.get('static_bad') or []
        if sb and not ctx['thorough']:
            names = {r['name'] for r in sb}      # look where the skeleton says something is wrong
        f2, _, n, _, _, _ = footprint(None, ctx, names=names, seeds=(4, 5, 6, 7) if ctx['thorough'] else (4, 5))
        fails += f2
    out = []
    seen = set()
    for f in fails:
        k = (f['input']['function'], f.get('param'), f.get('kind'))
        if k in seen:
            continue
        seen.add(k)
        out.append(dict(what=f['what'], input=f['input'], got=f.get('kind'), expected='no write / no alias beyond the '
                        'documented exceptions'))
    R.search.append(dict(name='dynamic footprint, extra seeds', evaluations=n, failures=len(out), deep=deep))
    return out[:10]


def replay(data):
    p = data['payload']
    inp = p.get('input') or {}
    print(data['what'])
    if not inp.get('function'):
        g = gen()
        bad = [r for r in g.report() if r['bad_writes'] or r['bad_escapes'] or r['unknown']]
        for r in bad[:10]:
            print('skeleton flags', r['name'], r['flags'], 'writes', r['bad_writes'], 'escapes', r['bad_escapes'], r['unknown'][:2])
        return 1 if bad else 0
    tn = C.import_teneva()
    g = gen()
    E = Env(tn, inp['layout'], inp['index_args_as_lists'], inp['seed'])
    for label, args, kw in recipes(tn, E)[inp['function']]:
        if label == inp['case']:
            viol, _ = run_case(tn, g, inp['function'], label, args, kw)
            for v in viol:
                print('replayed:', v['what'])
            return 1 if viol else 0
    return 1
