"""C13 — TT-ANOVA cores encode the additive model (anova.py, anova_func.py, act_many.add_many)."""
import itertools
import math
from fractions import Fraction

import numpy as np
from harness import common as C

THEOREMS = 'Properties/C13.v'
TIME_LIMIT = {'quick': 900, 'thorough': 5400}
CLAIM = dict(
    text='TT-ANOVA. Theorems of Properties/C13.v about the models Model/Anova.v, Model/AnovaFunc.v; unbounded in d, '
         'mode sizes, ranks and sample sets; carrier = any commutative ring (statistics: plus x/b*b=x for b<>0 and '
         'n+1<>0, i.e. a field of characteristic 0). '
         'FULL: (C13_anova_stats) the domain of a mode is the sorted list of distinct observed values, f0 is the sample '
         'mean, f1[k][x]+f0 is the mean of the (never empty) set of samples whose k-th index is x; (C13_anova_stats2) '
         'the order-2 matrix of the pair k1<k2, stored at pair_num_to_num(k1,k2), holds 0 where no sample has both '
         'index values and otherwise the conditional mean minus f0 minus the two univariate terms; '
         '(C13_pair_num_bijection/_sym/_diag) pair_num_to_num numbers the pairs i<j<d bijectively onto '
         '0..d(d-1)/2-1 in the loop order of build_2/cores_2, is symmetric and asserts on i=j; (C13_calc_spec) calc '
         'is a dictionary lookup per mode followed by constant + univariate (+ pair) terms; (C13_anova_order1) '
         'teneva.anova(order=1, noise=0) for every d>=2, r>=2 has the observed mode sizes, every TT-rank equal to r and '
         'evaluates at every multi-index of the observed domain to f0 + sum_k f1[k][x_k] (= calc); '
         '(C13_cores_1_shape/_ranks) mode sizes and ranks are the same for every noise level and generator; '
         '(C13_anova_additive_exact) if the sample rows are all multi-indices of the observed domain, each once in any '
         'order, and y = c + sum_k g_k(x_k), the order-1 tensor equals c + sum_k g_k(x_k) at every multi-index; '
         '(C13_anova_bad_order/_bad_rank) order outside {1,2} gives ValueError, r<2 IndexError; '
         '(C13_second_order_get) _second_order_2_tt denotes A[x_i,x_j] for every skeleton routine with U V = A; '
         '(C13_add_get, C13_add_many_get) act_two.add adds entries, add_many returns the sum of the entries plus the '
         'entry changes made by its truncate calls; (C13_cores_pre_get, C13_anova_func_interp, C13_anova_func_denote) '
         'the coefficient tensor of anova_func(e=None) is c0 at 0, cf_i[p] at (p+1)e_i, zero elsewhere, and its '
         'interpolant in any basis with B_0=1 (in particular the Chebyshev recurrence) is c0 + sum_i sum_p '
         'cf_i[p] B_{p+1}(x_i); (C13_anova_func_normal_eqs) the systems given to the solver are the ridge normal '
         'equations of the centred values in that basis; (C13_coeffs_eq) the fitted constant is the sample mean plus '
         'the constant terms of the d one-dimensional fits; (C13_anova_func_rounded) with the default e the result is '
         'truncate applied to that tensor. '
         'AT THE REALS (carrier R, Reals axioms): (C13_cores_1_noise_bound, the "up to the requested noise" clause) '
         'for every noise level and every generator whose draws are bounded by gmax, with F a bound of |f0| and every '
         '|f1|, the order-1 entry differs from f0 + sum_k f1[k][x_k] by at most |noise| d r gmax (r(1+2F+|noise| '
         'gmax))^(d-1), all d>=2, r>=2; (C13_anova_order2_error) order 2 with fewer than 15 pairs (d<=5), the '
         'rounding inside add_many being the real model of teneva.truncate and only the LAPACK contracts (qr, rq, '
         'eigh, argsort) assumed as in C02: the single truncate(e, int(r)) call succeeds, the result has the observed '
         'mode sizes, a valid rank profile with every TT-rank <= max(1, r), and when no rank reaches r its Frobenius '
         'distance from the tensor constant + univariate + pair terms is at most e times the norm of that tensor; '
         '(C13_anova_func_error) anova_func with default e: the rounding succeeds, keeps the mode sizes and the '
         'result is within e ||A||_F of the unrounded coefficient tensor A (fewer than 10^12 coefficients). '
         'PARTIAL / ASSUMED: order 2 assumes the skeleton routine of the pair matrices EXACT (U V = A); '
         'teneva.matrix_skeleton truncates at 1e-10 and that error is not modelled (validated numerically, 1e-8). '
         '(C13_anova_order2_partial, C13_anova_order2_pre_partial) for d>=6 (15 or more pairs, intermediate rounding '
         'calls) only the accounting form is proved: the result is truncate(e,r) applied to a tensor whose entry is '
         'constant + univariate + pair terms plus the entry changes of the intermediate truncate calls. '
         '(C13_cores_1_noise_partial, C13_cores_1_noise_telescope_partial) are the ring-level identities behind the '
         'noise bound (cores = noise-free + noise*draw off the pattern; entry = f0 + sum f1 + noise * sum of d mixed '
         'chains); the bound is deterministic in gmax, nothing probabilistic about normal draws is proved. '
         'NOT PROVED, validated numerically only: IEEE rounding of all of the above (tolerances of the '
         'correspondence).',
    note='Trusted: Coq kernel; vm_compute for case evaluation; hand-written models tied to the code on every run by the '
         'correspondence (Qc instance; exact on integers/indices/shapes/errors/noise entries, 1e-12 relative on float '
         'results); oracle contracts (Section hypotheses): matrix_skeleton returns U V = A; truncate keeps '
         'well-formedness and shape and changes an entry by err k; lstsq solves N x = rhs (residual validated on every '
         'recorded call); the (sign, d-th root) pair of tensors.delta satisfies s*w^d = v; Generator.normal (draws '
         'recorded through an auditing generator passed as seed). Each contract has a non-vacuity Example. The delta '
         'contract is validated on every recorded teneva.delta call (product of the entries = v, exactly below its '
         '1e-16 threshold). History streams: repeated cores()/calc/coeffs calls on one ANOVA / ANOVA_func object are '
         'compared with the stateless model and the fitted state (f0, f1, f2, domain, cached f1_arr/f2_arr) must be '
         'exactly unchanged after every call. anova_func families: constant data with inexact mean, scales 1e-300 '
         '.. 1e200 (default-e rounding only for 1e-100 .. 1e100: truncate squares the entries).',
    technique='Coq proof (chain invariants, telescoping, grid sums over an abstract commutative ring / field; l1 chain '
              'bounds and composition with the C02 truncate theorems at R) + '
              'model/implementation correspondence over Qc + independent Fraction/numpy oracle on the implementation')
TRUSTED = ['Coq 8.16.1 kernel + vm_compute (case evaluation only)',
           'hand-written models Model/Anova.v, Model/AnovaFunc.v tied to anova.py / anova_func.py / act_many.py '
           'by correspondence on every run',
           'oracle contracts: matrix_skeleton (U V = A), truncate (C02), scipy.linalg.lstsq (N x = rhs; residual '
           'validated on every recorded call), d-th root in tensors.delta, Generator.normal',
           'numpy semantics of unique / mean / boolean masks / reshape(order=C) / kron as re-expressed in the model']
ASSUMPTIONS = ['theorems are about exact arithmetic (ring / field of characteristic 0); IEEE rounding is covered by '
               'the tolerance of the correspondence only',
               'order 2: the statement is relative to the truncation errors of add_many (property C02)',
               'multi-indices of the TT-tensor are positions in the sorted observed domain (np.unique per column)']

HEADER = '''From Coq Require Import List ZArith QArith Qcanon Bool.
From TV Require Import Num.Ops Lin.Tab Lin.BigSum Lin.Mat TT.Chain Model.ActOne Model.Anova Model.AnovaFunc.
Import ListNotations.
Open Scope Z_scope.
Definition sq (q : Qc) : list Z := [Qnum (this q); Zpos (Qden (this q))].
Definition sqs (l : list Qc) : list Z := flat_map sq l.
Definition zn (n : nat) : Z := Z.of_nat n.
Definition show_core (G : core Qc) : list (list Z) :=
  [[zn (cr1 G); zn (cn G); zn (cr2 G)]; sqs (concat (concat (dat G)))].
Definition show_tt (Y : list (core Qc)) : list (list Z) := flat_map show_core Y.
Definition show_mat (A : mat Qc) : list (list Z) := [[zn (mr A); zn (mc A)]; sqs (concat (md A))].
Definition show_r {A} (f : A -> list (list Z)) (r : result A) : list (list Z) :=
  match r with Ok x => [0] :: f x | Err e => [[err_code e]] end.
Definition show_anova (M : anova Qc) : list (list Z) :=
  [[zn (a_order M); zn (a_d M); zn (length (a_f2 M))]; map zn (shapes (a_dom M))]
  ++ a_dom M ++ [sq (a_f0 M)] ++ map sqs (a_f1 M) ++ flat_map show_mat (a_f2 M).
Definition g4 (G : list (list (list (list Qc)))) (k a i b : nat) : Qc :=
  nth b (nth i (nth a (nth k G []) []) []) (Q2Qc 0).
Definition skelQ (_ : nat) (A : mat Qc) : mat Qc * mat Qc := (A, mid OQc (mc A)).
Definition truncQ (_ : nat) (Y : list (core Qc)) : list (core Qc) := Y.
Definition splitQ (v : Qc) : Qc * Qc := (v, Q2Qc 1).
Definition show_dense (Y : list (core Qc)) : list (list Z) := [map zn (shape Y); sqs (full OQc Y)].
Definition show_sys (l : list (mat Qc * list Qc)) : list (list Z) :=
  flat_map (fun p => show_mat (fst p) ++ [sqs (snd p)]) l.
'''


# ----------------------------------------------------------------------------
# helpers
# ----------------------------------------------------------------------------

def fr_list(row):
    """[n0, d0, n1, d1, ...] -> list of Fractions"""
    return [Fraction(row[k], row[k + 1]) for k in range(0, len(row), 2)]


def qlist(xs):
    return '[' + '; '.join(C.qlit(Fraction(x)) for x in xs) + ']'


def qnested(xs):
    if isinstance(xs, np.ndarray):
        xs = xs.tolist()
    if isinstance(xs, (list, tuple)):
        return '[' + '; '.join(qnested(x) for x in xs) + ']'
    return C.qlit(Fraction(xs))


def close(m, x, tol):
    """model value m (Fraction) vs implementation float x"""
    x = float(x)
    if not math.isfinite(x):
        return False
    return abs(float(m - Fraction(x))) <= tol


class AuditGen:
    """auditing generator passed as `seed`: records every normal() call; draws are rounded to 1/8 so that the
    product with a dyadic noise level is exact in binary64"""

    def __init__(self, seed):
        self.g = np.random.default_rng(seed)
        self.calls = []

    def normal(self, loc=0., scale=1., size=None):
        a = np.round(self.g.normal(size=size) * 8.) / 8.
        self.calls.append(a.copy())
        return a


LABEL_OFFSETS = [10 ** 5, 10 ** 9, 2 ** 40, -10 ** 5, -10 ** 9, -2 ** 40, 123456789, 2 ** 31 - 5]


def relabel(rng, vals, max_abs=None):
    """index labels over the whole integer range: per mode (or the same for all modes, so that one label occurs in
    several modes) an offset of 1e5 .. 2^40 of either sign and a stride 1 (neighbouring labels), 2, 1000 (sparse
    subset of a huge mode); order preserving"""
    offs = [o for o in LABEL_OFFSETS if max_abs is None or abs(o) + 10 ** 5 < max_abs]
    if not offs:
        return vals
    shared = rng.random() < 0.5
    o0, s0 = rng.choice(offs), rng.choice([1, 1, 1, 2, 1000])
    out = []
    for vs in vals:
        o, st = (o0, s0) if shared else (rng.choice(offs + [0]), rng.choice([1, 1, 1, 2, 1000]))
        out.append([o + st * v for v in vs])
    return out


class MaxGen:
    """generator passed as `seed` in the search: ordinary normal draws, the largest |draw| is remembered (the noise
    bound C13_cores_1_noise_bound is deterministic in that maximum)"""

    def __init__(self, seed):
        self.g = np.random.default_rng(seed)
        self.gmax = 0.

    def normal(self, loc=0., scale=1., size=None):
        a = self.g.normal(loc, scale, size)
        self.gmax = max(self.gmax, float(np.max(np.abs(a), initial=0.)))
        return a


def noise_bound(noise, d, r, F, gmax):
    """C13_cores_1_noise_bound: |noise| d r gmax (r (1 + 2F + |noise| gmax))^(d-1)"""
    return abs(noise) * d * r * gmax * (r * (1. + 2. * F + abs(noise) * gmax)) ** (d - 1)


def gen_samples(rng, dmax=4, nmax=4, kind=None, labels=True):
    """sample set: (I rows, y values, description).  Index values are arbitrary sorted integers per mode."""
    d = rng.randint(2, dmax)
    ns = [rng.randint(1, nmax) for _ in range(d)]
    if all(n == 1 for n in ns):
        ns[rng.randrange(d)] = 2
    vals = [sorted(rng.sample(range(-3, 10), n)) for n in ns]
    if rng.random() < 0.4:
        vals = [list(range(n)) for n in ns]
    if labels and rng.random() < 0.4:
        vals = relabel(rng, vals)
    kind = kind or rng.choice(['full', 'full_dup', 'sparse', 'sparse', 'additive_full'])
    grid = [list(t) for t in itertools.product(*vals)]
    if kind in ('full', 'additive_full'):
        rows = list(grid)
        rng.shuffle(rows)
    elif kind == 'full_dup':
        rows = list(grid) + [rng.choice(grid) for _ in range(rng.randint(1, 5))]
        rng.shuffle(rows)
    else:
        m = rng.randint(1, max(2, min(len(grid), 12)))
        rows = [rng.choice(grid) for _ in range(m)]
    if kind == 'additive_full':
        c = rng.randint(-5, 5)
        gk = [{v: rng.randint(-6, 6) for v in vs} for vs in vals]
        y = [c + sum(gk[k][r[k]] for k in range(d)) for r in rows]
    else:
        y = [rng.randint(-9, 9) for _ in rows]
        if rng.random() < 0.1:
            y = [y[0]] * len(y)
    return rows, y, dict(d=d, ns=ns, kind=kind, m=len(rows), maxlabel=max(abs(v) for r_ in rows for v in r_))


def ref_model(rows, y, order):
    """independent exact reference (Fractions): domain, f0, f1, f2 (dict based, like the definition in the
    property text: conditional sample means)"""
    d = len(rows[0])
    y = [Fraction(v) for v in y]
    dom = [sorted(set(r[k] for r in rows)) for k in range(d)]
    f0 = sum(y) / len(y)
    f1 = []
    for k in range(d):
        cur = {}
        for x in dom[k]:
            sel = [v for r, v in zip(rows, y) if r[k] == x]
            cur[x] = sum(sel) / len(sel) - f0
        f1.append(cur)
    f2 = {}
    if order >= 2:
        for k1 in range(d):
            for k2 in range(k1 + 1, d):
                cur = {}
                for x1 in dom[k1]:
                    for x2 in dom[k2]:
                        sel = [v for r, v in zip(rows, y) if r[k1] == x1 and r[k2] == x2]
                        cur[x1, x2] = (sum(sel) / len(sel) - f0 - f1[k1][x1] - f1[k2][x2]) if sel else Fraction(0)
                f2[k1, k2] = cur
    return dom, f0, f1, f2


def ref_dense(dom, f0, f1, f2, order):
    d = len(dom)
    shp = [len(x) for x in dom]
    out = np.zeros(shp, dtype=object)
    for pos in itertools.product(*[range(n) for n in shp]):
        x = [dom[k][pos[k]] for k in range(d)]
        v = f0 + sum(f1[k][x[k]] for k in range(d))
        if order >= 2:
            v += sum(f2[k1, k2][x[k1], x[k2]] for k1 in range(d) for k2 in range(k1 + 1, d))
        out[pos] = v
    return out


def lossless_rank(shp):
    r = 2
    for k in range(1, len(shp)):
        r = max(r, min(int(np.prod(shp[:k])), int(np.prod(shp[k:]))))
    return r


# ----------------------------------------------------------------------------
# argument forms: the same mathematical input handed over as list / ndarray of several dtypes / NumPy scalars
# ----------------------------------------------------------------------------
Y_FORMS = ['list', 'f64', 'f32', 'f16', 'i64', 'i32', 'pyint']
I_FORMS = ['list', 'i64', 'i32', 'u8', 'f64']
S_FORMS = ['py', 'np64', 'np32']
X_FORMS = ['list', 'f64', 'f32', 'f16']
AB_FORMS = ['py', 'np64', 'np32', 'list', 'arr', 'pyint']


def form_y(vals, form):
    """(object passed, exact values it denotes as Python floats / ints)"""
    if form in ('i64', 'i32', 'pyint'):
        iv = [int(round(v)) for v in vals]
        obj = iv if form == 'pyint' else np.array(iv, dtype={'i64': np.int64, 'i32': np.int32}[form])
        return obj, [float(v) for v in iv]
    if form == 'list':
        return [float(v) for v in vals], [float(v) for v in vals]
    obj = np.array(vals, dtype={'f64': np.float64, 'f32': np.float32, 'f16': np.float16}[form])
    return obj, [float(v) for v in obj]      # a float32 / float16 array denotes exactly these rationals


def form_I(rows, form):
    if form == 'list':
        return [list(r) for r in rows]
    return np.array(rows, dtype={'i64': np.int64, 'i32': np.int32, 'u8': np.uint8, 'f64': np.float64}[form])


def form_s(v, form, integer=True):
    if form == 'py':
        return int(v) if integer else float(v)
    if integer:
        return {'np64': np.int64, 'np32': np.int32}[form](v)
    return {'np64': np.float64, 'np32': np.float32}[form](v)


def form_X(X, form):
    if form == 'list':
        return [list(r) for r in X]
    return np.array(X, dtype={'f64': np.float64, 'f32': np.float32, 'f16': np.float16}[form])


def form_ab(v, d, form):
    if form == 'py':
        return float(v)
    if form == 'pyint':
        return int(v) if float(v) == int(v) else float(v)
    if form == 'np64':
        return np.float64(v)
    if form == 'np32':
        return np.float32(v)
    if form == 'list':
        return [float(v)] * d
    return np.array([float(v)] * d)


def gen_forms_anova(rng):
    """sample set with index values 0..12 (so that uint8 holds them) and a y whose form is drawn; returns the
    objects to pass and the exact values they denote"""
    rows, y, desc = gen_samples(rng, nmax=3, labels=False)
    lo = min(min(r) for r in rows)
    rows = [[v - lo for v in r] for r in rows]
    yform, iform = rng.choice(Y_FORMS), rng.choice(I_FORMS)
    if iform != 'u8' and rng.random() < 0.5:      # large labels as far as the index dtype holds them
        d_ = len(rows[0])
        vals = [sorted(set(r_[k] for r_ in rows)) for k in range(d_)]
        new_vals = relabel(rng, vals, max_abs=2 ** 31 if iform == 'i32' else None)
        maps = [dict(zip(vals[k], new_vals[k])) for k in range(d_)]
        rows = [[maps[k][r_[k]] for k in range(d_)] for r_ in rows]
    if yform in ('list', 'f64', 'f32', 'f16') and desc['kind'] != 'additive_full':
        y = [rng.choice([v, v + 0.1, v / 8., v * 0.3, v + 1. / 3.]) for v in y]   # not representable in the narrow dtypes
    yobj, yex = form_y(y, yform)
    return rows, yobj, yex, form_I(rows, iform), dict(yform=yform, iform=iform, **desc)


def gen_binary(rng, d, m=None):
    """samples with mode size 2 in every mode (both values observed everywhere): full grid when m is None, else m
    random rows plus the two constant rows.  Used for the larger d where the number of pair tensors summed by
    add_many crosses its rounding period (15): d = 6 -> 15 pairs, d = 7 -> 21, d = 10 -> 45."""
    if m is None:
        rows = [list(t) for t in itertools.product(range(2), repeat=d)]
        rng.shuffle(rows)
    else:
        rows = [[0] * d, [1] * d] + [[rng.randint(0, 1) for _ in range(d)] for _ in range(m)]
    y = [rng.randint(-9, 9) for _ in rows]
    return rows, y


def oracle_near(tn, rows, y, r):
    """ANOVA(order=2).cores(r, noise=0, only_near=True) with equal mode sizes (the only case in which that option
    runs for d >= 3): d-1 summands in add_many.  Only what the property says for every option is checked: observed
    mode sizes, consistent cores, TT-ranks <= r, finite entries."""
    inp = dict(kind='near', rows=rows, y=y, r=r)
    d = len(rows[0])
    shp = [len(set(r_[k] for r_ in rows)) for k in range(d)]
    try:
        A = tn.ANOVA(np.array(rows, dtype=int), np.array(y, dtype=float), order=2, seed=1)
        Y = A.cores(r=r, noise=0., only_near=True)
    except Exception as e:  # noqa
        return dict(what='ANOVA.cores(only_near=True) raised on equal mode sizes: ' + repr(e)[:200], input=inp)
    if [G.shape[1] for G in Y] != shp:
        return dict(what='ANOVA.cores(only_near=True): mode sizes are not the observed ones', input=inp,
                    got=[G.shape[1] for G in Y], expected=shp)
    rk = ranks_of(Y)
    if any(G.shape[0] != rk[k] for k, G in enumerate(Y)) or rk[-1] != 1:
        return dict(what='ANOVA.cores(only_near=True): inconsistent core shapes', input=inp, got=[G.shape for G in Y])
    if max(rk) > r:
        return dict(what=f'ANOVA.cores(only_near=True) with {d - 1} summands: order-2 TT-ranks exceed r', input=inp,
                    got=rk, expected=r)
    if not all(np.all(np.isfinite(G)) for G in Y):
        return dict(what='ANOVA.cores(only_near=True): non-finite entries', input=inp)
    return None


def ranks_of(Y):
    return [1] + [G.shape[2] for G in Y]


# ----------------------------------------------------------------------------
# correspondence
# ----------------------------------------------------------------------------

def _append_corr(R, name, n, bad, comparison, dist, sample=None):
    R.corr.append(dict(name=name, cases=n, mismatches=len(bad), comparison=comparison, distribution=dist,
                       first_mismatches=bad[:3]))
    if sample:
        R.samples.append(sample)


def corr_pair_num(R, ctx, tn):
    items = []
    for d in range(2, 10 if not ctx['thorough'] else 14):
        A = tn.ANOVA.__new__(tn.ANOVA)
        A.d = d
        for i in range(d):
            for j in range(d):
                items.append(dict(coq=f'show_r (fun z => [[z]]) (pair_num {d} {i} {j})',
                                  impl=(lambda r: [[0], [r[1]]] if r[0] == 0 else [[r[0]]])(
                                      C.call_impl(A.pair_num_to_num, i, j)),
                                  input=['pair_num', d, i, j]))
    return C.exact_corr(R, 'pair_num_to_num', HEADER, items, chunk=60,
                        distribution=dict(d='2..9 (13 thorough)', pairs='all ordered pairs incl. i=j (assert)'))


def corr_stats(R, ctx, tn):
    """ANOVA(I, y, order): domain / shapes exact; f0, f1_arr, f2_arr and calc within 1e-12*scale"""
    rng = ctx['rng']
    n_cases = 60 if not ctx['thorough'] else 400
    cases, meta = [], []
    dist = dict(kinds={}, d={}, order={})
    for c in range(n_cases):
        rows, y, desc = gen_samples(rng)
        order = rng.choice([1, 2])
        pts = [rng.choice(rows) for _ in range(3)]
        # a point of the observed domain that is not necessarily a sample, and one outside the domain (KeyError)
        dom = [sorted(set(r[k] for r in rows)) for k in range(desc['d'])]
        pts.append([rng.choice(dm) for dm in dom])
        bad_pt = [rng.choice(dm) for dm in dom]
        bad_pt[rng.randrange(desc['d'])] = 77
        pts.append(bad_pt)
        I, yq = C.nested(rows, C.zlit), qlist(y)
        cases.append(f'show_r show_anova (ANOVA OQc {I} {yq} {order}%nat)')
        for p in pts:
            cases.append(f'show_r (fun M => show_r (fun v => [sq v]) (calc OQc M {C.zlist(p)})) '
                         f'(ANOVA OQc {I} {yq} {order}%nat)')
        meta.append((rows, y, order, pts, desc))
        for k, v in (('kinds', desc['kind']), ('d', desc['d']), ('order', order)):
            dist[k][str(v)] = dist[k].get(str(v), 0) + 1
    # malformed: order outside {1, 2}
    rows, y, desc = gen_samples(rng)
    for order in (0, 3):
        cases.append(f'show_r show_anova (ANOVA OQc {C.nested(rows, C.zlit)} {qlist(y)} {order}%nat)')
    vals = C.run_cases('C13_stats', HEADER, cases, chunk=24)
    bad, pos = [], 0
    for rows, y, order, pts, desc in meta:
        inp = dict(stream='stats', rows=rows, y=y, order=order)
        R.add_distinct(('stats', rows, y, order))
        scale = max(1.0, max(abs(v) for v in y))
        tol = 1e-12 * scale
        mv = vals[pos]
        pos += 1
        A = tn.ANOVA(np.array(rows, dtype=int), np.array(y, dtype=float), order=order)
        d = A.d
        why = None
        try:
            assert mv[0] == [0], 'model raised'
            hdr, shp = mv[1], mv[2]
            npairs = d * (d - 1) // 2 if order >= 2 else 0
            if hdr != [order, d, npairs] or len(A.f2) != npairs:
                why = f'header {hdr} vs {[order, d, len(A.f2)]}'
            elif shp != [int(s) for s in A.shapes]:
                why = f'shapes {shp} vs {A.shapes}'
            elif mv[3:3 + d] != [[int(v) for v in dm] for dm in A.domain]:
                why = 'domain differs'
            else:
                f0 = fr_list(mv[3 + d])[0]
                if not close(f0, A.f0, tol):
                    why = f'f0 {f0} vs {A.f0}'
                for k in range(d):
                    f1m = fr_list(mv[4 + d + k])
                    f1i = [float(v) for v in A.f1_arr[k]]
                    if len(f1m) != len(f1i) or not all(close(a, b, tol) for a, b in zip(f1m, f1i)):
                        why = why or f'f1[{k}] {f1m} vs {f1i}'
                for num in range(npairs):
                    dims = mv[4 + 2 * d + 2 * num]
                    f2m = fr_list(mv[5 + 2 * d + 2 * num])
                    f2i = [float(v) for v in A.f2_arr[num]]
                    if len(f2m) != len(f2i) or dims[0] * dims[1] != len(f2i) or \
                            not all(close(a, b, 4 * tol) for a, b in zip(f2m, f2i)):
                        why = why or f'f2[{num}] {f2m} vs {f2i}'
        except Exception as e:  # noqa
            why = 'comparison raised ' + repr(e)[:200]
        for p in pts:
            mc = vals[pos]
            pos += 1
            r1 = C.call_impl(A, np.array(p))
            r2 = C.call_impl(A.calc, np.array(p))
            if 77 in p:
                ok = (mc == [[0], [7]]) and r1[0] != 0 and r2[0] != 0
            else:
                ok = mc[0] == [0] and mc[1] == [0] and r1[0] == 0 and r2[0] == 0 and \
                    close(fr_list(mc[2])[0], r1[1], 8 * tol) and close(fr_list(mc[2])[0], r2[1], 8 * tol)
            if not ok:
                why = why or f'calc at {p}: model {mc} impl {r1} / {r2}'
        if why:
            bad.append(dict(stream='stats', input=inp, why=why))
    for order in (0, 3):
        r = C.call_impl(lambda: tn.ANOVA(np.array(rows), np.array(y, dtype=float), order=order) and 0)
        if vals[pos] != [[1]] or r != [1]:
            bad.append(dict(stream='stats', input=dict(stream='stats', rows=rows, y=y, order=order),
                            why=f'order {order}: model {vals[pos]} impl {r}'))
        pos += 1
    _append_corr(R, 'anova_stats', len(cases), bad,
                 'domain/shapes/errors exact; f0,f1,f2,calc: |model(Qc) - impl| <= 1e-12*max|y| (x4 for f2, x8 calc)',
                 dist, dict(stream='anova_stats', input=meta[0][:3], model=vals[0][:6]))
    return bad


PATTERN_FIRST = lambda a, b: b in (0, 1)
PATTERN_MID = lambda a, b: (a, b) in ((0, 0), (1, 1), (0, 1))
PATTERN_LAST = lambda a, b: a in (0, 1)


def corr_cores1(R, ctx, tn):
    """teneva.anova(I, y, r, order=1, noise, seed=auditing generator): cores entrywise + dense export"""
    rng = ctx['rng']
    n_cases = 70 if not ctx['thorough'] else 500
    cases, meta = [], []
    dist = dict(noise={}, r={}, d={}, kinds={})
    for c in range(n_cases):
        rows, y, desc = gen_samples(rng)
        if rng.random() < 0.3:     # data of large magnitude (the noise is absolute, not relative to |y|)
            mag = rng.choice([10 ** 4, 10 ** 8])
            y = [v * mag + mag for v in y]
        r = rng.randint(2, 4)
        noise = rng.choice([0., 0., 2. ** -3, 2. ** -10, 2. ** -20, 1., 1e-10])
        gen = AuditGen(rng.randrange(2 ** 31))
        Y = tn.anova(np.array(rows, dtype=int), np.array(y, dtype=float), r=r, order=1, noise=noise, seed=gen)
        G = qnested([a.tolist() for a in gen.calls])
        term = (f'(anova_tt OQc {C.nested(rows, C.zlit)} {qlist(y)} {r}%nat 1%nat {C.qlit(Fraction(noise))} '
                f'(g4 {G}) skelQ truncQ)')
        cases.append(f'show_r show_tt {term}')
        cases.append(f'show_r show_dense {term}')
        meta.append((rows, y, r, noise, Y, [list(a.shape) for a in gen.calls], desc))
        for k, v in (('noise', noise), ('r', r), ('d', desc['d']), ('kinds', desc['kind'])):
            dist[k][str(v)] = dist[k].get(str(v), 0) + 1
    # r < 2 raises IndexError in both
    rows, y, desc = gen_samples(rng)
    cases.append(f'show_r show_tt (anova_tt OQc {C.nested(rows, C.zlit)} {qlist(y)} 1%nat 1%nat (Q2Qc 0) '
                 f'(g4 []) skelQ truncQ)')
    vals = C.run_cases('C13_cores1', HEADER, cases, chunk=10)
    bad = []
    for c, (rows, y, r, noise, Y, gshapes, desc) in enumerate(meta):
        inp = dict(stream='cores1', rows=rows, y=y, r=r, noise=noise)
        R.add_distinct(('cores1', rows, y, r, noise))
        scale = max(1.0, max(abs(v) for v in y))
        tol = 1e-12 * scale
        mt, md = vals[2 * c], vals[2 * c + 1]
        why = None
        try:
            d = len(Y)
            if mt[0] != [0] or len(mt) != 1 + 2 * d:
                why = f'model result {mt[:2]}'
            elif gshapes != [list(G.shape) for G in Y]:
                why = f'normal() calls {gshapes} vs core shapes {[G.shape for G in Y]}'
            else:
                for k, G in enumerate(Y):
                    shp, ent = mt[1 + 2 * k], fr_list(mt[2 + 2 * k])
                    if shp != list(G.shape):
                        why = why or f'core {k} shape {shp} vs {G.shape}'
                        continue
                    pat = PATTERN_FIRST if k == 0 else (PATTERN_LAST if k == d - 1 else PATTERN_MID)
                    flat = G.reshape(-1)
                    t = 0
                    for a in range(shp[0]):
                        for i in range(shp[1]):
                            for b in range(shp[2]):
                                x, m = float(flat[t]), ent[t]
                                if pat(a, b):
                                    ok = close(m, x, tol)
                                else:   # noise entry: exact for dyadic noise, 2 ulp otherwise
                                    ok = (Fraction(x) == m) if noise != 1e-10 else close(m, x, 5e-16 * abs(x))
                                if not ok:
                                    why = why or f'core {k} entry ({a},{i},{b}): model {float(m)!r} impl {x!r}'
                                t += 1
                full = tn.full(Y)
                dm = fr_list(md[2])
                amax = max(1.0, float(np.max(np.abs(full))))
                if md[1] != list(full.shape) or len(dm) != full.size or \
                        not all(close(m, x, 1e-11 * amax * scale) for m, x in zip(dm, full.reshape(-1))):
                    why = why or 'dense export differs'
        except Exception as e:  # noqa
            why = 'comparison raised ' + repr(e)[:200]
        if why:
            bad.append(dict(stream='cores1', input=inp, why=why))
    rI = C.call_impl(lambda: tn.anova(np.array(rows), np.array(y, dtype=float), r=1, order=1, noise=0., seed=1) and 0)
    if vals[-1] != [[5]] or rI != [5]:
        bad.append(dict(stream='cores1', input=dict(stream='cores1', rows=rows, y=y, r=1, noise=0.),
                        why=f'r=1: model {vals[-1]} impl {rI}'))
    _append_corr(R, 'anova_order1_cores', len(cases), bad,
                 'core shapes exact; pattern entries |model(Qc)-impl| <= 1e-12*max|y|; noise entries exact '
                 '(dyadic noise) ; dense export 1e-11 relative', dist,
                 dict(stream='anova_order1_cores', input=dict(rows=meta[0][0], y=meta[0][1], r=meta[0][2],
                                                              noise=meta[0][3]), model=vals[0][:3]))
    return bad


def _dense_and_ranks(tn, rows, y, r, dense=True):
    Y = tn.anova(np.array(rows, dtype=int), np.array(y, dtype=float), r=r, order=2, noise=0., seed=1)
    return [tn.full(Y) if dense else [], ranks_of(Y), [int(G.shape[1]) for G in Y]]


def corr_order2(R, ctx, tn):
    """teneva.anova(..., order=2, noise=0) with r large enough for the exact TT-rank: dense export vs the model
    (Qc, exact skeleton U=A, V=I, no truncation) within 1e-8*scale; ranks <= r; shapes"""
    rng = ctx['rng']
    n_cases = 40 if not ctx['thorough'] else 250
    cases, meta = [], []
    dist = dict(d={}, kinds={}, r={})
    while len(meta) < n_cases:
        rows, y, desc = gen_samples(rng, nmax=3)
        shp = [len(set(r[k] for r in rows)) for k in range(desc['d'])]
        r = lossless_rank(shp) + rng.randint(0, 1)
        gen = AuditGen(rng.randrange(2 ** 31))
        Y = tn.anova(np.array(rows, dtype=int), np.array(y, dtype=float), r=r, order=2, noise=0., seed=gen)
        term = (f'(anova_tt OQc {C.nested(rows, C.zlit)} {qlist(y)} {r}%nat 2%nat (Q2Qc 0) '
                f'(g4 []) skelQ truncQ)')
        cases.append(f'show_r show_dense {term}')
        meta.append((rows, y, r, Y, desc))
        for k, v in (('r', r), ('d', desc['d']), ('kinds', desc['kind'])):
            dist[k][str(v)] = dist[k].get(str(v), 0) + 1
    # ANOVA.cores(only_near=True): the matrices are taken by a running counter (not by pair number), so for d >= 3
    # the reshape raises ValueError unless the sizes happen to agree; the model mirrors exactly that
    near = []
    for c in range(12 if not ctx['thorough'] else 60):
        rows, y, desc = gen_samples(rng, nmax=3, dmax=4)
        shp = [len(set(r_[k] for r_ in rows)) for k in range(desc['d'])]
        r = lossless_rank(shp) + 1
        A = tn.ANOVA(np.array(rows, dtype=int), np.array(y, dtype=float), order=2, seed=1)
        res = C.call_impl(lambda: tn.full(A.cores(r=r, noise=0., only_near=True)))
        cases.append(f'show_r show_dense (rbind (ANOVA OQc {C.nested(rows, C.zlit)} {qlist(y)} 2%nat) '
                     f'(fun M => cores OQc M {r}%nat (Q2Qc 0) true (g4 []) skelQ truncQ))')
        near.append((rows, y, r, res))
        dist['only_near'] = dist.get('only_near', 0) + 1
    # d = 6 (15 pair tensors: the periodic rounding of add_many, every 15 summands, falls on the last one) and d = 7
    # (21, control), mode sizes 2, r at / above the exact rank 8: dense vs the model; and with r = 2, 3 (below the exact
    # rank): mode sizes and TT-ranks <= r, which only the final truncate(Y, e, r) call enforces
    big, capped = [], []
    for dd, rr, m in ((6, 8, None), (6, 9, 24), (7, 8, 30)) if not ctx['thorough'] else \
            ((6, 8, None), (6, 9, 24), (6, 8, 40), (7, 8, 30), (7, 9, None), (7, 8, 60)):
        rows, y = gen_binary(rng, dd, m)
        res = C.call_impl(lambda: _dense_and_ranks(tn, rows, y, rr))
        cases.append(f'show_r show_dense (anova_tt OQc {C.nested(rows, C.zlit)} {qlist(y)} {rr}%nat 2%nat (Q2Qc 0) '
                     f'(g4 []) skelQ truncQ)')
        big.append((rows, y, rr, res))
        dist['d'][str(dd)] = dist['d'].get(str(dd), 0) + 1
    for dd in (6, 6, 7, 6, 7, 10):
        rows, y = gen_binary(rng, dd, rng.choice([None, 20, 40]) if dd < 10 else 60)
        rr = rng.choice([2, 3, 4])
        capped.append((rows, y, rr, C.call_impl(lambda: _dense_and_ranks(tn, rows, y, rr, dense=False))))
        dist['rank_cap_d'] = dist.get('rank_cap_d', {})
        dist['rank_cap_d'][str(dd)] = dist['rank_cap_d'].get(str(dd), 0) + 1
    vals = C.run_cases('C13_order2', HEADER, cases, chunk=4)
    bad = []
    for c, (rows, y, r, res) in enumerate(big):
        md = vals[len(meta) + len(near) + c]
        inp = dict(stream='order2_big', rows=rows, y=y, r=r)
        R.add_distinct(('order2_big', rows, y, r))
        scale = max(1.0, max(abs(v) for v in y))
        why = None
        if res[0] != 0:
            why = f'implementation raised (error class {res[0]})'
        else:
            full, rk, shp = np.array(res[1][0], dtype=float), res[1][1], res[1][2]
            if md[0] != [0] or md[1] != list(full.shape) or shp != md[1]:
                why = f'shape: model {md[:2]} impl {shp}'
            elif not all(close(m_, x, 1e-8 * scale) for m_, x in zip(fr_list(md[2]), full.reshape(-1))):
                err = max(abs(float(m_) - float(x)) for m_, x in zip(fr_list(md[2]), full.reshape(-1)))
                why = f'd={len(rows[0])}: dense export differs from the model by {err:.3e}'
            elif max(rk) > r or rk[-1] != 1:
                why = f'd={len(rows[0])}: ranks {rk} exceed r={r}'
        if why:
            bad.append(dict(stream='order2_big', input=inp, why=why))
    for rows, y, r, res in capped:
        inp = dict(stream='order2_cap', rows=rows, y=y, r=r)
        R.add_distinct(('order2_cap', rows, y, r))
        why = None
        if res[0] != 0:
            why = f'implementation raised (error class {res[0]})'
        else:
            rk, shp = res[1][1], res[1][2]
            if shp != [2] * len(rows[0]):
                why = f'mode sizes {shp}'
            elif max(rk) > r or rk[-1] != 1 or rk[0] != 1:
                why = f'd={len(rows[0])} ({len(rows[0]) * (len(rows[0]) - 1) // 2} pair tensors): TT-ranks {rk} exceed r={r}'
        if why:
            bad.append(dict(stream='order2_cap', input=inp, why=why))
    for c, (rows, y, r, res) in enumerate(near):
        md = vals[len(meta) + c]
        inp = dict(stream='order2_near', rows=rows, y=y, r=r)
        R.add_distinct(('order2_near', rows, y, r))
        scale = max(1.0, max(abs(v) for v in y))
        if res[0] != 0:
            ok = md == [[res[0]]]
        else:
            full = np.array(res[1], dtype=float)
            ok = md[0] == [0] and md[1] == list(full.shape) and \
                all(close(m, x, 1e-8 * scale) for m, x in zip(fr_list(md[2]), full.reshape(-1)))
        if not ok:
            bad.append(dict(stream='order2_near', input=inp,
                            why=f'only_near: model {md[:2]} impl {res[0] if res[0] else "ok"}'))
    for c, (rows, y, r, Y, desc) in enumerate(meta):
        inp = dict(stream='order2', rows=rows, y=y, r=r)
        R.add_distinct(('order2', rows, y, r))
        scale = max(1.0, max(abs(v) for v in y))
        md = vals[c]
        why = None
        try:
            full = tn.full(Y)
            dm = fr_list(md[2])
            if md[0] != [0] or md[1] != list(full.shape) or len(dm) != full.size:
                why = f'shape: model {md[:2]} impl {full.shape}'
            elif not all(close(m, x, 1e-8 * scale) for m, x in zip(dm, full.reshape(-1))):
                err = max(abs(float(m) - float(x)) for m, x in zip(dm, full.reshape(-1)))
                why = f'dense export differs by {err:.3e}'
            elif max(ranks_of(Y)) > r or ranks_of(Y)[-1] != 1:
                why = f'ranks {ranks_of(Y)} exceed r={r}'
        except Exception as e:  # noqa
            why = 'comparison raised ' + repr(e)[:200]
        if why:
            bad.append(dict(stream='order2', input=inp, why=why))
    _append_corr(R, 'anova_order2_dense', len(cases), bad,
                 'dense export of teneva.anova(order=2, noise=0, r >= exact rank) vs model over Qc with exact '
                 'skeleton and no truncation: 1e-8*max|y|; ranks <= r', dist,
                 dict(stream='anova_order2_dense', input=dict(rows=meta[0][0], y=meta[0][1], r=meta[0][2]),
                      model=vals[0][:2]))
    return bad


FUNC_FAMILIES = ['generic', 'generic', 'generic', 'const_inexact', 'const_exact', 'tiny18', 'tiny100', 'tiny300',
                 'huge100', 'huge200', 'mixed_tiny']
NO_ROUNDING = ('tiny300', 'huge200')   # truncate squares the entries: under/overflow there is not C13's subject


def gen_func(rng, family='generic'):
    """(X, y, n, a, b, lamb, d).  Families: generic; constant data whose mean is / is not exactly representable
    (fitted higher coefficients are exactly zero / rounding noise ~1e-17..1e-25: the 1e-16 branch of tensors.delta);
    data at scale 1e-18, 1e-100, 1e-300 (every coefficient below the 1e-16 threshold), 1e100, 1e200; one tiny
    deviation on top of O(1) data."""
    d = rng.randint(2, 3)
    n = rng.randint(2, 4)
    small = family not in ('generic',)
    m = rng.randint(n + 3, n + (5 if small else 8))
    box = rng.choice([(-1., 1.), (-1., 1.), (0., 2.), (-2., 2.), (-1., 3.)])
    a, b = box
    X = [[a + (b - a) * rng.randint(0, 16) / 16. for _ in range(d)] for _ in range(m)]
    if rng.random() < 0.15:   # points outside the box are clipped by poi_scale
        X[rng.randrange(m)][rng.randrange(d)] = b + 0.5
    if family == 'const_inexact':
        y = [rng.choice([0.1, -0.7, 1. / 3., 0.3, 1e-3, -2.6])] * m
    elif family == 'const_exact':
        y = [rng.choice([2., -0.75, 0., 5.])] * m
    elif family in ('tiny18', 'tiny100', 'tiny300', 'huge100', 'huge200'):
        sc = {'tiny18': 1e-18, 'tiny100': 1e-100, 'tiny300': 1e-300, 'huge100': 1e100, 'huge200': 1e200}[family]
        y = [rng.randint(-16, 16) * sc for _ in range(m)]
        if all(v == 0 for v in y):
            y[0] = sc
    elif family == 'mixed_tiny':
        y = [1.5] * m
        y[rng.randrange(m)] += rng.choice([2. ** -52, 2. ** -51, -2. ** -52])
    else:
        y = [rng.randint(-16, 16) / 4. for _ in range(m)]
    # the regularisation value at its boundaries: exactly zero (int and float), tiny, default, large
    lamb = rng.choice([0, 0., 0., 1e-300, 1e-16, 1e-7, 1e-7, 2. ** -10, 2. ** -4, 1., 1e3, 1e10])
    return X, y, n, a, b, lamb, d


class LstsqRecorder:
    def __init__(self):
        import scipy.linalg
        self.mod = scipy.linalg
        self.orig = scipy.linalg.lstsq
        self.calls = []

    def __enter__(self):
        def wrapped(A, B, *a, **k):
            A0, B0 = np.array(A, dtype=float, copy=True), np.array(B, dtype=float, copy=True)
            res = self.orig(A, B, *a, **k)
            self.calls.append((A0, B0, np.array(res[0], copy=True)))
            return res
        self.mod.lstsq = wrapped
        return self

    def __exit__(self, *a):
        self.mod.lstsq = self.orig


class DeltaRecorder:
    """records every teneva.delta(n, i, v) call made through the package attribute (as anova_func.py does)"""

    def __init__(self, tn):
        self.tn, self.orig, self.calls = tn, tn.delta, []

    def __enter__(self):
        def wrapped(n, i, v=1.):
            Y = self.orig(n, i, v)
            self.calls.append((list(n), [int(t) for t in i], float(v), [np.array(G, copy=True) for G in Y]))
            return Y
        self.tn.delta = wrapped
        return self

    def __exit__(self, *a):
        self.tn.delta = self.orig


def delta_contract(call):
    """the contract assumed of tensors.delta by C13_cores_pre_get (s * w^d = v), checked on the returned cores:
    rank-1 cores of shape (1, n_k, 1), zero outside position i_k, product of the d non-zero entries = v
    (exactly when |v| <= 1e-16: the code then uses s = v, w = 1; within d ulp-ish 1e-13 relative otherwise)"""
    ns, idx, v, Y = call
    if len(Y) != len(ns):
        return f'{len(Y)} cores for d={len(ns)}'
    prod = Fraction(1)
    for k, G in enumerate(Y):
        if G.shape != (1, ns[k], 1):
            return f'core {k} has shape {G.shape}'
        col = G[0, :, 0]
        if any(col[t] != 0. for t in range(ns[k]) if t != idx[k]):
            return f'core {k} is not zero outside position {idx[k]}'
        if not math.isfinite(float(col[idx[k]])):
            return f'core {k} entry is not finite'
        prod *= Fraction(float(col[idx[k]]))
    if abs(v) <= 1e-16:
        if prod != Fraction(v):
            return f'product of the entries {float(prod)!r} != v = {v!r} (|v| <= 1e-16 branch: s = v, w = 1)'
    elif abs(float(prod - Fraction(v))) > 1e-13 * abs(v):
        return f'product of the entries {float(prod)!r} != v = {v!r}'
    return None


def corr_func(R, ctx, tn):
    """anova_func: normal equations of the model (Qc) vs the recorded lstsq calls (matrix 1e-12, rhs 1e-12*m*max|y|,
    residual of the recorded solution in the model's system), contract of every recorded tensors.delta call, dense
    coefficient tensor (e=None: 1e-12 relative to the largest coefficient; default e: 1e-7 relative in norm),
    HISTORY: coeffs / cores() called again on the same ANOVA_func object and the module function called again give
    bit-identical results"""
    rng = ctx['rng']
    n_cases = 44 if not ctx['thorough'] else 264
    cases, meta = [], []
    dist = dict(d={}, n={}, lamb={}, family={})
    for c in range(n_cases):
        family = FUNC_FAMILIES[c % len(FUNC_FAMILIES)]
        X, y, n, a, b, lamb, d = gen_func(rng, family)
        # argument forms: X / y / a / b / n / lamb as list, ndarray of several dtypes, Python or NumPy scalars; the model
        # and every reference below use the exact values the passed objects denote
        wide = family in ('tiny18', 'tiny100', 'tiny300', 'huge100', 'huge200', 'mixed_tiny')
        xform = rng.choice(X_FORMS)
        yform = rng.choice(['list', 'f64'] if wide else ['list', 'f64', 'f32', 'f16'] +
                           (['i64', 'i32', 'pyint'] if all(float(v) == int(v) for v in y) else []))
        abform, nform = rng.choice(AB_FORMS), rng.choice(S_FORMS)
        Xa0 = form_X(X, xform)
        X = [[float(v) for v in row] for row in np.array(Xa0, dtype=float)]
        ya0, y = form_y(y, yform)
        aa, ba, na = form_ab(a, d, abform), form_ab(b, d, abform), form_s(n, nform)
        lamb_a = np.float64(lamb) if (nform != 'py' and not isinstance(lamb, int)) else lamb
        Xa, ya = Xa0, ya0
        Xsnap, ysnap = np.array(Xa0, copy=True), np.array(ya0, copy=True)
        hist = []
        with LstsqRecorder() as rec, DeltaRecorder(tn) as drec:
            F = tn.ANOVA_func(Xa, ya, na, aa, ba, lamb_a)
            cf1 = [np.array(c_, dtype=float).reshape(-1).copy() for c_ in F.coeffs]
            Yn = F.cores(e=None)
            ncalls1 = len(rec.calls)
            cf2 = [np.array(c_, dtype=float).reshape(-1).copy() for c_ in F.coeffs]
            Yn2 = F.cores(e=None)
            cf3 = [np.array(c_, dtype=float).reshape(-1).copy() for c_ in F.coeffs]
            if len(rec.calls) != ncalls1:
                hist.append('coeffs were recomputed on the second call')
            calls = rec.calls[:ncalls1]
            dcalls = list(drec.calls)
        Ym = tn.anova_func(Xa, ya, na, aa, ba, lamb_a, e=None)
        Ym2 = tn.anova_func(Xa, ya, na, aa, ba, lamb_a, e=None)
        for nm, u, w in (('coeffs after cores()', cf1, cf2), ('coeffs after 2nd cores()', cf1, cf3)):
            if len(u) != len(w) or not all(np.array_equal(p_, q_) for p_, q_ in zip(u, w)):
                hist.append(f'{nm} differ from the first coeffs')
        fn = tn.full(Yn)
        for nm, Z in (('2nd cores(e=None) on the same object', Yn2), ('anova_func(e=None)', Ym),
                      ('2nd anova_func(e=None)', Ym2)):
            if not np.array_equal(tn.full(Z), fn):
                hist.append(f'{nm} differs from the first cores(e=None)')
        if not np.array_equal(np.array(Xa), Xsnap) or not np.array_equal(np.array(ya), ysnap):
            hist.append('arguments were modified')
        Ye = None if family in NO_ROUNDING else tn.anova_func(Xa, ya, na, aa, ba, lamb_a)
        REC = qnested([c_[2].tolist() for c_ in calls])
        args = (f'{qnested(X)} {qlist(y)} {n}%nat {qlist([a] * d)} {qlist([b] * d)} {C.qlit(Fraction(lamb))}')
        cases.append(f'show_sys (systems OQc {args})')
        cases.append(f'show_dense (anova_func OQc {args} (fun i _ _ => nth i {REC} []) splitQ None)')
        meta.append((X, y, n, a, b, lamb, d, calls, Yn, Ye, dcalls, hist,
                     (family, dict(xform=xform, yform=yform, abform=abform, nform=nform))))
        for k, v in (('d', d), ('n', n), ('lamb', lamb), ('family', family), ('xform', xform), ('yform', yform),
                     ('abform', abform), ('nform', nform)):
            dist.setdefault(k, {})
            dist[k][str(v)] = dist[k].get(str(v), 0) + 1
    vals = C.run_cases('C13_func', HEADER, cases, chunk=6)
    bad = []
    for c, (X, y, n, a, b, lamb, d, calls, Yn, Ye, dcalls, hist, (family, forms)) in enumerate(meta):
        inp = dict(stream='func', X=X, y=y, n=n, a=a, b=b, lamb=lamb, family=family, forms=forms)
        R.add_distinct(('func', X, y, n, a, b, lamb))
        ms, md = vals[2 * c], vals[2 * c + 1]
        why = hist[0] if hist else None
        try:
            ymax = max(abs(v) for v in y)
            if len(calls) != d or len(ms) != 3 * d:
                why = why or f'{len(calls)} lstsq calls, {len(ms) // 3} model systems, d={d}'
            else:
                xmax = 0.
                for i, (N, rhs, x) in enumerate(calls):
                    Nm, rm = fr_list(ms[3 * i + 1]), fr_list(ms[3 * i + 2])
                    scN = max(1.0, float(np.max(np.abs(N))))
                    scr = len(y) * ymax
                    if ms[3 * i] != [n, n] or N.shape != (n, n) or \
                            not all(close(p, q, 1e-12 * scN) for p, q in zip(Nm, N.reshape(-1))):
                        why = why or f'normal matrix {i} differs'
                    if len(rm) != len(rhs) or not all(close(p, q, 1e-12 * scr) for p, q in zip(rm, rhs)):
                        why = why or f'right-hand side {i} differs'
                    # contract of the solver oracle on the model's own system
                    xs = [Fraction(float(v)) for v in x]
                    xmax = max(xmax, float(np.max(np.abs(x))))
                    res = max(abs(float(sum(Nm[p * n + q] * xs[q] for q in range(n)) - rm[p])) for p in range(n))
                    if res > 1e-9 * (scr + n * scN * float(np.max(np.abs(x)))):   # backward stability, any lamb >= 0
                        why = why or f'recorded lstsq solution {i} does not solve the normal equations: {res:.2e}'
                # contract of tensors.delta on every recorded call: 1 + d*(n-1) calls
                if len(dcalls) != 2 * (1 + d * (n - 1)):
                    why = why or f'{len(dcalls)} delta calls for two cores() calls, expected {2 * (1 + d * (n - 1))}'
                for dc in dcalls:
                    w = delta_contract(dc)
                    if w:
                        why = why or f'tensors.delta({dc[0]}, {dc[1]}, {dc[2]!r}): {w}'
                full = tn.full(Yn)
                dm = fr_list(md[1])
                sc = max([ymax, xmax] + [abs(float(v)) for v in dm])
                if md[0] != list(full.shape) or not all(close(m, x, 1e-12 * sc) for m, x in zip(dm, full.reshape(-1))):
                    err = max(abs(float(m) - float(x)) for m, x in zip(dm, full.reshape(-1)))
                    why = why or f'coefficient tensor (e=None) differs from the model by {err:.3e} (scale {sc:.3e})'
                if Ye is not None:
                    fe = tn.full(Ye)
                    if fe.shape != full.shape or \
                            not float(np.linalg.norm(fe - full)) <= 1e-7 * float(np.linalg.norm(full)):
                        why = why or 'coefficient tensor (default e) differs from the unrounded one'
        except Exception as e:  # noqa
            why = why or 'comparison raised ' + repr(e)[:200]
        if why:
            bad.append(dict(stream='func', input=inp, why=why))
    _append_corr(R, 'anova_func', len(cases), bad,
                 'normal equations model(Qc) vs recorded lstsq arguments 1e-12; solver contract residual; contract of '
                 'every recorded tensors.delta call (product of entries = v, exact below the 1e-16 threshold); dense '
                 'coefficient tensor 1e-12 relative (e=None) and 1e-7 relative (default e); repeated coeffs / cores() '
                 '/ anova_func calls bit-identical', dist,
                 dict(stream='anova_func', input=dict(X=meta[0][0], y=meta[0][1], n=meta[0][2]), model=vals[1][:1]))
    return bad


def corr_argforms(R, ctx, tn):
    """ARGUMENT FORMS: ANOVA / anova with y as list, float64 / float32 / float16 / int64 / int32 ndarray or Python
    ints, I as list of lists, int64 / int32 / uint8 ndarray or a float array holding integers, r / order / noise as
    Python or NumPy scalars.  The model (Qc) is evaluated on the exact rationals the passed values denote; f0, f1,
    f2 and the dense order-1 tensor must agree to double precision (1e-12 relative)."""
    rng = ctx['rng']
    n_cases = 42 if not ctx['thorough'] else 280
    cases, meta = [], []
    dist = dict(yform={}, iform={}, sform={}, order={})
    for c in range(n_cases):
        rows, yobj, yex, Iobj, desc = gen_forms_anova(rng)
        if c < len(Y_FORMS) * 2:     # every y form at least twice
            desc['yform'] = Y_FORMS[c % len(Y_FORMS)]
            yobj, yex = form_y(yex, desc['yform'])
        order, r = rng.choice([1, 2]), rng.randint(2, 4)
        sform = rng.choice(S_FORMS)
        res = C.call_impl(lambda: _argform_run(tn, Iobj, yobj, form_s(order, sform), form_s(r, sform),
                                               form_s(0., sform, integer=False)))
        Iq, yq = C.nested(rows, C.zlit), qlist(yex)
        cases.append(f'show_r show_anova (ANOVA OQc {Iq} {yq} {order}%nat)')
        cases.append(f'show_r show_dense (anova_tt OQc {Iq} {yq} {r}%nat 1%nat (Q2Qc 0) (g4 []) skelQ truncQ)')
        meta.append((rows, yex, order, r, desc, sform, res))
        for k, v in (('yform', desc['yform']), ('iform', desc['iform']), ('sform', sform), ('order', order)):
            dist[k][str(v)] = dist[k].get(str(v), 0) + 1
    vals = C.run_cases('C13_argforms', HEADER, cases, chunk=10)
    bad = []
    for c, (rows, yex, order, r, desc, sform, res) in enumerate(meta):
        inp = dict(stream='argforms', rows=rows, y=yex, order=order, r=r, yform=desc['yform'], iform=desc['iform'],
                   sform=sform)
        R.add_distinct(('argforms', rows, yex, order, r, desc['yform'], desc['iform'], sform))
        mv, md = vals[2 * c], vals[2 * c + 1]
        scale = max(abs(v) for v in yex) or 1.0
        tol = 1e-12 * scale
        why = None
        try:
            if res[0] != 0:
                why = f'implementation raised (error class {res[0]})'
            else:
                f0, f1a, f2a, dom, full = res[1]
                d = len(rows[0])
                npairs = d * (d - 1) // 2 if order >= 2 else 0
                if mv[0] != [0] or mv[1] != [order, d, npairs] or len(f2a) != npairs:
                    why = f'header: model {mv[:2]} impl pairs {len(f2a)}'
                elif mv[3:3 + d] != [[int(v) for v in dm] for dm in dom] or \
                        any(float(v) != int(v) for dm in dom for v in dm):
                    why = f'domain: model {mv[3:3 + d]} impl {dom}'
                else:
                    if not close(fr_list(mv[3 + d])[0], f0, tol):
                        why = f'f0: model {float(fr_list(mv[3 + d])[0])!r} impl {f0!r}'
                    for k in range(d):
                        f1m = fr_list(mv[4 + d + k])
                        if len(f1m) != len(f1a[k]) or not all(close(a_, b_, 2 * tol) for a_, b_ in zip(f1m, f1a[k])):
                            why = why or f'f1[{k}]: model {[float(v) for v in f1m]} impl {f1a[k]}'
                    for num in range(npairs):
                        f2m = fr_list(mv[5 + 2 * d + 2 * num])
                        if len(f2m) != len(f2a[num]) or not all(close(a_, b_, 4 * tol) for a_, b_ in zip(f2m, f2a[num])):
                            why = why or f'f2[{num}] differs'
                    fa = np.array(full, dtype=float)
                    dm_ = fr_list(md[2]) if md[0] == [0] else []
                    if md[0] != [0] or md[1] != list(fa.shape) or \
                            not all(close(a_, b_, 10 * tol) for a_, b_ in zip(dm_, fa.reshape(-1))):
                        why = why or 'dense order-1 tensor of teneva.anova differs from the model'
        except Exception as e:  # noqa
            why = why or 'comparison raised ' + repr(e)[:200]
        if why:
            bad.append(dict(stream='argforms', input=inp, why=why))
    _append_corr(R, 'anova_argforms', len(cases), bad,
                 'ANOVA / anova called with every argument form; f0, f1, f2, dense order-1 tensor vs the model on the '
                 'exact values denoted by the passed arrays: 1e-12 relative to max|y|; domain exact', dist,
                 dict(stream='anova_argforms', input=dict(rows=meta[0][0], y=meta[0][1], forms=meta[0][4]),
                      model=vals[0][:4]))
    return bad


def _argform_run(tn, Iobj, yobj, order, r, noise):
    A = tn.ANOVA(Iobj, yobj, order=order, seed=3)
    Y = tn.anova(Iobj, yobj, r=r, order=1, noise=noise, seed=3)
    return [float(A.f0), [[float(v) for v in a_] for a_ in A.f1_arr], [[float(v) for v in a_] for a_ in A.f2_arr],
            [[float(v) for v in dm] for dm in A.domain], tn.full(Y)]


def _state(A):
    """snapshot of the fitted state of an ANOVA object (exact)"""
    return dict(f0=float(A.f0), domain=[[int(v) for v in dm] for dm in A.domain], shapes=[int(v) for v in A.shapes],
                f1=[{int(k): float(v) for k, v in cur.items()} for cur in A.f1],
                f2=[{(int(k[0]), int(k[1])): float(v) for k, v in cur.items()} for cur in A.f2],
                order=int(A.order), d=int(A.d))


def _state_diff(A, S):
    """None if the state of A equals the snapshot S and the cached arrays f1_arr / f2_arr agree with f1 / f2"""
    T = _state(A)
    for k in S:
        if T[k] != S[k]:
            return f'attribute {k} changed'
    for k, (dm, arr) in enumerate(zip(A.domain, A.f1_arr)):
        want = [S['f1'][k][int(x)] for x in dm]
        if [float(v) for v in arr] != want:
            return f'f1_arr[{k}] = {[float(v) for v in arr]} is not f1[{k}] in domain order = {want}'
    if S['order'] >= 2:
        num = 0
        for k1 in range(S['d'] - 1):
            for k2 in range(k1 + 1, S['d']):
                want = [S['f2'][num][int(x1), int(x2)] for x1 in A.domain[k1] for x2 in A.domain[k2]]
                if [float(v) for v in A.f2_arr[num]] != want:
                    return f'f2_arr[{num}] is not f2[{num}] in domain order'
                num += 1
    return None


def corr_history(R, ctx, tn):
    """HISTORY: on ONE ANOVA object, 2-4 calls of cores(r_j, noise=0) / calc / __call__ with varying r; every result is
    compared with the (stateless) model, and after every call the fitted state (f0, f1, f2, domain, shapes) must be
    exactly what it was after the build, with f1_arr / f2_arr equal to f1 / f2 in domain order.  Also teneva.anova
    called twice with the same arguments (bit-identical, arguments unchanged)."""
    rng = ctx['rng']
    n_cases = 30 if not ctx['thorough'] else 200
    cases, meta = [], []
    dist = dict(order={}, d={}, ncalls={})
    for c in range(n_cases):
        rows, y, desc = gen_samples(rng, nmax=3)
        order = rng.choice([1, 1, 2])
        shp = [len(set(r_[k] for r_ in rows)) for k in range(desc['d'])]
        I, yy = np.array(rows, dtype=int), np.array(y, dtype=float)
        A = tn.ANOVA(I, yy, order=order, seed=rng.randrange(2 ** 31))
        S = _state(A)
        if c % 2 == 0:
            A.f1_arr  # the cache exists before the first call in half of the cases
        ncalls = rng.randint(2, 4)
        steps = []
        Iq, yq = C.nested(rows, C.zlit), qlist(y)
        for t in range(ncalls):
            r = (lossless_rank(shp) + rng.randint(0, 1)) if order == 2 else rng.randint(2, 4)
            res = C.call_impl(lambda: tn.full(A.cores(r=r, noise=0.)))
            st = _state_diff(A, S)
            pt = rng.choice(rows)
            cv = C.call_impl(A.calc, np.array(pt))
            st = st or _state_diff(A, S)
            cases.append(f'show_r show_dense (anova_tt OQc {Iq} {yq} {r}%nat {order}%nat (Q2Qc 0) (g4 []) skelQ truncQ)')
            cases.append(f'show_r (fun M => show_r (fun v => [[0]; sq v]) (calc OQc M {C.zlist(pt)})) '
                         f'(ANOVA OQc {Iq} {yq} {order}%nat)')
            steps.append((r, res, st, pt, cv))
        # the module function twice
        Y1 = tn.anova(I, yy, r=3, order=order, noise=0., seed=5)
        Y2 = tn.anova(I, yy, r=3, order=order, noise=0., seed=5)
        again = None
        if len(Y1) != len(Y2) or not all(np.array_equal(p_, q_) for p_, q_ in zip(Y1, Y2)):
            again = 'teneva.anova called twice with the same arguments gives different cores'
        if not np.array_equal(I, np.array(rows, dtype=int)) or not np.array_equal(yy, np.array(y, dtype=float)):
            again = again or 'teneva.anova / ANOVA modified its arguments'
        meta.append((rows, y, order, steps, again, desc))
        for k, v in (('order', order), ('d', desc['d']), ('ncalls', ncalls)):
            dist[k][str(v)] = dist[k].get(str(v), 0) + 1
    vals = C.run_cases('C13_history', HEADER, cases, chunk=6)
    bad, pos = [], 0
    for rows, y, order, steps, again, desc in meta:
        scale = max(1.0, max(abs(v) for v in y))
        why = again
        for t, (r, res, st, pt, cv) in enumerate(steps):
            md, mc = vals[pos], vals[pos + 1]
            pos += 2
            R.add_distinct(('history', rows, y, order, t, r))
            if st:
                why = why or f'state after call {t + 1} (cores(r={r}) / calc): {st}'
            try:
                if res[0] != 0 or md[0] != [0]:
                    why = why or f'call {t + 1}: cores(r={r}) impl {res[0]} model {md[0]}'
                else:
                    full = np.array(res[1], dtype=float)
                    tol = (1e-11 if order == 1 else 1e-8) * scale
                    dm = fr_list(md[2])
                    if md[1] != list(full.shape) or len(dm) != full.size or \
                            not all(close(m, x, tol) for m, x in zip(dm, full.reshape(-1))):
                        err = max(abs(float(m) - float(x)) for m, x in zip(dm, full.reshape(-1))) \
                            if len(dm) == full.size else -1.
                        why = why or f'call {t + 1} of cores (r={r}) on the same object differs from the model by {err:.3e}'
                if cv[0] != 0 or mc[:3] != [[0], [0], [0]] or not close(fr_list(mc[3])[0], cv[1], 1e-11 * scale):
                    why = why or f'call {t + 1}: calc({pt}) impl {cv} model {mc}'
            except Exception as e:  # noqa
                why = why or 'comparison raised ' + repr(e)[:200]
        if why:
            bad.append(dict(stream='history', input=dict(stream='history', rows=rows, y=y, order=order,
                                                         r=[s_[0] for s_ in steps]), why=why))
    _append_corr(R, 'anova_history', len(cases), bad,
                 'repeated cores(r_j, noise=0) / calc on one ANOVA object vs the stateless model (dense 1e-11 order 1, '
                 '1e-8 order 2); fitted state and cached f1_arr / f2_arr exactly unchanged after every call; '
                 'teneva.anova twice bit-identical', dist,
                 dict(stream='anova_history', input=dict(rows=meta[0][0], y=meta[0][1], order=meta[0][2],
                                                         r=[s_[0] for s_ in meta[0][3]]), model=vals[0][:2]))
    return bad


def correspondence(R, ctx):
    tn = C.import_teneva()
    bad = []
    with np.errstate(all='ignore'):
        bad += corr_pair_num(R, ctx, tn)
        bad += corr_stats(R, ctx, tn)
        bad += corr_cores1(R, ctx, tn)
        bad += corr_order2(R, ctx, tn)
        bad += corr_history(R, ctx, tn)
        bad += corr_argforms(R, ctx, tn)
        bad += corr_func(R, ctx, tn)
    return bad


# ----------------------------------------------------------------------------
# search: property-level oracle on the implementation, independent of the model
# ----------------------------------------------------------------------------

def oracle_anova(tn, rows, y, r, order, noise, seed=1, forms=None):
    """returns a failure dict or None.  forms = dict(yform, iform, sform): how the arguments are handed over; the
    reference is computed in exact arithmetic from the values the passed objects denote"""
    inp = dict(kind='anova', rows=rows, y=y, r=r, order=order, noise=noise, seed=seed)
    if forms:
        inp['forms'] = forms
        yy, y = form_y(y, forms['yform'])
        I = form_I(rows, forms['iform'])
        inp['y'] = y
        r_, order_ = form_s(r, forms['sform']), form_s(order, forms['sform'])
    else:
        I, yy = np.array(rows, dtype=int), np.array(y, dtype=float)
        r_, order_ = r, order
    scale = max(1.0, max(abs(v) for v in y))
    dom, f0, f1, f2 = ref_model(rows, y, order)
    d = len(dom)
    shp = [len(x) for x in dom]
    try:
        genA, genF = MaxGen(seed), MaxGen(seed + 1)
        A = tn.ANOVA(I, yy, order=order_, seed=genA)
        Y = A.cores(r=r_, noise=noise)
        Y2 = A.cores(r=r_, noise=noise)          # history: the same object asked again
        Y3 = A.cores(r=r + 1, noise=noise)
        Yf = tn.anova(I, yy, r=r_, order=order_, noise=noise, seed=genF)
        gmax = max(genA.gmax, genF.gmax)
    except Exception as e:  # noqa
        return dict(what='anova raised on valid samples: ' + repr(e)[:200], input=inp)
    tol = 1e-10 * scale
    # statistics
    if [list(map(int, x)) for x in A.domain] != dom:
        return dict(what='ANOVA.domain is not the sorted list of observed index values', input=inp,
                    got=[list(map(int, x)) for x in A.domain], expected=dom)
    if not close(f0, A.f0, tol):
        return dict(what='ANOVA.f0 is not the sample mean', input=inp, got=float(A.f0), expected=float(f0))
    for k in range(d):
        for x in dom[k]:
            if not close(f1[k][x], A.f1[k][x], tol):
                return dict(what=f'ANOVA.f1[{k}][{x}] is not the conditional mean minus f0', input=inp,
                            got=float(A.f1[k][x]), expected=float(f1[k][x]))
    for k in range(d):   # the cached array form, after several cores() calls
        got = [float(v) for v in A.f1_arr[k]]
        if len(got) != len(dom[k]) or not all(close(f1[k][x], g_, tol) for x, g_ in zip(dom[k], got)):
            return dict(what=f'ANOVA.f1_arr[{k}] after repeated cores() calls is not the conditional mean minus f0',
                        input=inp, got=got, expected=[float(f1[k][x]) for x in dom[k]])
    if order >= 2:
        for (k1, k2), cur in f2.items():
            num = A.pair_num_to_num(k1, k2)
            for key, v in cur.items():
                if not close(v, A.f2[num][key], 4 * tol):
                    return dict(what=f'ANOVA.f2 for pair {(k1, k2)} at {key} wrong (pair numbering or value)',
                                input=inp, got=float(A.f2[num][key]), expected=float(v))
    # class evaluation
    ref = ref_dense(dom, f0, f1, f2, order)
    for pos in itertools.product(*[range(n) for n in shp]):
        x = np.array([dom[k][pos[k]] for k in range(d)])
        for val in (A(x), A.calc(x)):
            if not close(ref[pos], val, 10 * tol):
                return dict(what='ANOVA.__call__/calc differs from constant + univariate (+ pair) terms', input=inp,
                            at=[int(v) for v in x], got=float(val), expected=float(ref[pos]))
    # TT-tensor
    for name, Z, rr in (('ANOVA.cores', Y, r), ('ANOVA.cores (2nd call on the same object)', Y2, r),
                        ('ANOVA.cores (3rd call on the same object, r+1)', Y3, r + 1), ('anova', Yf, r)):
        if [G.shape[1] for G in Z] != shp:
            return dict(what=f'{name}: mode sizes are not the observed ones', input=inp,
                        got=[G.shape[1] for G in Z], expected=shp)
        rk = ranks_of(Z)
        if any(G.shape[0] != rk[k] for k, G in enumerate(Z)) or rk[-1] != 1:
            return dict(what=f'{name}: inconsistent core shapes', input=inp, got=[G.shape for G in Z])
        if order == 1 and rk != [1] + [rr] * (d - 1) + [1]:
            return dict(what=f'{name}: order-1 TT-ranks are not all equal to r', input=inp, got=rk, expected=rr)
        if order == 2 and max(rk) > rr:
            return dict(what=f'{name}: order-2 TT-ranks exceed r', input=inp, got=rk, expected=rr)
        full = tn.full(Z)
        if not np.all(np.isfinite(full)):
            return dict(what=f'{name}: non-finite tensor', input=inp)
        if order == 1 and noise == 0.:
            err = max(abs(float(ref[pos] - Fraction(float(full[pos])))) for pos in np.ndindex(*shp))
            if err > tol:
                return dict(what=f'{name}: order-1 tensor (noise 0) differs from f0 + sum f1', input=inp,
                            got=err, expected=tol)
        if order == 1 and noise > 0.:
            # the proved bound (C13_cores_1_noise_bound) with F = max(|f0|, |f1|) of the exact reference and gmax the
            # largest recorded draw, plus the rounding of the evaluation itself; valid at every magnitude of the data
            err = max(abs(float(ref[pos] - Fraction(float(full[pos])))) for pos in np.ndindex(*shp))
            Fb = max([abs(float(f0))] + [abs(float(v)) for cur in f1 for v in cur.values()])
            bound = noise_bound(noise, d, rr, Fb, gmax) * (1. + 1e-9) + 1e-12 * max(1., Fb) * d * rr
            if not err <= bound:
                return dict(what=f'{name}: order-1 tensor is further from f0 + sum f1 than the requested noise '
                                 f'allows (bound |noise| d r gmax (r(1+2F+|noise| gmax))^(d-1), gmax={gmax:.3f}, '
                                 f'F={Fb:.6g})', input=inp, got=err, expected=bound)
        if order == 2 and noise == 0. and rr >= lossless_rank(shp):
            err = max(abs(float(ref[pos] - Fraction(float(full[pos])))) for pos in np.ndindex(*shp))
            if err > 1e-6 * scale:
                return dict(what=f'{name}: order-2 tensor (r large enough) differs from f0 + sum f1 + sum f2',
                            input=inp, got=err, expected=1e-6 * scale)
    return None


def cheb_ref(k, t):
    """T_k(t) by cos(k arccos t), independent of teneva's recurrence"""
    return np.cos(k * np.arccos(np.clip(t, -1., 1.)))


def oracle_func(tn, X, y, n, a, b, lamb, pts, rounding=True, forms=None):
    inp = dict(kind='func', X=X, y=y, n=n, a=a, b=b, lamb=lamb, pts=pts, rounding=rounding)
    d = len(X[0])
    if forms:
        inp['forms'] = forms
        Xo = form_X(X, forms['xform'])
        X = [[float(v) for v in row] for row in np.array(Xo, dtype=float)]
        yo, y = form_y(y, forms['yform'])
        inp['X'], inp['y'] = X, y
        ao, bo, no = form_ab(a, d, forms['abform']), form_ab(b, d, forms['abform']), form_s(n, forms['nform'])
    else:
        Xo, yo, ao, bo, no = np.array(X), np.array(y), a, b, n
    try:
        F = tn.ANOVA_func(Xo, yo, no, ao, bo, lamb)
        cfs = [np.array(c, dtype=float).reshape(-1) for c in F.coeffs]
        A0 = tn.anova_func(Xo, yo, no, ao, bo, lamb, e=None)
        A0b = F.cores(e=None)
        A0c = F.cores(e=None)        # history: the same object asked again
        A = tn.anova_func(Xo, yo, no, ao, bo, lamb) if rounding else None
        P = np.array(pts)
        got0 = tn.func_get(P, A0, a, b)
        got = tn.func_get(P, A, a, b) if rounding else None
    except Exception as e:  # noqa
        return dict(what='anova_func raised on valid input: ' + repr(e)[:200], input=inp)
    for Z in [A0, A0b, A0c] + ([A] if rounding else []):
        if [G.shape[1] for G in Z] != [n] * d:
            return dict(what='anova_func: mode sizes are not n', input=inp, got=[G.shape[1] for G in Z])
    csc = max(float(np.max(np.abs(c))) for c in cfs)     # scale of the fitted coefficients (pure relative checks)
    # the coefficient tensor itself: c0 at 0, cf_i[p] at (p+1) e_i, zero elsewhere
    exp_t = np.zeros([n] * d)
    exp_t[(0,) * d] = cfs[0][0]
    for i in range(d):
        for p, c in enumerate(cfs[1 + i]):
            idx = [0] * d
            idx[i] = p + 1
            exp_t[tuple(idx)] = c
    for name, Z, tol in [('anova_func(e=None)', A0, 1e-12), ('ANOVA_func.cores(e=None)', A0b, 1e-12),
                         ('ANOVA_func.cores(e=None), 2nd call', A0c, 1e-12)] + \
                        ([('anova_func (default e)', A, 1e-6)] if rounding else []):
        full = tn.full(Z)
        err = float(np.max(np.abs(full - exp_t))) if np.all(np.isfinite(full)) else float('inf')
        if not err <= tol * csc:
            pos = np.unravel_index(int(np.argmax(np.abs(full - exp_t))), exp_t.shape)
            return dict(what=f'{name}: coefficient tensor is not c0 at 0, cf_i[p] at (p+1)e_i, zero elsewhere',
                        input=inp, at=[int(v) for v in pos], got=float(full[pos]), expected=float(exp_t[pos]),
                        err=err, allowed=tol * csc)
    # the rounding accuracy e at its boundaries (0, tiny, default is covered above, large): the result stays within
    # e ||A||_F of the unrounded tensor (C13_anova_func_error) and keeps the mode sizes
    if rounding:
        nrm = float(np.linalg.norm(exp_t))
        for ev in (0., 1e-14, 1e-3, 0.3):
            try:
                We = tn.anova_func(Xo, yo, no, ao, bo, lamb, ev)
                fe = tn.full(We)
            except Exception as e:  # noqa
                return dict(what=f'anova_func(e={ev!r}) raised on valid input: ' + repr(e)[:200], input=inp)
            if [G.shape[1] for G in We] != [n] * d:
                return dict(what=f'anova_func(e={ev!r}): mode sizes are not n', input=inp, got=[G.shape[1] for G in We])
            err = float(np.linalg.norm(fe - exp_t)) if np.all(np.isfinite(fe)) else float('inf')
            if not err <= (ev + 1e-9) * nrm * (1. + 1e-6):
                return dict(what=f'anova_func(e={ev!r}): rounded coefficient tensor is further than e*||A|| from the '
                                 'unrounded one', input=inp, got=err, expected=(ev + 1e-9) * nrm)
    # independent: fitted constant + sum of fitted 1-D Chebyshev expansions, T_k(t) = cos(k arccos t)
    t = np.clip((P - (b + a) / 2.) * (2. / (b - a)), -1., 1.)
    exp = np.full(len(pts), float(cfs[0][0]))
    for i in range(d):
        for p, c in enumerate(cfs[1 + i]):
            exp += c * cheb_ref(p + 1, t[:, i])
    for name, g, tol in ([('rounded', got, 1e-6)] if rounding else []) + [('e=None', got0, 1e-10)]:
        err = float(np.max(np.abs(g - exp)))
        if not err <= tol * csc * (1 + d * n):
            return dict(what=f'anova_func ({name}): interpolant differs from fitted constant + 1-D expansions',
                        input=inp, got=err, expected=tol * csc * (1 + d * n))
    # the fit itself: the ridge normal equations (B^T B + lamb I) c = B^T (y - mean), any lamb >= 0 including exactly 0
    # (possibly singular: every solution qualifies, so the RESIDUAL is checked, on data scaled to O(1)).  The constant
    # term c_i[0] of mode i is not stored separately: it is recovered from row 0 and the sum is compared with coeffs[0].
    Xs = np.clip((np.array(X) - (b + a) / 2.) * (2. / (b - a)), -1., 1.)
    yy = np.array(y, dtype=float)
    ysc = float(np.max(np.abs(yy)))
    if ysc == 0.:
        return None if csc == 0. else dict(what='ANOVA_func.coeffs are not zero for zero data', input=inp,
                                           got=[c.tolist() for c in cfs])
    y0 = yy.mean()
    yc = (yy - y0) / ysc
    c0 = y0 / ysc
    lam = float(lamb)
    for i in range(d):
        B = cheb_ref(np.arange(n)[None, :], Xs[:, i][:, None])
        N = B.T @ B + lam * np.eye(n)
        rhs = B.T @ yc
        if len(cfs[1 + i]) != n - 1:
            return dict(what=f'ANOVA_func.coeffs[{1 + i}] has length {len(cfs[1 + i])}, not n-1', input=inp)
        tail = cfs[1 + i] / ysc
        ci0 = (rhs[0] - float(N[0, 1:] @ tail)) / N[0, 0]
        cf = np.concatenate([[ci0], tail])
        res = float(np.max(np.abs(N @ cf - rhs)))
        allowed = 1e-7 * (float(np.max(np.abs(rhs))) + n * float(np.max(np.abs(N))) * float(np.max(np.abs(cf))) + 1e-300)
        if not res <= allowed:
            return dict(what=f'ANOVA_func.coeffs[{1 + i}] does not solve the ridge normal equations (lamb={lamb!r})',
                        input=inp, got=res, expected=allowed, coeffs=cfs[1 + i].tolist())
        c0 += ci0
    if not abs(c0 - cfs[0][0] / ysc) <= 1e-7 * (1. + abs(c0)) * d:
        return dict(what='ANOVA_func.coeffs[0] is not mean + sum of the fitted constant terms', input=inp,
                    got=float(cfs[0][0]), expected=float(c0 * ysc))
    return None


def _run_oracle(tn, p):
    with np.errstate(all='ignore'):
        if p.get('kind') == 'near':
            return oracle_near(tn, p['rows'], p['y'], p['r'])
        if p.get('kind') == 'func':
            return oracle_func(tn, p['X'], p['y'], p['n'], p['a'], p['b'], p['lamb'], p['pts'], p.get('rounding', True),
                               p.get('forms'))
        return oracle_anova(tn, p['rows'], p['y'], p['r'], p['order'], p['noise'], p.get('seed', 1), p.get('forms'))


def search(R, ctx, deep, hints):
    tn = C.import_teneva()
    rng = ctx['rng']
    fails, n_eval = [], 0
    cand = []
    # hints from the correspondence first
    for h in hints:
        inp = h.get('input', {})
        if not isinstance(inp, dict):
            continue
        if inp.get('stream') == 'argforms':
            fm = dict(yform=inp['yform'], iform=inp['iform'], sform=inp['sform'])
            cand.append(dict(kind='anova', rows=inp['rows'], y=inp['y'], r=inp['r'], order=inp['order'], noise=0.,
                             forms=fm))
        if inp.get('stream') in ('order2_big', 'order2_cap'):
            cand.append(dict(kind='anova', rows=inp['rows'], y=inp['y'], r=inp['r'], order=2, noise=0.))
        if inp.get('stream') == 'history':
            for r in sorted(set(inp['r'])):
                cand.append(dict(kind='anova', rows=inp['rows'], y=inp['y'], r=r, order=inp['order'], noise=0.))
        if inp.get('stream') in ('stats', 'cores1', 'order2'):
            for order in ([inp['order']] if 'order' in inp else ([2] if inp['stream'] == 'order2' else [1])):
                cand.append(dict(kind='anova', rows=inp['rows'], y=inp['y'], r=inp.get('r', 3), order=order,
                                 noise=inp.get('noise', 0.)))
                cand.append(dict(kind='anova', rows=inp['rows'], y=inp['y'], r=max(inp.get('r', 3), 9), order=order,
                                 noise=0.))
        if inp.get('stream') == 'func':
            pts = [[inp['a'] + (inp['b'] - inp['a']) * rng.random() for _ in inp['X'][0]] for _ in range(5)]
            cand.append(dict(kind='func', X=inp['X'], y=inp['y'], n=inp['n'], a=inp['a'], b=inp['b'],
                             lamb=inp['lamb'], pts=pts, rounding=inp.get('family') not in NO_ROUNDING,
                             forms=inp.get('forms')))
    # degenerate families
    grid2 = [[i, j] for i in range(2) for j in range(3)]
    cand.append(dict(kind='anova', rows=grid2, y=[1, 2, 3, 4, 5, 6], r=2, order=1, noise=0.))
    cand.append(dict(kind='anova', rows=grid2, y=[3] * 6, r=3, order=2, noise=0.))
    cand.append(dict(kind='anova', rows=[[0, 0], [0, 0], [1, 1]], y=[1, 2, 4], r=2, order=1, noise=0.))
    cand.append(dict(kind='anova', rows=[[5, 7, 2]], y=[4], r=2, order=1, noise=0.))
    cand.append(dict(kind='anova', rows=[[5, 7, 2], [4, 7, 2]], y=[4, 1], r=2, order=2, noise=0.))
    g4 = [list(t) for t in itertools.product(range(2), range(3), range(2), range(2))]
    cand.append(dict(kind='anova', rows=g4, y=[(t[0] + 1) * (t[1] - 1) + t[2] * t[3] for t in g4], r=6, order=2,
                     noise=0.))
    g5 = [list(t) for t in itertools.product(range(2), repeat=5)]
    cand.append(dict(kind='anova', rows=g5, y=[t[0] * t[4] + 2 * t[1] * t[3] - t[2] for t in g5], r=4, order=2,
                     noise=0.))
    # d = 6: 15 pair tensors, add_many truncates on the way
    g6 = [list(t) for t in itertools.product(range(2), repeat=6)]
    cand.append(dict(kind='anova', rows=g6, y=[t[0] * t[5] + t[1] * t[2] - t[3] + 2 * t[4] for t in g6], r=8,
                     order=2, noise=0.))
    # the rounding period of add_many (every 15 summands; the final truncate is the only one that enforces r):
    # through teneva.anova the number of summands after the first is d(d-1)/2 = 15 (d=6), 21 (d=7), 45 (d=10);
    # through cores(only_near=True) it is d-1 = 14, 15, 16, 30 (d = 15, 16, 17, 31, mode sizes 2)
    for r_ in (2, 3):
        cand.append(dict(kind='anova', rows=g6, y=[t[0] * t[5] + t[1] * t[2] - t[3] + 2 * t[4] for t in g6], r=r_,
                         order=2, noise=0.))
    for dd, m_, r_ in ((6, 25, 2), (7, 30, 2), (7, None, 8), (10, 50, 3)) + (((10, None, 32),) if deep else ()):
        rows, y = gen_binary(rng, dd, m_)
        cand.append(dict(kind='anova', rows=rows, y=y, r=r_, order=2, noise=0.))
    for dd in (15, 16, 17, 31):
        rows, y = gen_binary(rng, dd, 40)
        cand.append(dict(kind='near', rows=rows, y=y, r=rng.choice([2, 3])))
    # the noise clause on data of large and small magnitude (|y| ~ 1e4, 1e8, 1e-6 with a non-zero mean), noise > 0
    # including the default 1e-10, d = 3..5, through the class and through the wrapper (both inside oracle_anova)
    for k_, (mag, nz) in enumerate([(1e4, 1e-10), (1e8, 1e-10), (1e-6, 1e-10), (1e4, 1e-6), (1e8, 1e-3), (1e4, 1e-10),
                                    (1e-6, 1e-3), (1e4, 1e-10)] + ([(1e8, 1e-6), (1e4, 1e-3)] * 4 if deep else [])):
        dd = 3 + k_ % 3
        rows = [[rng.randint(0, 2) for _ in range(dd)] for _ in range(rng.randint(6, 14))]
        y = [mag * (2. + rng.randint(-8, 8) / 8.) for _ in rows]
        cand.append(dict(kind='anova', rows=rows, y=y, r=rng.randint(2, 4), order=1, noise=nz,
                         seed=rng.randrange(1000)))
    # random structured inputs
    n_rand = 60 if not deep else 400
    for _ in range(n_rand):
        rows, y, desc = gen_samples(rng, dmax=5 if deep else 4)
        order = rng.choice([1, 1, 2])
        shp = [len(set(r[k] for r in rows)) for k in range(desc['d'])]
        r = rng.choice([2, 3, 4, lossless_rank(shp)]) if order == 2 else rng.randint(2, 5)
        noise = rng.choice([0., 0., 1e-10, 1e-6, 1e-3]) if order == 1 else 0.
        if rng.random() < 0.3:
            mag = rng.choice([1e4, 1e8, 2. ** -20])
            y = [mag * v for v in y]
        cand.append(dict(kind='anova', rows=rows, y=y, r=r, order=order, noise=noise, seed=rng.randrange(1000)))
    # argument forms: every y form on a fixed data set first, then random forms
    rows0 = [[0, 5], [0, 7], [0, 9], [4, 5], [4, 7], [4, 9], [4, 9]]
    for k_, yf in enumerate(Y_FORMS):
        cand.append(dict(kind='anova', rows=rows0, y=[0.1, 0.2, 0.7, 1.3, 2.1, -0.4, 0.9] if yf[0] in 'lf'
                         else [1, 2, 3, 4, 5, 6, 8], r=3, order=1 + k_ % 2, noise=0.,
                         forms=dict(yform=yf, iform=I_FORMS[k_ % len(I_FORMS)], sform=S_FORMS[k_ % len(S_FORMS)])))
    for _ in range(30 if not deep else 200):
        rows, yobj, yex, Iobj, desc = gen_forms_anova(rng)
        order = rng.choice([1, 2])
        shp = [len(set(r_[k] for r_ in rows)) for k in range(desc['d'])]
        cand.append(dict(kind='anova', rows=rows, y=yex, r=lossless_rank(shp) if order == 2 else rng.randint(2, 4),
                         order=order, noise=0., forms=dict(yform=desc['yform'], iform=desc['iform'],
                                                           sform=rng.choice(S_FORMS))))
    # additive functions on full grids: reproduced exactly
    for _ in range(20 if not deep else 100):
        rows, y, desc = gen_samples(rng, kind='additive_full')
        cand.append(dict(kind='anova', rows=rows, y=y, r=rng.randint(2, 4), order=1, noise=0., additive=True))
    # functional variant: degenerate families first (constant data with an inexact mean: the fitted higher
    # coefficients are rounding noise below the 1e-16 threshold of tensors.delta; tiny / huge scales), then generic
    Xd = [[-1., 0.5], [0.25, -0.5], [0.75, 1.], [-0.25, 0.], [0.5, -1.], [0., 0.75], [1., 0.25]]
    for yv in (0.1, -0.7, 1. / 3.):
        cand.append(dict(kind='func', X=Xd, y=[yv] * 7, n=3, a=-1., b=1., lamb=1e-7,
                         pts=[[0.3, -0.6], [-0.9, 0.1], [0.77, 0.55]]))
    # the regularisation value at its boundaries on one fixed data set (d = 2 and d = 3)
    Xd3 = [r_ + [(-1) ** k_ * (k_ % 4) / 4.] for k_, r_ in enumerate(Xd)]
    for lv in (0, 0., 1e-300, 1e-16, 1e3, 1e10):
        for XX in (Xd, Xd3):
            cand.append(dict(kind='func', X=XX, y=[1.5, -2., 0.25, 3., -0.75, 1., 2.5], n=3, a=-1., b=1., lamb=lv,
                             pts=[[0.3, -0.6, 0.2][:len(XX[0])], [-0.9, 0.1, -0.4][:len(XX[0])]]))
    cand.append(dict(kind='func', X=Xd, y=[3e-18, -1e-18, 4e-18, 1e-18, -5e-18, 9e-18, 2e-18], n=3, a=-1., b=1.,
                     lamb=1e-7, pts=[[0.3, -0.6], [-0.9, 0.1]]))
    for k_ in range(33 if not deep else 165):
        fam = FUNC_FAMILIES[k_ % len(FUNC_FAMILIES)]
        X, y, n, a, b, lamb, d = gen_func(rng, fam)
        pts = [[a + (b - a) * rng.random() for _ in range(d)] for _ in range(6)]
        wide = fam in ('tiny18', 'tiny100', 'tiny300', 'huge100', 'huge200', 'mixed_tiny')
        fm = dict(xform=rng.choice(X_FORMS), yform=rng.choice(['list', 'f64'] if wide else ['list', 'f64', 'f32', 'f16']),
                  abform=rng.choice(AB_FORMS), nform=rng.choice(S_FORMS))
        cand.append(dict(kind='func', X=X, y=y, n=n, a=a, b=b, lamb=lamb, pts=pts, rounding=fam not in NO_ROUNDING,
                         forms=fm))
    for p in cand:
        n_eval += 1
        try:
            f = _run_oracle(tn, p)
            if f is None and p.get('additive'):
                # exact reproduction of the sampled additive function
                Y = tn.anova(np.array(p['rows']), np.array(p['y'], dtype=float), r=p['r'], order=1, noise=0.)
                dom = [sorted(set(r[k] for r in p['rows'])) for k in range(len(p['rows'][0]))]
                for row, v in zip(p['rows'], p['y']):
                    pos = [dom[k].index(row[k]) for k in range(len(row))]
                    got = float(tn.get(Y, pos))
                    if abs(got - v) > 1e-10 * max(1., max(abs(t) for t in p['y'])):
                        f = dict(what='additive function on a full grid is not reproduced', input=p, at=row, got=got,
                                 expected=v)
                        break
        except Exception as e:  # noqa
            f = dict(what='oracle raised: ' + repr(e)[:200], input=p)
        if f:
            fails.append(f)
            if len(fails) >= 5:
                break
    R.search.append(dict(name='ANOVA oracle (Fraction conditional means, dense export, func_get)', evaluations=n_eval,
                         failures=len(fails), deep=deep))
    return fails


def replay(data):
    tn = C.import_teneva()
    p = data['payload']
    print(data['what'])
    inp = p.get('input')
    if isinstance(inp, dict) and inp.get('kind') in ('anova', 'func', 'near'):
        f = _run_oracle(tn, inp)
        print('replayed:', f)
        return 1 if f else 0
    return 1
